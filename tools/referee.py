"""External referees for finished archives: CPython's zipfile and (when installed) Info-ZIP
unzip.  They share no code with the crate or with the harness's lexer.  Verdicts: ok | skip |
bad:<why>."""
import binascii, io, shutil, subprocess, zipfile, zlib

SUPPORTED = {0, 8, 12}


def cpython(path, L, pws):
    """L: the lexed layout of the same bytes (for field-by-field comparison)"""
    try:
        data = open(path, "rb").read()
        zf = zipfile.ZipFile(io.BytesIO(data))
    except Exception as e:  # noqa
        return "bad:open:%s" % type(e).__name__
    infos = zf.infolist()
    if not L.get("ok"):
        return "skip"
    if len(infos) != len(L["cd"]):
        return "bad:count %d vs %d" % (len(infos), len(L["cd"]))
    if len(zf.comment) != L["eocd"]["clen"]:
        return "bad:comment"
    for zi, c in zip(infos, L["cd"]):
        if zi.CRC != int(c["crc"], 16) or zi.file_size != c["usize"] or zi.compress_size != c["csize"]:
            return "bad:fields %s" % zi.filename[:20]
        if zi.header_offset != c["off"] or zi.compress_type != c["method"]:
            return "bad:offset/method"
        d, t = c["date"], c["time"]
        if zi.date_time != ((d >> 9) + 1980, (d >> 5) & 15, d & 31, t >> 11, (t >> 5) & 63, (t & 31) * 2):
            return "bad:time"
        if zi.external_attr >> 16 != c["eattr_hi"]:
            return "bad:attr"
        if c["method"] not in SUPPORTED:
            continue
        if zi.filename == "":
            continue      # CPython's ZipInfo.is_dir() indexes filename[-1]: an empty name cannot be opened there
        ok = False
        tries = [None] if not (zi.flag_bits & 1) else [binascii.unhexlify(p) for p in pws if p]
        if zi.flag_bits & 1 and "" in pws:
            continue      # CPython treats an empty password as "no password given"
        err = None
        for pw in tries:
            try:
                with zf.open(zi, pwd=pw) as f:
                    n = 0
                    crc = 0
                    while True:
                        b = f.read(1 << 16)
                        if not b:
                            break
                        n += len(b)
                        crc = zlib.crc32(b, crc)
                if n == c["usize"] and crc == int(c["crc"], 16):
                    ok = True
                    break
            except Exception as e:  # noqa
                err = type(e).__name__
        if not ok:
            if zi.flag_bits & 1 and not tries:
                continue
            return "bad:read %s %s" % (zi.filename[:20], err)
    return "ok"


def unzip_t(path, L):
    if not shutil.which("unzip"):
        return "skip"
    if not L.get("ok") or any(c["method"] not in (0, 8, 12) or c["flags"] & 1 for c in L["cd"]):
        return "skip"
    try:
        p = subprocess.run(["unzip", "-tqq", path], stdout=subprocess.PIPE, stderr=subprocess.STDOUT, stdin=subprocess.DEVNULL, timeout=60)
    except subprocess.TimeoutExpired:
        return "bad:unzip did not terminate"
    if p.returncode in (0, 1):
        return "ok"
    if p.returncode in (81, 82):
        return "skip"
    return "bad:unzip exit %d" % p.returncode
