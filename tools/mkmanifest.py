#!/usr/bin/env python3
"""regenerates /verif/MANIFEST.json from the table below (kept next to the checks)"""
import json, os, subprocess
ROOT = os.path.dirname(os.path.dirname(os.path.abspath(__file__)))
TV = "TLA+ spec (ZipWriter.tla/ZipFormat.tla) model-checked with TLC + trace validation of the real code's event log (Trace_Writer.tla)"
C = {
 "C01": ("model_checking", "5.3,6/C01", TV,
   "MC_Writer (TLC, exhaustive over call orders at scaled thresholds) establishes the writer model's invariants; seeded random well-behaved programs run on the real ZipWriter, and every call plus the lexed bytes and the real reader's per-entry view of the reopened archive are validated event by event against ZipWriter.tla (names, method, DOS time words, mode, sizes, CRC, content CRC, comment; finish vs drop byte equality). Right level: the property is a refinement between call history and archive meaning; the spec is the oracle at every step.",
   "trusted: flate2/bzip2/zstd codecs, harness CRC-32/FNV, serde_json; names/comments avoid embedded ZIP signatures; >65535 entries and multi-GiB sizes are covered under C08"),
 "C02": ("model_checking", "5.2,6/C02", TV + " + independent lexer, CPython zipfile, unzip -t as referees",
   "Every finished archive is parsed by the harness's independent strict lexer (written from APPNOTE, no crate code) and judged by ZipFormat!WriterWellFormed (W1-W11) and by equality with the layout ZipWriter.tla predicts from the call history; CPython zipfile and Info-ZIP unzip -t verdicts are logged as events the trace spec requires to be ok; inputs whose lengths do not fit 16 bits must produce errors (NoTruncation at model level, boundary programs at real limits).",
   "version-needed not constrained (W9); CPython cannot decode zstd (those entries are compared structurally only)"),
 "C12": ("model_checking", "5.3,6/C12", TV,
   "TLC reaches the fix-point of the writer mode machine over the full call alphabet (any order, any length, <= MaxFiles entries) with ModeConsistent/ClosedReports/LayoutWellFormed; behaviours simulated from the model and seeded random call sequences (legal or not, depth up to 200 in thorough) are executed on the real writer and each call's result class and sink position, and the finally reopened archive, must be explained by ZipWriter.tla; a panic is never explainable.",
   "MaxFiles=2 in the exhaustive configuration (3 in simulation); encryption only with start_file+write as the property states"),
 "C17": ("model_checking", "5.3,6/C17", TV,
   "AlignedF/EndExtraF in ZipWriter.tla with the Aligned invariant model-checked; every alignment value (quick: 0..300, powers of two +-1, 65531..65535; thorough: all 65536) at varied preceding offsets with/without large_file and consecutive aligned entries, plus extra-data programs (shared/local-only/central-only; reserved, ZIP64, truncated records; totals around the 16-bit limit) run on the real writer; returned padding, data_start (bytes and reader), placement/verbatim storage validated by the trace spec.",
   "extra-data programs write whole records per call"),
 "C13": ("model_checking", "5.3,6/C13", TV,
   "NewAppendF in ZipWriter.tla (entries re-derived from the independently lexed base, absolute offsets, last old entry not re-patched) with the action property ClosedEntriesImmutable model-checked; histories base -> (append k)* with 1..3 rounds over bases from this writer, the independent builder (prefix up to 64 KiB, forced ZIP64, data descriptors, unknown methods, CP437 names) and CPython zipfile; after each round the lexed bytes, the reopened archive and every old entry's metadata, raw-data CRC and decoded content must equal the spec's expectation. Known finding D10 (stale tail when the re-emitted directory is shorter) is reported as KNOWN-FINDING, keyed by the history predicate.",
   "bases are unencrypted as the property states; >65535-entry and >4 GiB bases are exercised under C08"),
 "C14": ("model_checking", "5.3,6/C14", TV,
   "RawCopyF + RawVerbatim: raw copies (first/middle/last/only, renamed or not) of entries from this writer (every method/level) and from the independent builder (methods the crate cannot decode, four data-descriptor styles, forced ZIP64, DOS/absent attributes, CP437 names) interleaved with ordinary entries, into sinks that also short-write; the trace spec requires identical raw bytes (CRC of the data region from the independent lexer and from by_index_raw), equal method/CRC/sizes/time words/low nine permission bits and unchanged neighbours.",
   "ZIP64-sized sources are exercised under C08"),
 "C03": ("model_checking", "5.4,6/C03", "TLA+ spec ZipOpen.tla (LocateFaithful model-checked in MC_Open) + trace validation of the real reader's view against ZipOpen!View of an independently lexed layout (Trace_Open.tla)",
   "MC_Open proves LocateFaithful (end-record search window, locator probe relative to the end of file, ZIP64 forward search, prefix arithmetic) over all abstract tails at scaled limits; every realisable tail shape enumerated by TLC and seeded random archives from an independent producer (all data-descriptor styles, forced ZIP64 subsets in either position, differing extras, comments, made-by systems, attribute words, CP437/UTF-8/invalid names, duplicates, reordered directory, gaps, prefix, garbage, unsupported methods) and from CPython are opened with the real reader; archive view, every accessor, by-name (last duplicate wins), absent/out-of-range lookups, raw and decoded content must equal ZipOpen!View(lexed layout).",
   "payloads avoid embedded signatures; counts/sizes at the 16/32-bit limits are realised under C08"),
 "C19": ("model_checking", "5.9,6/C19", "TLA+ spec Encoding.tla (Cp437Table data, UTF-8 decoder in TLA+; laws model-checked in MC_Encoding) + trace validation (Trace_Open.tla RDecode, Trace_Writer.tla)",
   "Exhaustive over 256 byte values x flag x position x {name, file comment} plus multi-byte valid/invalid UTF-8 and random strings: the trace spec itself computes the required decoded string (CP437 table taken from CPython's codec, UTF-8 by a decoder written in TLA+) and compares code points; the raw-name accessor must return the stored bytes; writer side through Trace_Writer (flag iff non-ASCII, same bytes, same string back).",
   "replacement decoding of invalid UTF-8 is taken from std (the documented behaviour); TLA+-decided strings are <= 512 bytes"),
 "C04": ("model_checking", "5.5,6/C04", "TLA+ spec EntryRead.tla (pull pipeline; invariants and spec mutants model-checked with TLC) + trace validation of every read() call of the real readers (Trace_EntryRead.tla)",
   "EofIntegrity/TamperDetected hold in the model for every damage class, crypto kind and schedule (the no_crc and zero_read_skips_crc spec mutants are detected). Binding: single-bit flips over data regions and central/local CRC fields, multi-byte damage, zeroed tails and swapped payloads of seed archives (stored/deflate/bzip2; plain/ZipCrypto/AE-1/AE-2) are read through the seekable and the streaming reader with schedules that include zero-length reads; any completed read whose CRC differs from the declared CRC (AE-2: from the original) is rejected, and stored entries must follow the model's pipeline step by step.",
   "a damage that leaves decoded bytes and CRC intact legitimately succeeds; quick samples data-region bits, thorough enumerates them; CRC-32 collisions (2^-32) ignored"),
 "C09": ("model_checking", "5.5,6/C09", "TLA+ spec EntryRead.tla (pull pipeline; invariants and spec mutants model-checked with TLC) + trace validation of every read() call of the real readers (Trace_EntryRead.tla) + Trace_Writer.tla for the writer side",
   "All schedules of the model (buffers {0,1,2,5}, every short-read choice) satisfy CipherSync/Accounting/ZeroAndSticky; binding: caller buffer schedules x underlying short-read plans incl. ONE short read at every byte position of small archives, all methods, plain/ZipCrypto/AE-1/AE-2, seekable and streaming readers; each read() is validated (stored entries exactly against the pipeline model); writer: one short write at every byte position and capped writes give byte-identical archives, caller-side splits decode to the same entries.",
   "codec crates trusted; long entries summarised (final state only)"),
 "C15": ("model_checking", "5.4,5.5,6/C15", "TLA+ decision table ZipOpen!OpenDecision + EntryRead.tla, trace validation (Trace_Open.tla, Trace_EntryRead.tla, Trace_Writer.tla)",
   "Exhaustive over the 256 check-byte values x {CRC-validated, time-validated} with entries from the independent builder: no password -> password-required, right -> original bytes, wrong failing the check byte -> invalid-password, wrong passing it -> must fail on read; Info-ZIP zip -P archives when installed; entries the crate encrypts are decrypted by an independent ZipCrypto (harness) and by CPython/unzip as referees, must differ from the plaintext, and read back.",
   "the 32-bit key schedule is settled by agreement of independent implementations, not by the spec"),
 "C16": ("model_checking", "5.5,6/C16", "TLA+ spec EntryRead.tla (pull pipeline; invariants and spec mutants model-checked with TLC) + trace validation of every read() call of the real readers (Trace_EntryRead.tla) + ZipOpen!OpenDecision (Trace_Open.tla)",
   "MacAtEnd/TamperDetected/AE-1-vs-AE-2 CRC rule model-checked (no_mac/no_crc mutants found); binding: entries from the independent AES encryptor for every (AE version, strength, inner method, length in {0,1,15,16,17,33,1000}), open decisions for none/right/wrong passwords, reads under short-read schedules, every single-bit flip of salt/verifier/ciphertext/MAC of small entries and CRC-field flips.",
   "empty entries exempt from the MAC claim as the property says; quick samples the flips"),
 "C10": ("model_checking", "5.6,6/C10", "TLA+ spec ZipStream.tla (cursor/drain/visitor model + spec mutants, TLC) + trace validation of the streaming reader (Trace_Stream.tla, expectations from ZipOpen!EntryView)",
   "OnRecordBoundary/EndAtDirectory/VisitOrder hold over all entry lists and consumption histories of the model (no_drain, drain_one_short, meta_skipped mutants are found); binding: archives from the crate's writer and the independent builder are walked front to back over short-reading sources with per-entry consumption plans {0,1,half,all-1,all,EOF,beyond}; the stream offset at each header parse, each entry's metadata and content prefix (= what the seekable reader must report for the lexed layout), the end-of-entries signal, errors for encrypted/data-descriptor entries, and the visitor's file + metadata callbacks are validated.",
   "archives with >= 1 entry and no prefix/gaps, as the property states"),
 "C20": ("model_checking", "5.7,6/C20", "TLA+ spec Clones.tla (all interleavings of N handles; spec mutants; TLC) + trace validation of real clones on one thread and across OS threads (Trace_Clones.tla)",
   "PerHandleView/CacheIdempotent hold over every interleaving of 3 handles x 2 entries in the model (shared_reader, two_step_cache mutants are found); binding: every interleaving of short per-handle scripts for 2-3 handles, random long interleavings for up to 6 handles, and 4-16 OS threads with randomised yields inside the cloned reader; every open must report the byte-determined data start (the only shared mutable cell) and every read the slice the handle would get alone; Send + Sync of the handle is a compile-time assertion in the harness (a failing build is reported as tool trouble naming it).",
   "OS schedules are sampled; the exhaustive part is at API-call granularity"),
}
checks = []
for pid in sorted(C):
    cat, ref, tech, text, note = C[pid]
    checks.append({"property_id": pid, "quick_cmd": "bin/check %s quick" % pid, "thorough_cmd": "bin/check %s thorough" % pid,
                   "evidence_file": "evidence/%s.json" % pid, "replay_cmd_template": "bin/check %s --replay {path}" % pid,
                   "engine": "tlc+zipconf", "level_claimed": {"category": cat, "text": text, "design_ref": ref},
                   "level_note": note, "technique": tech})
na = [{"property_id": "C%02d" % i, "reason": "check under construction in this round (spec module planned in DESIGN.md section 6); not claimed yet"}
      for i in range(1, 21) if "C%02d" % i not in C]
fixes = subprocess.run(["git", "-C", "/repo", "log", "--format=%h %s"], stdout=subprocess.PIPE, text=True).stdout.splitlines()
m = {"version": 1, "setup_cmd": "bin/setup",
     "hooks": {"guard": "zip_verif", "enable": "harness/.cargo/config.toml passes --cfg zip_verif to every crate of the harness build (including the path dependency /repo); no hook is currently needed or present",
               "baseline_off_cmd": "cd /repo && cargo test --workspace --no-fail-fast --offline", "source_commits": [], "add_only": True},
     "engines": [{"name": "tlc+zipconf", "path": "tools/check.py", "serves_properties": sorted(C),
                  "kind_free_text": "TLC (model checking, simulation, trace validation) over /verif/spec + Rust conformance harness /verif/harness driving the real crate"}],
     "checks": checks,
     "notes": "exit 0 held / 1 VIOLATION / 2 tool trouble; VERIF_SEED honoured; fix commits in /repo: " + "; ".join(f for f in fixes if " fix:" in f),
     "not_applicable": na}
json.dump(m, open(os.path.join(ROOT, "MANIFEST.json"), "w"), indent=1)
print("manifest:", len(checks), "checks,", len(na), "not applicable")
