"""Independent reference ZIP builder (APPNOTE 6.3.9 + WinZip AE-x), sharing no code with the
crate: own little-endian serialisation, ZipCrypto, AES (pure Python), AE-1/AE-2 framing.
build(desc) -> (bytes, view) where `view` is what a faithful reader must report."""
import bz2
import hashlib
import hmac
import struct
import zlib

S32 = 0xFFFFFFFF
S16 = 0xFFFF

# ------------------------------------------------------------------ ZipCrypto
_CRCT = []
for _i in range(256):
    _c = _i
    for _ in range(8):
        _c = (0xEDB88320 ^ (_c >> 1)) if _c & 1 else (_c >> 1)
    _CRCT.append(_c)


class ZipCrypto:
    def __init__(self, pw):
        self.k = [0x12345678, 0x23456789, 0x34567890]
        for b in pw:
            self.update(b)

    def update(self, b):
        k = self.k
        k[0] = _CRCT[(k[0] ^ b) & 0xFF] ^ (k[0] >> 8)
        k[1] = ((k[1] + (k[0] & 0xFF)) * 134775813 + 1) & 0xFFFFFFFF
        k[2] = _CRCT[(k[2] ^ (k[1] >> 24)) & 0xFF] ^ (k[2] >> 8)

    def stream(self):
        t = (self.k[2] | 2) & 0xFFFF
        return ((t * (t ^ 1)) >> 8) & 0xFF

    def encrypt(self, data):
        out = bytearray()
        for p in data:
            out.append(p ^ self.stream())
            self.update(p)
        return bytes(out)


def zipcrypto_encrypt(pw, plain, check_byte, header_seed=7):
    hdr = bytes(((header_seed * 31 + i * 17) & 0xFF) for i in range(11)) + bytes([check_byte])
    z = ZipCrypto(pw)
    return z.encrypt(hdr + plain)


# ------------------------------------------------------------------ AES (FIPS-197, encryption only)
_SBOX = [0] * 256


def _init_sbox():
    p = q = 1
    while True:
        p = p ^ ((p << 1) & 0xFF) ^ (0x1B if p & 0x80 else 0)
        q ^= q << 1
        q ^= q << 2
        q ^= q << 4
        q &= 0xFF
        if q & 0x80:
            q ^= 0x09
        x = q ^ ((q << 1) | (q >> 7)) & 0xFF ^ ((q << 2) | (q >> 6)) & 0xFF ^ ((q << 3) | (q >> 5)) & 0xFF ^ ((q << 4) | (q >> 4)) & 0xFF
        _SBOX[p] = (x ^ 0x63) & 0xFF
        if p == 1:
            break
    _SBOX[0] = 0x63


_init_sbox()


def _xt(a):
    return ((a << 1) ^ 0x1B) & 0xFF if a & 0x80 else (a << 1)


def _expand(key):
    nk = len(key) // 4
    nr = nk + 6
    w = [list(key[4 * i:4 * i + 4]) for i in range(nk)]
    rc = 1
    for i in range(nk, 4 * (nr + 1)):
        t = list(w[i - 1])
        if i % nk == 0:
            t = t[1:] + t[:1]
            t = [_SBOX[b] for b in t]
            t[0] ^= rc
            rc = _xt(rc)
        elif nk > 6 and i % nk == 4:
            t = [_SBOX[b] for b in t]
        w.append([w[i - nk][j] ^ t[j] for j in range(4)])
    return w, nr


def aes_encrypt_block(exp, block):
    w, nr = exp
    s = [block[i] ^ w[i // 4][i % 4] for i in range(16)]
    for r in range(1, nr + 1):
        s = [_SBOX[b] for b in s]
        s = [s[(i + 4 * (i % 4)) % 16] for i in range(16)]            # shift rows (column-major state)
        if r != nr:
            t = []
            for c in range(4):
                a = s[4 * c:4 * c + 4]
                x = a[0] ^ a[1] ^ a[2] ^ a[3]
                t += [a[0] ^ x ^ _xt(a[0] ^ a[1]), a[1] ^ x ^ _xt(a[1] ^ a[2]),
                      a[2] ^ x ^ _xt(a[2] ^ a[3]), a[3] ^ x ^ _xt(a[3] ^ a[0])]
            s = t
        s = [s[i] ^ w[4 * r + i // 4][i % 4] for i in range(16)]
    return bytes(s)


def aes_ctr_le(key, data):
    """WinZip AES-CTR: 128-bit little-endian counter starting at 1, no nonce"""
    exp = _expand(key)
    out = bytearray()
    ctr = 1
    for o in range(0, len(data), 16):
        ks = aes_encrypt_block(exp, ctr.to_bytes(16, "little"))
        ctr += 1
        chunk = data[o:o + 16]
        out += bytes(a ^ b for a, b in zip(chunk, ks))
    return bytes(out)


def aes_entry(pw, strength, plain_compressed, salt_seed=1):
    """salt | 2-byte verifier | ciphertext | 10-byte HMAC-SHA1-80 (over the ciphertext)"""
    klen = {1: 16, 2: 24, 3: 32}[strength]
    salt = bytes(((salt_seed * 13 + i * 7 + 1) & 0xFF) for i in range(klen // 2))
    dk = hashlib.pbkdf2_hmac("sha1", pw, salt, 1000, 2 * klen + 2)
    ekey, mkey, ver = dk[:klen], dk[klen:2 * klen], dk[2 * klen:]
    ct = aes_ctr_le(ekey, plain_compressed)
    mac = hmac.new(mkey, ct, hashlib.sha1).digest()[:10]
    return salt + ver + ct + mac, {"salt": (0, len(salt)), "verifier": (len(salt), len(salt) + 2),
                                   "ct": (len(salt) + 2, len(salt) + 2 + len(ct)),
                                   "mac": (len(salt) + 2 + len(ct), len(salt) + 12 + len(ct))}


# ------------------------------------------------------------------ compression
def compress(method, data, level=6):
    if method == 8:
        c = zlib.compressobj(level, zlib.DEFLATED, -15)
        return c.compress(data) + c.flush()
    if method == 12:
        return bz2.compress(data, max(1, min(9, level)))
    return data          # stored, or a method nobody here can decode (bytes are kept as they are)


def tlv(recs):
    out = b""
    for ident, body in recs:
        out += struct.pack("<HH", ident, len(body)) + body
    return out


def dos_words(y, mo, d, h, mi, s):
    return ((y - 1980) << 9) | (mo << 5) | d, (h << 11) | (mi << 5) | (s >> 1)


# ------------------------------------------------------------------ builder
def build(desc):
    """desc = {"prefix": bytes, "entries": [entry...], "order": [indices] (central order),
               "gaps": [bytes before each local entry], "comment": bytes, "trailing": bytes,
               "z64end": bool (force ZIP64 end records), "cd_gap": bytes between data and directory}
    entry = {"name": bytes, "utf8": bool, "method": int, "data": bytes, "level": int,
             "dd": None|"sig32"|"nosig32"|"sig64"|"nosig64", "z64": subset of {"usize","csize","off"}
             (forced into the central ZIP64 record), "lz64": bool (local ZIP64 record with sentinels),
             "lextra": [(id, bytes)], "cextra": [(id, bytes)], "z64_last": bool (ZIP64 record after the
             other extras), "fcomment": bytes, "system": int, "vmade": int, "eattr": int, "date": int,
             "time": int, "enc": None | ("zc", pw) | ("aes", version, strength, pw), "crc": override, "lextra_tail": bytes,
             "lname": bytes (local name override), "flags_extra": int,
             "lz64_last": bool (position of the LOCAL ZIP64 record; default: as z64_last),
             "aes_first": bool (the AE-x record precedes the entry's other extra records; default: it follows them),
             "cx_layout"/"sent"/"cx_tail"/"cx_cut": the central extra field record by record (see the code)}"""
    out = bytearray(desc.get("prefix", b""))
    base = len(out)           # offsets are relative to the start of the archive proper
    ents = desc["entries"]
    recs = []
    for i, e in enumerate(ents):
        out += (desc.get("gaps") or [b""] * len(ents))[i] if desc.get("gaps") else b""
        name = e["name"]
        data = e.get("data", b"")
        method = e.get("method", 0)
        real_method = method
        crc = zlib.crc32(data) & 0xFFFFFFFF
        comp = compress(method, data, e.get("level", 6)) if "raw" not in e else e["raw"]
        flags = (0x800 if e.get("utf8") else 0) | e.get("flags_extra", 0)
        date, time_ = e.get("date", 33), e.get("time", 0)
        dd = e.get("dd")
        if dd:
            flags |= 8
        enc = e.get("enc")
        aes_extra = []
        regions = None
        if enc and enc[0] == "zc":
            flags |= 1
            check = (time_ >> 8) & 0xFF if dd else (crc >> 24) & 0xFF
            if "check_byte" in e:
                check = e["check_byte"]
            comp = zipcrypto_encrypt(enc[1], comp, check)
        elif enc and enc[0] == "aes":
            flags |= 1
            _, ver, strength, pw = enc
            comp, regions = aes_entry(pw, strength, comp)
            aes_extra = [(0x9901, struct.pack("<H2sBH", ver, b"AE", strength, method))]
            real_method = 99
        crc_field = e.get("crc", crc)
        if enc and enc[0] == "aes" and enc[1] == 2 and "crc" not in e:
            crc_field = 0
        usize, csize = len(data), len(comp)
        off = len(out) - base
        # local header
        lz64 = e.get("lz64", False)
        lextra = (aes_extra + list(e.get("lextra", []))) if e.get("aes_first") else (list(e.get("lextra", [])) + aes_extra)
        if lz64:
            z = (1, struct.pack("<QQ", 0 if dd else usize, 0 if dd else csize))
            lextra = lextra + [z] if e.get("lz64_last", e.get("z64_last")) else [z] + lextra
        lx = tlv(lextra) + e.get("lextra_tail", b"")      # (1-3 bytes that form no complete record: padding some tools emit)
        if dd:
            lcrc, lcs, lus = 0, 0, 0
        else:
            lcrc, lcs, lus = crc_field, csize, usize
        if lz64:
            lcs, lus = S32, S32
        if "lx_layout" in e:
            # the LOCAL extra field laid out record by record (see cx_layout below): ("z64", delta) holds one value per size field listed
            # in e["lsent"] (whose 32-bit fields then hold the marker)
            lsent = e.get("lsent", ())
            if "us" in lsent:
                lus = S32
            if "cs" in lsent:
                lcs = S32
            lx = b""
            for item in e["lx_layout"]:
                if item[0] == "z64":
                    vals = [v_ for f_, v_ in (("us", usize), ("cs", csize)) if f_ in lsent]
                    if item[1] < 0:
                        vals = vals[:item[1]]
                    elif item[1] > 0:
                        vals = vals + [0x1122334455667788] * item[1]
                    lx += tlv([(1, b"".join(struct.pack("<Q", v_) for v_ in vals))])
                elif item[0] == "aes":
                    body = aes_extra[0][1] if aes_extra else struct.pack("<H2sBH", 2, b"AE", 3, method)
                    lx += tlv([(0x9901, body[:item[1]])])
                else:
                    lx += tlv([item])
            lx += e.get("lx_tail", b"")
            if e.get("lx_cut"):
                lx = lx[:-1]
        lname = e.get("lname", name)
        out += struct.pack("<IHHHHHIIIHH", 0x04034b50, e.get("vneed", 20), flags, real_method, time_, date,
                           lcrc, lcs, lus, len(lname), len(lx)) + lname + lx
        dstart = len(out)
        out += comp
        if dd:
            sig = struct.pack("<I", 0x08074b50) if dd.startswith("sig") else b""
            if dd.endswith("64"):
                out += sig + struct.pack("<IQQ", crc_field, csize, usize)
            else:
                out += sig + struct.pack("<III", crc_field, csize, usize)
        recs.append({"e": e, "off": off, "flags": flags, "method": real_method, "crc": crc_field, "usize": usize,
                     "csize": csize, "dstart": dstart, "aes_extra": aes_extra, "regions": regions, "name": name,
                     "date": date, "time": time_})
    out += desc.get("cd_gap", b"")
    cd_off = len(out) - base
    order = desc.get("order") or list(range(len(ents)))
    chs = {}
    for i in order:
        r = recs[i]
        e = r["e"]
        forced = set(e.get("z64", ()))
        zf = b""
        us32, cs32, off32 = r["usize"], r["csize"], r["off"]
        if "usize" in forced or us32 > S32 - 1:
            zf += struct.pack("<Q", r["usize"])
            us32 = S32
        if "csize" in forced or cs32 > S32 - 1:
            zf += struct.pack("<Q", r["csize"])
            cs32 = S32
        if "off" in forced or off32 > S32 - 1:
            zf += struct.pack("<Q", r["off"])
            off32 = S32
        cextra = (r["aes_extra"] + list(e.get("cextra", []))) if e.get("aes_first") else (list(e.get("cextra", [])) + r["aes_extra"])
        if zf:
            cextra = cextra + [(1, zf)] if e.get("z64_last") else [(1, zf)] + cextra
        cx = tlv(cextra)
        if "cx_layout" in e:
            # the central extra field laid out record by record (spec/ExtraWalk.tla): items ("z64", delta) - one value per field listed
            # in e["sent"] (whose 32-bit fields then hold the marker), delta = -1 / +1 drops the last value / appends a stray one;
            # ("aes", length) - the entry's AE-x record (length 7) or a malformed one; (id, body) - any other record;
            # e["cx_tail"]: bytes of an incomplete header behind the last record; e["cx_cut"]: the field ends one byte early
            sent = e.get("sent", ())
            us32 = S32 if "us" in sent else r["usize"]
            cs32 = S32 if "cs" in sent else r["csize"]
            off32 = S32 if "off" in sent else r["off"]
            cx = b""
            for item in e["cx_layout"]:
                if item[0] == "z64":
                    vals = [v_ for f_, v_ in (("us", r["usize"]), ("cs", r["csize"]), ("off", r["off"])) if f_ in sent]
                    if item[1] < 0:
                        vals = vals[:item[1]]
                    elif item[1] > 0:
                        vals = vals + [0x1122334455667788] * item[1]
                    cx += tlv([(1, b"".join(struct.pack("<Q", v_) for v_ in vals))])
                elif item[0] == "aes":
                    body = r["aes_extra"][0][1] if r["aes_extra"] else struct.pack("<H2sBH", 2, b"AE", 3, e.get("method", 0))
                    cx += tlv([(0x9901, body[:item[1]])])
                else:
                    cx += tlv([item])
            cx += e.get("cx_tail", b"")
            if e.get("cx_cut"):
                cx = cx[:-1]
        fc = e.get("fcomment", b"")
        vm = (e.get("system", 3) << 8) | e.get("vmade", 30)
        chs[i] = len(out)
        out += struct.pack("<IHHHHHHIIIHHHHHII", 0x02014b50, vm, e.get("vneed", 20), r["flags"], r["method"], r["time"],
                           r["date"], r["crc"], cs32, us32, len(r["name"]), len(cx), len(fc), 0, e.get("iattr", 0),
                           e.get("eattr", 0o100644 << 16), off32) + r["name"] + cx + fc
    cd_size = len(out) - base - cd_off
    n = len(order)
    comment = desc.get("comment", b"")
    if desc.get("z64end") or n > S16 - 1 or cd_size > S32 - 1 or cd_off > S32 - 1:
        z64_off = len(out) - base
        out += struct.pack("<IQHHIIQQQQ", 0x06064b50, 44, 45, 45, 0, 0, n, n, cd_size, cd_off)
        out += struct.pack("<IIQI", 0x07064b50, 0, z64_off, 1)
        s = desc.get("z64_sentinels", "all")
        if s == "all+disks":   # every field of the short end record deferred to the ZIP64 records, the disk numbers too (APPNOTE 4.4.1.4)
            out += struct.pack("<IHHHHIIH", 0x06054b50, S16, S16, S16, S16, S32, S32, len(comment)) + comment
        elif s == "disks":     # only the disk numbers deferred
            out += struct.pack("<IHHHHIIH", 0x06054b50, S16, S16, min(n, S16), min(n, S16), min(cd_size, S32), min(cd_off, S32), len(comment)) + comment
        elif s == "all":
            out += struct.pack("<IHHHHIIH", 0x06054b50, 0, 0, S16, S16, S32, S32, len(comment)) + comment
        else:   # only the fields that need it
            out += struct.pack("<IHHHHIIH", 0x06054b50, 0, 0, min(n, S16), min(n, S16), min(cd_size, S32),
                               min(cd_off, S32), len(comment)) + comment
    else:
        out += struct.pack("<IHHHHIIH", 0x06054b50, 0, 0, n, n, cd_size, cd_off, len(comment)) + comment
    out += desc.get("trailing", b"")
    view = {"n": n, "offset": base, "comment": comment, "entries": []}
    for i in order:
        r = recs[i]
        e = r["e"]
        view["entries"].append({"name": r["name"], "utf8": bool(e.get("utf8")), "method": e.get("method", 0),
                                "stored_method": r["method"], "crc": r["crc"], "usize": r["usize"], "csize": r["csize"],
                                "hdr": r["off"] + base, "dstart": r["dstart"], "chs": chs[i], "date": r["date"],
                                "time": r["time"], "system": e.get("system", 3), "eattr": e.get("eattr", 0o100644 << 16),
                                "fcomment": e.get("fcomment", b""), "data": e.get("data", b""),
                                "enc": e.get("enc"), "flags": r["flags"], "regions": r["regions"],
                                "cextra": tlv(list(e.get("cextra", [])))})
    return bytes(out), view


if __name__ == "__main__":
    # self-test against CPython's zipfile (a second independent implementation)
    import io
    import zipfile
    b, v = build({"prefix": b"JUNK" * 5, "comment": b"hi", "entries": [
        {"name": b"a.txt", "method": 8, "data": b"hello world " * 50, "dd": "sig32"},
        {"name": "é.bin".encode(), "utf8": True, "method": 0, "data": b"\x00\x01", "z64": {"usize", "off"}, "lz64": True},
        {"name": b"c", "method": 12, "data": b"bzip " * 99, "enc": ("zc", b"pw")}]})
    zf = zipfile.ZipFile(io.BytesIO(b))
    assert zf.read("a.txt") == b"hello world " * 50 and zf.read("é.bin") == b"\x00\x01"
    assert zf.read("c", pwd=b"pw") == b"bzip " * 99
    # AES block cipher known-answer test (FIPS-197 C.1)
    k = bytes(range(16))
    pt = bytes.fromhex("00112233445566778899aabbccddeeff")
    assert aes_encrypt_block(_expand(k), pt).hex() == "69c4e0d86a7b0430d8cdb78070b4c55a"
    k = bytes(range(32))
    assert aes_encrypt_block(_expand(k), pt).hex() == "8ea2b7ca516745bfeafc49904b496089"
    print("refzip self-test ok")
