"""Shared machinery of the checks: build the harness from /repo's current tree, run TLC (model
checking, simulation, trace validation with segment-wise rejection handling), write evidence,
apply the known-findings file, print VIOLATION lines.  Python stdlib only."""
import hashlib
import json
import os
import re
import shutil
import subprocess
import sys
import time

ROOT = os.path.dirname(os.path.dirname(os.path.abspath(__file__)))
SPEC = os.path.join(ROOT, "spec")
# development aid (seeded-change experiments): VERIF_ALT=<dir> makes a check build <dir>/harness (a copy of
# /verif/harness whose path dependency points at a scratch worktree) and keep work/evidence/replays
# under <dir>, so such experiments never touch /repo, /verif/evidence or a concurrently running check
ALT = os.environ.get("VERIF_ALT")
OUTROOT = ALT or ROOT
HARNESS = os.path.join(OUTROOT, "harness")
BIN = os.path.join(HARNESS, "target", "release", "zipconf")
TLA_CP = "/opt/veriftools/tla/tla2tools.jar:/opt/veriftools/tla/CommunityModules-deps.jar"
NCPU = os.cpu_count() or 4


class ToolTrouble(Exception):
    pass


def log(*a):
    print(*a, file=sys.stderr, flush=True)


def seed():
    try:
        return int(os.environ.get("VERIF_SEED", "1"))
    except ValueError:
        return 1


def workdir(pid, tier):
    d = os.path.join(OUTROOT, "work", "%s-%s" % (pid, tier))
    shutil.rmtree(d, ignore_errors=True)
    os.makedirs(d)
    return d


def build_harness():
    """always rebuild from /repo's current working tree (cargo decides what is stale)"""
    lock_src = "/repo/Cargo.lock"
    lock_dst = os.path.join(HARNESS, "Cargo.lock")
    t0 = time.time()
    env = dict(os.environ, CARGO_NET_OFFLINE="true")
    p = subprocess.run(["cargo", "build", "--release", "--offline"], cwd=HARNESS, env=env,
                       stdout=subprocess.PIPE, stderr=subprocess.STDOUT, text=True)
    if p.returncode != 0 and os.path.exists(lock_src):
        # dependency set of /repo changed: retry with its lock file as the starting point
        shutil.copy(lock_src, lock_dst)
        p = subprocess.run(["cargo", "build", "--release", "--offline"], cwd=HARNESS, env=env,
                           stdout=subprocess.PIPE, stderr=subprocess.STDOUT, text=True)
    if p.returncode != 0:
        log(p.stdout[-4000:])
        raise ToolTrouble("harness does not build against /repo (exit %d)" % p.returncode)
    log("harness built in %.1fs" % (time.time() - t0))
    return BIN


class HarnessCrash(Exception):
    """the harness PROCESS died from a signal while driving the crate (SIGABRT: a panic inside a destructor that runs during unwinding,
    or a failed allocation; SIGSEGV: stack overflow).  The executors catch ordinary panics themselves; what kills the whole process is
    behaviour of the code under test, and 'no panic / no abort' is what the properties demand - so this is an observation, not tool
    trouble.  (On the unchanged tree no executor dies.)"""

    def __init__(self, args, rc, stderr):
        Exception.__init__(self, "harness %s killed by signal %d" % (args[:1], -rc))
        self.hargs, self.rc, self.stderr = args, rc, stderr


def run_harness(args, timeout=3600, stdin=None):
    t0 = time.time()
    p = subprocess.run([BIN] + args, stdout=subprocess.PIPE, stderr=subprocess.PIPE, text=True,
                       timeout=timeout, input=stdin)
    if p.returncode in (-6, -11, -4, -7, 134, 139):
        log(p.stderr[-3000:])
        raise HarnessCrash(args, p.returncode if p.returncode < 0 else -(p.returncode - 128), p.stderr[-3000:])
    if p.returncode not in (0,):
        log(p.stderr[-3000:])
        raise ToolTrouble("harness %s exited %d" % (args[:1], p.returncode))
    log("harness %s: %.1fs %s" % (args[0], time.time() - t0, p.stderr.strip()[-200:]))
    return p.stdout


# ---------------------------------------------------------------- TLC
def _tlc_cmd(module, cfg, workers, metadir, extra):
    return ["java", "-XX:+UseParallelGC", "-Xss1g", "-Djava.io.tmpdir=" + metadir] + extra.get("jvm", []) + \
           ["-cp", TLA_CP, "tlc2.TLC", "-workers", str(workers), "-noGenerateSpecTE", "-metadir",
            os.path.join(metadir, "md"), "-config", cfg] + extra.get("tlc", []) + [module]


def tlc_run(module, cfg, wd, workers=None, env=None, jvm=None, tlc=None, timeout=3600, tag="tlc"):
    """run TLC; returns dict(out, generated, distinct, depth, ok, error)"""
    metadir = os.path.join(wd, "tlc-" + tag)
    shutil.rmtree(metadir, ignore_errors=True)
    os.makedirs(metadir)
    cmd = _tlc_cmd(os.path.join(SPEC, module), os.path.join(SPEC, cfg) if not os.path.isabs(cfg) else cfg,
                   workers or min(NCPU, 12), metadir, {"jvm": jvm or [], "tlc": tlc or []})
    e = dict(os.environ)
    e.pop("JAVA_TOOL_OPTIONS", None)
    if env:
        e.update(env)
    t0 = time.time()
    try:
        p = subprocess.run(cmd, cwd=metadir, env=e, stdout=subprocess.PIPE, stderr=subprocess.STDOUT,
                           text=True, timeout=timeout)
    except subprocess.TimeoutExpired:
        shutil.rmtree(metadir, ignore_errors=True)
        raise ToolTrouble("TLC timeout on %s/%s" % (module, cfg))
    out = p.stdout
    shutil.rmtree(metadir, ignore_errors=True)
    r = {"out": out, "wall": time.time() - t0, "rc": p.returncode}
    m = re.search(r"(\d+) states generated, (\d+) distinct states found", out)
    r["generated"] = int(m.group(1)) if m else 0
    r["distinct"] = int(m.group(2)) if m else 0
    m = re.search(r"depth of the complete state graph search is (\d+)", out)
    r["depth"] = int(m.group(1)) if m else 0
    r["error"] = None
    m = re.search(r"Error: (Invariant \S+ is violated|Action property \S+ is violated|Temporal properties were violated|"
                  r"Postcondition \S+.*is false|Deadlock reached|.*)", out)
    if m and "Error:" in out:
        r["error"] = m.group(1)
    r["ok"] = (r["error"] is None) and ("Model checking completed" in out or "Finished in" in out) and p.returncode == 0
    return r


def tlc_mc_many(jobs, wd, par=4, workers=3, timeout=900):
    """several small exhaustive runs side by side (spec mutants: most of their time is JVM start-up);
    jobs = [(module, cfg, tag)], returns the results in order"""
    from concurrent.futures import ThreadPoolExecutor
    with ThreadPoolExecutor(max_workers=par) as ex:
        futs = [ex.submit(tlc_mc, m, c, wd, workers, timeout, t) for (m, c, t) in jobs]
        return [f.result() for f in futs]


def tlc_mc(module, cfg, wd, workers=None, timeout=3600, tag="mc", coverage=False, tlc=None, env=None):
    """exhaustive model checking; a violated invariant here is a defect of the SPECIFICATION
    (or a spec mutant being detected) -- the caller decides.  Tool crashes raise ToolTrouble."""
    extra = list(tlc or [])
    if coverage:
        extra += ["-coverage", "1"]
    r = tlc_run(module, cfg, wd, workers=workers, timeout=timeout, tag=tag, tlc=extra, env=env)
    if r["error"] is None and not r["ok"]:
        log(r["out"][-3000:])
        raise ToolTrouble("TLC did not complete on %s" % module)
    if r["error"] and not re.search(r"violated|Deadlock", r["error"]):
        log(r["out"][-3000:])
        raise ToolTrouble("TLC error on %s: %s" % (module, r["error"]))
    log("TLC %s/%s: %d generated, %d distinct, depth %d, %.1fs, %s" % (
        module, os.path.basename(cfg), r["generated"], r["distinct"], r["depth"], r["wall"], r["error"] or "no error"))
    return r


def action_coverage(out):
    """per-action counts from a `-coverage 1` run: {action: (distinct, total)}"""
    cov = {}
    for m in re.finditer(r"<(\w+) line \d+, col \d+ to line \d+, col \d+ of module (\w+)>: (\d+):(\d+)", out):
        cov[m.group(1)] = (int(m.group(3)), int(m.group(4)))
    return cov


def tlc_trace(module, cfg, trace_path, wd, tag="tv", timeout=1800):
    """validate one ndjson trace; returns (accepted, states, rejected_index, rejected_event_json)"""
    r = tlc_run(module, cfg, wd, workers=1, env={"TRACE": trace_path},
                jvm=["-Dtlc2.tool.queue.IStateQueue=StateDeque", "-Xmx6g"], timeout=timeout, tag=tag)
    out = r["out"]
    if "REJECTED" in out:
        m = re.search(r'<<"REJECTED", (\d+), "(.*)">>', out)
        idx = int(m.group(1)) if m else -1
        evs = None
        if m:
            try:
                evs = json.loads(json.loads('"' + m.group(2) + '"'))
            except Exception:
                evs = m.group(2)
        return False, r["distinct"], idx, evs, None
    m = re.search(r"Error: Invariant (\S+) is violated", out)
    if m:
        # an invariant of the specification failed on the implementation's trace: report the
        # depth at which it failed (the state count) as the rejected index
        return False, r["distinct"], r["distinct"], None, m.group(1)
    if not r["ok"]:
        log(out[-4000:])
        raise ToolTrouble("TLC failed while validating %s with %s: %s" % (trace_path, module, r["error"]))
    for m in re.finditer(r'<<"STATS", "(\w+)", (\d+)>>', out):
        LAST_STATS[m.group(1)] = LAST_STATS.get(m.group(1), 0) + int(m.group(2))
    return True, r["distinct"], None, None, None


LAST_STATS = {}


def read_ndjson(path):
    out = []
    with open(path) as f:
        for line in f:
            line = line.strip()
            if line:
                out.append(json.loads(line))
    return out


def write_ndjson(path, recs):
    with open(path, "w") as f:
        for r in recs:
            f.write(json.dumps(r, separators=(",", ":")) + "\n")


def validate_segments(module, cfg, trace_path, wd, max_rejections=12, tag="tv"):
    """Validate a segmented trace (segments = maximal runs of events with the same `sc`).
    TLC stops at the first rejected segment; that segment is recorded and removed and the rest is
    validated again, so one rejection never hides later ones.
    returns dict(accepted_segments, rejections=[{sc, index, event, inv, segment}], states)"""
    events = read_ndjson(trace_path)
    order = []
    segs = {}
    for e in events:
        sc = e.get("sc", "?")
        if sc not in segs:
            segs[sc] = []
            order.append(sc)
        segs[sc].append(e)
    rejections = []
    states = 0
    rounds = 0
    cur = trace_path
    live = list(order)
    while True:
        rounds += 1
        flat = [e for sc in live for e in segs[sc]]
        if not flat:
            break
        if rounds > 1:
            cur = os.path.join(wd, "%s-round%d.ndjson" % (tag, rounds))
            write_ndjson(cur, flat)
        ok, st, idx, ev, inv = tlc_trace(module, cfg, cur, wd, tag=tag)
        states += st
        if ok:
            break
        # locate the segment of the rejected event (idx is 1-based position of the unmatched event;
        # for an invariant failure it is the number of states reached = index of the last event + 1)
        pos = (idx - 1) if inv is None else (idx - 2)
        pos = max(0, min(pos, len(flat) - 1))
        sc = flat[pos].get("sc", "?")
        # position inside the segment
        start = next(i for i, e in enumerate(flat) if e.get("sc") == sc)
        rejections.append({"sc": sc, "index_in_segment": pos - start, "event": flat[pos], "inv": inv,
                           "segment": segs[sc]})
        live.remove(sc)
        if len(rejections) >= max_rejections:
            log("stopping after %d rejected segments" % len(rejections))
            break
    return {"segments": len(order), "accepted_segments": len(live) if len(rejections) < max_rejections else None,
            "rejections": rejections, "states": states, "events": len(events), "rounds": rounds}


# ---------------------------------------------------------------- findings / evidence
def known_findings():
    with open(os.path.join(ROOT, "known_findings.json")) as f:
        return json.load(f)


def _shrinking_tail(rejection):
    """D10: the rejected observation follows an append round whose re-emitted directory + end
    records end before the end of the base archive (stale tail incl. the old end record survives)"""
    seg = rejection.get("segment") or []
    k = rejection.get("index_in_segment", 0)
    evn = (seg[k].get("ev") if k < len(seg) else None)
    if evn not in ("Layout", "Open", "Entry", "NewAppend"):
        return False
    base_len = None
    shrunk = False
    for e in seg[:k]:
        if e.get("ev") == "NewAppend" and e.get("r") == "ok":
            base_len = e.get("len")
            shrunk = False
        elif e.get("ev") in ("Finish", "Drop") and base_len is not None:
            if e.get("r") == "ok" and e.get("pos", 0) < base_len and e.get("len", 0) >= base_len:
                shrunk = True
            base_len = None
        elif e.get("ev") == "New":
            base_len = None
    return shrunk


PREDICATES = {"shrinking_tail": _shrinking_tail}


def finding_for(pid, rejection, scenario):
    """a rejection is a known finding iff a listed finding of this property has a predicate that
    holds of the rejected segment (the specific history that fails)"""
    for f in known_findings().get("findings", []):
        if f.get("property") != pid:
            continue
        p = PREDICATES.get(f.get("predicate"))
        if p and p(rejection):
            return f
    return None


def save_replay(pid, name, payload):
    d = os.path.join(OUTROOT, "replays")
    os.makedirs(d, exist_ok=True)
    safe = re.sub(r"[^A-Za-z0-9_.-]", "_", name)[:80]
    p = os.path.join(d, "%s-%s.json" % (pid, safe))
    with open(p, "w") as f:
        json.dump(payload, f, indent=1)
    return p


def digest(obj):
    return hashlib.sha1(json.dumps(obj, sort_keys=True).encode()).hexdigest()


def write_evidence(pid, tier, level, coverage, wall, violations, assumptions=None):
    d = os.path.join(OUTROOT, "evidence")
    os.makedirs(d, exist_ok=True)
    ev = {"property_id": pid, "tier": tier, "seed": seed(), "level": level, "coverage": coverage,
          "assumptions": assumptions or [], "wall_s": round(wall, 2), "violations": violations}
    with open(os.path.join(d, pid + ".json"), "w") as f:
        json.dump(ev, f, indent=1)


class Report:
    """collects what a check did; decides the exit code"""

    CURRENT = None      # the report of the running check (main() flushes its violations if the check crashes afterwards)

    def __init__(self, pid, tier):
        Report.CURRENT = self
        self.pid, self.tier = pid, tier
        self.t0 = time.time()
        self.violations = []   # (replay path, summary)
        self.known = []
        self.states = 0
        self.transitions = 0
        self.traces = 0
        self.evaluations = 0
        self.distinct = set()
        self.samples = []
        self.notes = {}
        self.neg_controls = []
        self.mc = []

    def add_mc(self, r, name):
        self.states += r["distinct"]
        self.transitions += r["generated"]
        self.mc.append({"config": name, "distinct": r["distinct"], "generated": r["generated"], "depth": r["depth"],
                        "wall_s": round(r["wall"], 1), "result": r["error"] or "no error"})

    def spec_violation(self, r, name):
        p = save_replay(self.pid, "model-" + name, {"kind": "model-level violation", "config": name,
                                                   "error": r["error"], "tlc_output_tail": r["out"][-6000:]})
        self.violations.append((p, "specification-level: %s in %s" % (r["error"], name)))

    def add_tv(self, res, scenarios_by_sc, label):
        """res from validate_segments"""
        self.states += res["states"]
        self.transitions += res["states"]
        acc = res["segments"] - len(res["rejections"])
        self.traces += acc
        for rj in res["rejections"]:
            sc = scenarios_by_sc.get(rj["sc"])
            kf = finding_for(self.pid, rj, sc)
            payload = {"kind": "trace rejected by the specification", "check": label, "scenario": sc,
                       "rejected_event": rj["event"], "index_in_segment": rj["index_in_segment"],
                       "violated_invariant": rj["inv"], "trace_segment": rj["segment"]}
            if kf:
                self.known.append(kf)
                continue
            p = save_replay(self.pid, "%s-%s" % (label, rj["sc"]), payload)
            evn = (rj["event"] or {}).get("ev") if isinstance(rj["event"], dict) else "?"
            self.violations.append((p, "scenario %s rejected at event %s (%s)%s" % (
                rj["sc"], rj["index_in_segment"], evn, " invariant " + rj["inv"] if rj["inv"] else "")))

    def finish(self, level, rule, extra_cov=None, assumptions=None):
        wall = time.time() - self.t0
        cov = {"states": max(self.states, 0), "transitions": max(self.transitions, 0),
               "traces_validated_against_impl": self.traces,
               "evaluations": self.evaluations, "distinct_nontrivial": len(self.distinct), "rule": rule,
               "samples": self.samples[:6] or ["(none)"], "model_checking_runs": self.mc,
               "negative_controls": self.neg_controls, "known_findings_seen": [k.get("key") for k in self.known]}
        cov.update(self.notes)
        if extra_cov:
            cov.update(extra_cov)
        write_evidence(self.pid, self.tier, level, cov, wall, len(self.violations), assumptions)
        seen = set()
        for k in self.known:
            if k.get("key") in seen:
                continue
            seen.add(k.get("key"))
            print("KNOWN-FINDING: property=%s %s" % (self.pid, k.get("what")))
        for p, s in self.violations:
            print("VIOLATION property=%s replay=%s" % (self.pid, p))
            log("  " + s)
        log("%s %s: %d violations, %d states, %d traces, %.1fs" % (self.pid, self.tier, len(self.violations),
                                                                 self.states, self.traces, wall))
        return 1 if self.violations else 0


def corrupt_and_expect_reject(module, cfg, events, wd, mutate, tag="neg"):
    """negative control: perturb one logged field of an accepted segment; TLC must reject it"""
    ev2 = json.loads(json.dumps(events))
    what = mutate(ev2)
    if what is None:
        return None
    p = os.path.join(wd, tag + ".ndjson")
    write_ndjson(p, ev2)
    ok, st, idx, ev, inv = tlc_trace(module, cfg, p, wd, tag=tag)
    return {"mutation": what, "rejected": not ok}
