"""Program generators for the writer family (C01, C02, C12, C13, C14, C17): seeded random
programs with concrete large parameters, and the mapping from behaviours of the TLA+ model
(MC_Writer) to concrete call sequences."""
import random

THR16 = 65535
METHODS = [0, 8, 12, 93]
LEVELS = {8: list(range(0, 10)), 12: list(range(1, 10)), 93: list(range(-7, 23))}
BAD_LEVELS = {8: [-1, 10, 99], 12: [0, 10, -3], 93: [23, 100]}


class Gen:
    def __init__(self, seed, tier="quick"):
        self.r = random.Random(seed)
        self.tier = tier
        self.used_names = []

    # ---- names -----------------------------------------------------------
    def name(self, allow_long=False, allow_toolong=False):
        r = self.r
        c = r.random()
        if self.used_names and c < 0.06:
            return r.choice(self.used_names)           # duplicate
        if c < 0.45:
            n = "".join(r.choice("abcdefghijklmnopqrstuvwxyz0123456789_-.") for _ in range(r.randint(1, 12)))
        elif c < 0.55:
            n = "dir%d/sub/f%d.txt" % (r.randint(0, 9), r.randint(0, 99))
        elif c < 0.65:
            n = r.choice(["café.txt", "日本語/ファイル", "\U0001F600.bin", "über/ä", "Ж"])
        elif c < 0.70:
            n = r.choice(["a\u0000b", "\u0000", "x/\u0000/y"])
        elif c < 0.76:
            n = r.choice(["d\\f", "win\\path\\file", "trail\\"])
        elif c < 0.80:
            n = ""
        elif c < 0.86:
            n = r.choice(["d/", "a/b/", "../up", "/abs", "./x", "a//b"])
        elif c < 0.92 or not allow_long:
            n = "n%d" % r.randint(0, 10 ** 6)
        else:
            ln = r.choice([255, 256, 4096, 65534, 65535] + ([65536, 65537, 70000, 131072] if allow_toolong else []))
            unit = r.choice(["a", "é", "ab/"])
            n = {"rep": unit, "n": ln, "prefix": "L%d-" % r.randint(0, 999)}
        if isinstance(n, str):
            self.used_names.append(n)
        return n

    def payload(self, big=False):
        r = self.r
        c = r.random()
        if c < 0.12:
            ln = 0
        elif c < 0.25:
            ln = 1
        elif c < 0.6:
            ln = r.randint(2, 300)
        elif c < 0.85:
            ln = r.randint(300, 70000)
        elif c < 0.97 or not big:
            ln = 65536 + r.randint(-2, 2)
        else:
            ln = r.randint(1 << 20, (8 << 20) if self.tier == "thorough" else (2 << 20))
        return {"len": ln, "seed": r.randint(1, 1 << 30), "kind": r.choice(["zero", "rand", "text", "ramp"])}

    def opts(self, misuse=False, enc_ok=False, methods=None):
        r = self.r
        o = {}
        m = r.choice(methods or METHODS)
        if misuse and r.random() < 0.12:
            m = r.choice([99, 1, 14, 9])
        o["method"] = m
        c = r.random()
        if m in LEVELS and c < 0.45:
            o["level"] = r.choice(LEVELS[m])
        elif m in BAD_LEVELS and misuse and c < 0.6:
            o["level"] = r.choice(BAD_LEVELS[m])
        elif m == 0 and misuse and c < 0.5:
            o["level"] = r.choice([0, 5])
        else:
            o["level"] = None
        o["large"] = r.random() < 0.2
        o["perm"] = None if r.random() < 0.3 else r.randint(0, 0o777)
        o["date"] = r.choice([33, 0, 65535, r.randint(0, 65535), r.randint(0, 65535)])
        o["time"] = r.choice([0, 65535, r.randint(0, 65535), r.randint(0, 65535)])
        if enc_ok and r.random() < 0.12:
            o["enc"] = r.choice(["pw", "", {"hex": "00ff10"}, {"len": 200, "seed": 5, "kind": "rand"}])
        return o

    def comment(self, toolong=False):
        r = self.r
        c = r.random()
        if c < 0.5:
            return "c" * r.randint(0, 40)
        if c < 0.8:
            return r.choice(["café", "日本", "multi\nline"])
        ln = r.choice([255, 65534, 65535] + ([65536, 70000] if toolong else []))
        return {"rep": "k", "n": ln}

    def extra_recs(self, bad=False):
        r = self.r
        recs = []
        for _ in range(r.randint(0, 3)):
            ident = r.choice([0xbeef, 0xcafe, 0x0020 + r.randint(4, 60), r.randint(0x0100, 0xfffe), 0xdead])
            if ident in RESERVED:
                ident = 0xbeef
            recs.append({"id": ident, "dsz": r.choice([0, 1, 5, 28, r.randint(0, 400)])})
        if bad and r.random() < 0.6:
            c = r.random()
            if c < 0.25:
                recs.append({"id": 1, "dsz": r.choice([0, 8, 16])})
            elif c < 0.5:
                recs.append({"id": r.choice(sorted(RESERVED) + list(range(0, 32))), "dsz": r.randint(0, 8)})
            elif c < 0.75:
                recs.append({"id": 0xbeef, "dsz": r.randint(2, 50), "asz": r.randint(0, 1)})
            else:
                recs.append({"id": 0xbeef, "dsz": 0, "hl": r.randint(1, 3)})
        elif r.random() < 0.05:
            recs.append({"id": 0xbeef, "dsz": r.choice([65000, 65510, 65511, 65512, 65531])})
        return recs

    # ---- whole programs ----------------------------------------------------
    def valid_archive(self, sc, nmax=8, enc_ok=True, extra=True, end=None, allow_long=False, big=False, methods=None):
        """a well-behaved program: entries of every kind, then finish (or drop)"""
        r = self.r
        ops = [{"op": "New"}]
        if r.random() < 0.4:
            ops.append({"op": "SetComment", "c": self.comment()})
        for _ in range(r.randint(0, nmax)):
            c = r.random()
            if c < 0.55:
                o = self.opts(enc_ok=enc_ok, methods=methods)
                ops.append(dict(o, op="StartFile", name=self.name(allow_long)))
                for _ in range(r.choice([0, 1, 1, 1, 2, 3])):
                    w = {"op": "Write", "data": self.payload(big)}
                    if r.random() < 0.15:
                        w["vec"] = True                    # through write_vectored
                    if r.random() < 0.2:
                        w["split"] = r.choice([1, 7, 4096])
                        if w["data"]["len"] > 20000 and w["split"] < 100:
                            w["split"] = 4096
                    ops.append(w)
            elif c < 0.68:
                ops.append(dict(self.opts(), op="AddDir", name=self.name(allow_long)))
            elif c < 0.78:
                ops.append(dict(self.opts(), op="AddSymlink", name=self.name(), target=r.choice(["a.txt", "../x", "t/é", ""])))
            elif c < 0.9 and extra:
                o = self.opts(methods=methods, enc_ok=enc_ok)
                ops.append(dict(o, op="StartFileAligned", name=self.name(), align=r.choice([0, 1, 2, 4, 16, 64, 512, 4096, 3, 7, 1000])))
                ops.append({"op": "Write", "data": self.payload()})
            elif extra:
                o = self.opts(methods=methods, enc_ok=enc_ok)
                ops.append(dict(o, op="StartFileExtra", name=self.name()))
                ops.append({"op": "WriteExtra", "recs": self.extra_recs(), "vec": r.random() < 0.3})
                if r.random() < 0.5:
                    ops.append({"op": "EndLocalStartCentral"})
                    ops.append({"op": "WriteExtra", "recs": self.extra_recs(), "vec": r.random() < 0.3})
                if r.random() < 0.8:
                    ops.append({"op": "EndExtra"})
                    ops.append({"op": "Write", "data": self.payload()})
        if r.random() < 0.15:
            ops.append({"op": "SetComment", "c": self.comment()})
        ops.append({"op": end or r.choice(["Finish", "Finish", "Drop"])})
        return {"sc": sc, "ops": ops}

    def any_order(self, sc, depth, src_prelude=True):
        """arbitrary call order over the full alphabet, legal or not (C12)"""
        r = self.r
        ops = []
        if src_prelude:
            ops += SRC_PRELUDE
        ops.append({"op": "New"})
        entries = 0
        for _ in range(depth):
            c = r.random()
            room = entries < 24
            if c < 0.16 and room:
                ops.append(dict(self.opts(misuse=True, enc_ok=True), op="StartFile", name=self.name(True, True)))
                entries += 1
            elif c < 0.36:
                ops.append({"op": "Write", "data": self.payload()})
            elif c < 0.44 and room:
                ops.append(dict(self.opts(misuse=True, enc_ok=True), op="StartFileExtra", name=self.name(True, True)))
                entries += 1
            elif c < 0.54:
                ops.append({"op": "WriteExtra", "recs": self.extra_recs(bad=True)})
            elif c < 0.62:
                ops.append({"op": "EndExtra"})
            elif c < 0.67:
                ops.append({"op": "EndLocalStartCentral"})
            elif c < 0.73 and room:
                ops.append(dict(self.opts(misuse=True, enc_ok=True), op="StartFileAligned", name=self.name(),
                                align=r.choice([0, 1, 2, 8, 64, 4096, 65535, 65533, 32768, r.randint(0, 65535)])))
                entries += 1
            elif c < 0.79 and room:
                ops.append(dict(self.opts(misuse=True, enc_ok=True), op="AddDir", name=self.name(True, True)))
                entries += 1
            elif c < 0.84 and room:
                ops.append(dict(self.opts(misuse=True, enc_ok=True), op="AddSymlink", name=self.name(), target="tgt/é"))
                entries += 1
            elif c < 0.89 and room and src_prelude:
                ops.append({"op": "RawCopy", "arch": 0, "idx": r.randint(0, 3),
                            "rename": None if r.random() < 0.5 else self.name()})
                entries += 1
            elif c < 0.93:
                ops.append({"op": "SetComment", "c": self.comment(toolong=True)})
            elif c < 0.96:
                ops.append({"op": "Flush"})
            elif c < 0.985:
                ops.append({"op": "Finish"})
            else:
                ops.append({"op": "Drop"})
                break
        if ops[-1]["op"] != "Drop":
            ops.append({"op": r.choice(["Finish", "Drop"])})
        return {"sc": sc, "ops": ops}


RESERVED = {1, 7, 8, 9, 10, 12, 13, 14, 15, 20, 21, 22, 23, 24, 25, 32, 33, 34, 35, 101, 102,
            18064, 1992, 9733, 9989, 10245, 13133, 17217, 17491, 18180, 18191, 19270, 19521,
            19785, 20300, 21334, 21589, 21838, 22613, 25461, 25922, 28789, 30062, 30805,
            41246, 41504, 64842, 39169, 39170}

# a small source archive for raw copies: deflated, stored, bzip2 and empty entries
SRC_PRELUDE = [
    {"op": "New"},
    {"op": "StartFile", "name": "src/deflated.txt", "method": 8, "perm": 0o755, "date": 20000, "time": 30000},
    {"op": "Write", "data": {"len": 3000, "seed": 7, "kind": "text"}},
    {"op": "StartFile", "name": "src/stored.bin", "method": 0, "date": 21000, "time": 100},
    {"op": "Write", "data": {"len": 50, "seed": 9, "kind": "rand"}},
    {"op": "StartFile", "name": "src/bz.txt", "method": 12, "perm": 0o600},
    {"op": "Write", "data": {"len": 500, "seed": 3, "kind": "text"}},
    {"op": "StartFile", "name": "src/empty", "method": 93},
    {"op": "Finish"},
]


# ---------------------------------------------------------------- model behaviours -> programs
def model_name(nm):
    i = nm["id"]
    if i == "n1":
        return "a"
    if i == "n2":
        return {"rep": "é", "n": THR16, "suffix": "/"}
    if i == "nL":
        return {"rep": "x", "n": THR16 + 1}
    return i


def model_opts(o):
    lv = o["level"]
    d = {"method": o["method"], "level": None if lv == -1000 else lv, "large": o["large"],
         "perm": None if o["perm"] == -1 else o["perm"], "date": o["dt"][0], "time": o["dt"][1]}
    if o.get("enc"):
        d["enc"] = "pw"
    return d


XTOK = {"x": {"id": 48879, "dsz": 1}, "z": {"id": 1, "dsz": 0}, "r": {"id": 10, "dsz": 0},
        "t": {"id": 48879, "dsz": 3, "asz": 1}, "h": {"id": 48879, "dsz": 0, "hl": 2},
        "b": {"id": 48879, "dsz": THR16 - 14}}


def from_model(sc, hist):
    """hist: list of {"op":..., "a": [...]} printed by TLC (MC_WriterSim / edge walker)"""
    ops = list(SRC_PRELUDE) + [{"op": "New"}]
    for c in hist:
        op, a = c["op"], c["a"]
        if op in ("New", "Any"):
            continue
        if op in ("StartFile", "StartFileExtra"):
            ops.append(dict(model_opts(a[1]), op=op, name=model_name(a[0])))
        elif op == "StartFileAligned":
            ops.append(dict(model_opts(a[1]), op=op, name=model_name(a[0]), align=a[2]))
        elif op == "Write":
            ops.append({"op": "Write", "data": "" if a[0] == 0 else "abc"[:a[0]]})
        elif op == "WriteExtra":
            ops.append({"op": "WriteExtra", "recs": [XTOK[a[0]["h"]]]})
        elif op in ("EndExtra", "EndLocalStartCentral", "Flush", "Finish"):
            ops.append({"op": op})
        elif op == "AddDir":
            ops.append(dict(model_opts(a[1]), op=op, name=model_name(a[0])))
        elif op == "AddSymlink":
            ops.append(dict(model_opts(a[1]), op=op, name=model_name(a[0]), target="t2"))
        elif op == "RawCopy":
            ops.append({"op": "RawCopy", "arch": 0, "idx": 0 if a[1]["rawid"] == "s1" else 1,
                        "rename": model_name(a[0])})
        elif op == "SetComment":
            ln = a[0]["len"]
            ops.append({"op": "SetComment", "c": "" if ln == 0 else {"rep": "k", "n": THR16 if a[0]["id"] == "c" else THR16 + 1}})
        else:
            raise ValueError("unknown model call " + op)
    ops.append({"op": "Finish"})
    return {"sc": sc, "ops": ops}


# ---------------------------------------------------------------- feature-interaction programs (covering arrays)
# One "focus" entry is described by a row over the dimensions below and placed among fixed neighbours; the archive-level
# dimensions choose where it sits, how the archive came to be (fresh, appended to, appended to with a shrinking directory,
# two rounds), how the sink accepts writes and how the writer is completed.  Rows form a greedy t-wise covering array (every
# combination of values of any two dimensions occurs in some row), so rarely combined features meet systematically instead of
# by luck.  Every program is a VALID one: all calls must succeed, the layout must be well-formed, the reopened archive must
# show exactly the entries created (Trace_Writer judges each call).
IDIMS = {
    "kind": ["file", "dir", "symlink", "aligned", "aligned-odd", "extra-local", "extra-central", "extra-both", "extra-open", "rawcopy", "rawcopy-rename", "file-dirname"],
    "method": [0, 8, 12, 93],
    "level": ["none", "min", "max"],
    "large": [False, True],
    "enc": [None, "pw"],
    "name": ["ascii", "utf8", "bslash-tail", "nested", "empty", "nul", "dup", "long"],
    "payload": ["nowrite", "empty", "one", "small", "64k", "split"],
    "perm": [None, 0, 0o777, 0o640],
    "when": ["zero", "ones", "rand"],
    "pos": ["only", "first", "middle", "last"],
    "comment": ["none", "short", "utf8", "max"],
    "life": ["fresh", "append", "append-shrink", "append2", "append-empty"],
    "end": ["Finish", "Drop"],
    "sink": ["plain", "w1", "w100", "wat"],
}


def covering_rows(r, dims=None, strength=2, tries=40):
    import itertools
    dims = dims or IDIMS
    keys = list(dims)
    need = set()
    for ks in itertools.combinations(range(len(keys)), strength):
        for vs in itertools.product(*[range(len(dims[keys[k]])) for k in ks]):
            need.add((ks, vs))
    rows = []
    combos = list(itertools.combinations(range(len(keys)), strength))
    while need:
        best, bestc = None, -1
        # seed each candidate with one still-uncovered combination so that progress is guaranteed
        seedc = r.choice(sorted(need))
        for _ in range(tries):
            cand = [r.randrange(len(dims[k])) for k in keys]
            for k, v in zip(*seedc):
                cand[k] = v
            c = sum(1 for ks in combos if (ks, tuple(cand[k] for k in ks)) in need)
            if c > bestc:
                best, bestc = cand, c
        for ks in combos:
            need.discard((ks, tuple(best[k] for k in ks)))
        rows.append({k: dims[k][best[i]] for i, k in enumerate(keys)})
    return rows


def _iname(r, cls, k):
    if cls == "ascii":
        return "focus-%d.txt" % k
    if cls == "utf8":
        return r.choice(["fokus-é-%d", "焦点/%d", "\U0001F600-%d"]) % k
    if cls == "bslash-tail":
        return "focus%d\\" % k
    if cls == "nested":
        return "a/b/../c/./focus%d" % k
    if cls == "empty":
        return ""
    if cls == "nul":
        return "fo\u0000cus%d" % k
    if cls == "dup":
        return "neighbour-1"
    return {"rep": r.choice(["n", "é", "p/"]), "n": r.choice([4096, 65535, 65534]), "prefix": "L%d-" % k}


def _ipayload(r, cls):
    if cls == "nowrite":
        return []
    if cls == "empty":
        return [{"op": "Write", "data": ""}]
    if cls == "one":
        return [{"op": "Write", "data": "x"}]
    if cls == "small":
        return [{"op": "Write", "data": {"len": r.randint(2, 400), "seed": r.randint(1, 999), "kind": "text"}}]
    if cls == "64k":
        return [{"op": "Write", "data": {"len": 65536 + r.randint(-2, 2), "seed": r.randint(1, 999), "kind": r.choice(["rand", "zero", "text"])}}]
    return [{"op": "Write", "data": {"len": 5000, "seed": r.randint(1, 999), "kind": "text"}, "split": r.choice([1, 7, 4096]), "vec": r.random() < 0.5},
            {"op": "Write", "data": {"len": 300, "seed": r.randint(1, 999), "kind": "rand"}}]


def interaction_program(r, sc, row, k=0):
    lv = None
    m = row["method"]
    if m in LEVELS and row["level"] != "none":
        lv = LEVELS[m][0] if row["level"] == "min" else LEVELS[m][-1]
    when = {"zero": (0, 0), "ones": (65535, 65535), "rand": (r.randint(0, 65535), r.randint(0, 65535))}[row["when"]]
    o = {"method": m, "level": lv, "large": row["large"], "perm": row["perm"], "date": when[0], "time": when[1]}
    kind = row["kind"]
    if row["enc"] and kind in ("file", "dir", "symlink", "file-dirname", "aligned", "aligned-odd", "extra-local", "extra-central", "extra-both", "extra-open"):
        o["enc"] = row["enc"]             # (the encryption option on every call that takes options)
    nm = _iname(r, row["name"], k)
    pay = _ipayload(r, row["payload"])
    xr = [{"id": 0xbeef, "dsz": r.choice([0, 5, 300])}, {"id": 0xcafe, "dsz": 0}]      # (the last record has an empty body)
    if kind == "file":
        focus = [dict(o, op="StartFile", name=nm)] + pay
    elif kind == "file-dirname":      # a FILE whose name ends in a separator (is_dir() says directory; it still carries data)
        nm2 = (nm if isinstance(nm, str) else "longdir%d" % k) + "/"
        focus = [dict(o, op="StartFile", name=nm2)] + pay
    elif kind == "dir":
        focus = [dict(o, op="AddDir", name=nm)]
    elif kind == "symlink":
        focus = [dict(o, op="AddSymlink", name=nm, target=r.choice(["neighbour-1", "../é", ""]))]
    elif kind in ("aligned", "aligned-odd"):
        al = r.choice([2, 64, 4096, 32768]) if kind == "aligned" else r.choice([0, 1, 3, 1000, 65535])
        focus = [dict(o, op="StartFileAligned", name=nm, align=al)] + pay
    elif kind.startswith("extra"):
        focus = [dict(o, op="StartFileExtra", name=nm)]
        if kind in ("extra-local", "extra-both", "extra-open"):
            focus.append({"op": "WriteExtra", "recs": xr, "vec": k % 2 == 0})
        if kind in ("extra-central", "extra-both"):
            focus += [{"op": "EndLocalStartCentral"}, {"op": "WriteExtra", "recs": [{"id": 0xdead, "dsz": 9}, {"id": 0xd00d, "dsz": 0}]}]
        if kind != "extra-open":          # extra-open: the phase is closed implicitly by the next call
            focus.append({"op": "EndExtra"})
            focus += pay
    else:
        focus = [{"op": "RawCopy", "arch": 0, "idx": r.randint(0, 3), "rename": None if kind == "rawcopy" else nm,
                  "src_under": r.choice([{}, {"max": 7}])}]
    n1 = [{"op": "StartFile", "name": "neighbour-1", "method": 8, "large": r.random() < 0.3}, {"op": "Write", "data": {"len": 700, "seed": 11 + k, "kind": "text"}}]
    n2 = [{"op": "StartFile", "name": "neighbour-2", "method": 0}, {"op": "Write", "data": "second neighbour"}]
    body = {"only": focus, "first": focus + n1, "middle": n1 + focus + n2, "last": n1 + n2 + focus}[row["pos"]]
    sinkopt = {"plain": {}, "w1": {"short_w_max": 1}, "w100": {"short_w_max": 100}, "wat": {"short_w_at": r.randint(0, 1500)}}[row["sink"]]
    cm = {"none": None, "short": "interaction", "utf8": "commentaire é", "max": {"rep": "k", "n": THR16}}[row["comment"]]
    setc = [{"op": "SetComment", "c": cm}] if cm is not None else []
    ops = list(SRC_PRELUDE)
    life = row["life"]
    if life == "fresh":
        ops += [dict({"op": "New"}, **sinkopt)] + setc + body
    else:
        # the base: its LAST entry has local extra data its central record lacks (large_file record / alignment padding)
        base = [{"op": "New"}, {"op": "StartFile", "name": "base/deflated", "method": 8}, {"op": "Write", "data": {"len": 900, "seed": 5, "kind": "text"}},
                {"op": "AddDir", "name": "base/dir", "method": 0}]
        base += r.choice([[{"op": "StartFile", "name": "base/large-last", "method": 0, "large": True}, {"op": "Write", "data": "the last old entry"}],
                          [{"op": "StartFileAligned", "name": "base/aligned-last", "method": 0, "align": 512}, {"op": "Write", "data": "the last old entry"}],
                          [{"op": "StartFile", "name": "base/plain-last", "method": 12}, {"op": "Write", "data": "the last old entry"}]])
        if life == "append-empty":
            base = [{"op": "New"}]
        base += [{"op": "SetComment", "c": {"rep": "old comment ", "n": 3000} if life == "append-shrink" else "old"}, {"op": "Finish"}]
        ops += base
        arch = 1
        if life == "append2":
            ops += [{"op": "NewAppend", "arch": 1}] + n2 + [{"op": "Finish"}]
            arch = 2
            body = [x for x in body if x not in n2] if row["pos"] in ("middle", "last") else body
        if life == "append-shrink" and cm is None:
            setc = [{"op": "SetComment", "c": ""}]
        ops += [dict({"op": "NewAppend", "arch": arch}, **sinkopt)] + setc + body
    ops.append({"op": row["end"]})
    return {"sc": sc, "ops": ops, "row": {k2: (v if not isinstance(v, dict) else "rep") for k2, v in row.items()}}


def interaction_programs(seed, prefix="ix", only=None, strength=2):
    r = random.Random(seed)
    rows = covering_rows(r, strength=strength)
    out = []
    for k, row in enumerate(rows):
        if only and not only(row):
            continue
        out.append(interaction_program(r, "%s%04d" % (prefix, k), row, k))
    return out
