"""Foreign-archive generators for the reader family (C03, C15, C16, C19): a Python rendering of
ZipFormat's Producer (every layout freedom APPNOTE gives a producer), and the mapping from the
tail cases TLC enumerates in MC_Open to concrete archives."""
import random
import zlib
import refzip

REAL = {0: 0, 1: 1}


def scale16(x, thr):
    """model value -> real value with the same position relative to the 16-bit limit"""
    if x in (0, 1):
        return x
    return 65535 + (x - thr)


def expect_of(view):
    return [{"len": len(e["data"]), "crc": "%08x" % (zlib.crc32(e["data"]) & 0xFFFFFFFF)} for e in view["entries"]]


def rand_bytes(r, n, avoid_pk=True):
    b = bytearray(r.randrange(256) for _ in range(n))
    for i in range(1, n):
        if b[i - 1] == 0x50 and b[i] == 0x4B:
            b[i] = 0x6B
    return bytes(b)


def payload(r):
    c = r.random()
    if c < 0.15:
        return b""
    if c < 0.5:
        return rand_bytes(r, r.randint(1, 200))
    if c < 0.9:
        return (b"text %d " % r.randint(0, 9)) * r.randint(1, 400)
    return rand_bytes(r, r.randint(1000, 70000))


def rand_entry(r, k, names):
    e = {}
    c = r.random()
    if names and c < 0.12:
        nm, utf8 = r.choice(names)                                   # duplicate name
    elif c < 0.5:
        nm, utf8 = ("f%d/%s.txt" % (k, "".join(r.choice("abcxyz") for _ in range(r.randint(1, 8))))).encode(), False
    elif c < 0.65:
        nm, utf8 = r.choice(["é%d.txt" % k, "日本/%d" % k, "dir %d/ü/" % k]).encode(), True
    elif c < 0.70:
        nm, utf8 = bytes([r.choice([0x82, 0xe1, 0x9b, 0xff, 0x80, 0xb0])] * r.randint(1, 3)) + b"%d" % k, False   # CP437 high bytes
    elif c < 0.75:
        # CP437 bytes that happen to be well-formed UTF-8: without the flag they are still CP437 (2-, 3- and 4-byte sequences)
        nm, utf8 = r.choice(["é", "ß", "日本", "€", "\U0001F600", "ñandú"]).encode() + b"-%d" % k, False
    elif c < 0.8:
        nm, utf8 = b"flagged-ascii-%d" % k, True                      # a foreign producer may flag an ASCII name
    elif c < 0.85:
        nm, utf8 = b"d%d/" % k, False
    elif c < 0.9:
        nm, utf8 = b"bs%d\\" % k, False
    else:
        nm, utf8 = b"\xff\xfe-bad-utf8-%d" % k, True                  # invalid UTF-8 under the flag: lossy decoding
    names.append((nm, utf8))
    e["name"], e["utf8"] = nm, utf8
    e["method"] = r.choice([0, 8, 8, 12, 0, 8, 14, 93, 93])
    e["data"] = b"" if nm.endswith(b"/") else payload(r)
    if e["method"] == 93:
        # a zstd payload is a sequence of frames: other producers (pzstd, streaming encoders that flush into new frames) emit
        # several, possibly with skippable frames in between; resolve_zstd() turns this into e["raw"]
        e["zframes"] = r.choice([1, 1, 2, 3])
        e["zskip"] = r.random() < 0.3
    e["level"] = r.randint(1, 9)
    e["dd"] = r.choice([None, None, None, "sig32", "nosig32", "sig64", "nosig64"])
    e["z64"] = set(x for x in ("usize", "csize", "off") if r.random() < 0.25)
    e["lz64"] = r.random() < 0.25 or e["dd"] in ("sig64", "nosig64")
    e["z64_last"] = r.random() < 0.5
    if r.random() < 0.4:
        e["lextra"] = [(r.choice([0x5455, 0x7875, 0xcafe, 0x000a]), rand_bytes(r, r.randint(0, 40))) for _ in range(r.randint(1, 2))]
    if r.random() < 0.4:
        e["cextra"] = [(r.choice([0x5455, 0x7875, 0xbeef, 0x000a]), rand_bytes(r, r.randint(0, 40))) for _ in range(r.randint(1, 2))]
    if r.random() < 0.2:
        # well-formed informational records of other producers: extended timestamp (its times need not agree with the DOS words),
        # Unicode Path / Comment (checksum of the header name matching or stale), NTFS times.  None of them changes what the
        # header fields say.
        import zlib
        ut = b"\x03" + r.randrange(0, 2 ** 31).to_bytes(4, "little") * 2
        up = b"\x01" + ((zlib.crc32(nm) if r.random() < 0.5 else r.randrange(2 ** 32)) & 0xFFFFFFFF).to_bytes(4, "little") + ("autre-nom-%d" % k).encode()
        ntfs = bytes(4) + (1).to_bytes(2, "little") + (24).to_bytes(2, "little") + r.randrange(2 ** 60).to_bytes(8, "little") * 3
        recs = [(0x5455, ut), (0x7075, up), (0x000a, ntfs)]
        r.shuffle(recs)
        e["cextra"] = e.get("cextra", []) + [(i_, (b_[:5] if i_ == 0x5455 else b_)) for i_, b_ in recs[:r.randint(1, 3)]]
        e["lextra"] = e.get("lextra", []) + recs[:r.randint(1, 3)]
    if r.random() < 0.3:
        e["fcomment"] = r.choice([b"file comment", "commentaire é".encode() if utf8 else b"c\x82mment", b"x" * 300,
                                  "commentaire é (no flag: CP437)".encode()])
    sysid = r.choice([3, 3, 3, 0, 0, 7, 10])
    e["system"] = sysid
    if sysid == 3:
        e["eattr"] = (r.choice([0o100644, 0o100755, 0o40755, 0o120777, 0o100000, 0, 0o644, r.randint(0, 0xFFFF)]) << 16) | r.choice([0, 0x10, 0x20, 1])
    elif sysid == 0:
        e["eattr"] = r.choice([0, 0x20, 0x10, 0x01, 0x11, 0x21, 0x30])
    else:
        e["eattr"] = r.choice([0, 0x81a40000, 0x20])
    e["date"] = r.choice([33, 0, 0xFFFF, r.randint(0, 0xFFFF)])
    e["time"] = r.choice([0, 0xFFFF, r.randint(0, 0xFFFF)])
    e["vmade"] = r.choice([20, 30, 45, 63])
    return e


def rand_archive(r, nmax=6):
    names = []
    n = r.randint(0, nmax)
    ents = [rand_entry(r, k, names) for k in range(n)]
    d = {"entries": ents}
    if r.random() < 0.4:
        d["prefix"] = rand_bytes(r, r.choice([1, 13, 1000, 65536]))
    if r.random() < 0.5:
        d["comment"] = r.choice([b"archive comment", b"", rand_bytes(r, 50), b"k" * 65535 if r.random() < 0.1 else b"kk"])
    if r.random() < 0.3 and n > 1:
        o = list(range(n))
        r.shuffle(o)
        d["order"] = o
    if r.random() < 0.3:
        d["gaps"] = [rand_bytes(r, r.choice([0, 0, 3, 50])) for _ in range(n)]
    if r.random() < 0.2:
        d["cd_gap"] = rand_bytes(r, r.randint(1, 30))
    if r.random() < 0.3:
        d["z64end"] = True
        d["z64_sentinels"] = r.choice(["all", "needed", "all+disks", "disks"])
    elif r.random() < 0.3:
        room = 65535 - len(d.get("comment", b""))
        g = r.choice([1, 100, room]) if room >= 1 else 0
        d["trailing"] = rand_bytes(r, min(g, room))
    return d


def scenario(sc, desc, pwq=None, pws=None):
    b, v = refzip.build(desc)
    s = {"sc": sc, "hex": b.hex(), "expect": expect_of(v)}
    if pwq:
        s["pwq"] = pwq
    if pws:
        s["pws"] = [p.hex() for p in pws]
    return s, v


def from_tail_case(sc, T, thr16, thrn, r):
    """an abstract tail of MC_Open as a concrete archive (sizes relative to the 32-bit limit cannot
    be realised here: those cases stay model-level and are exercised through sparse I/O under C08)"""
    n = T["n"]
    if n >= thrn:
        n = 65535 + (n - thrn)
    ents = [{"name": b"e%d" % k, "method": 0 if n > 100 else r.choice([0, 8]), "data": b"" if n > 100 else b"tail case %d" % k}
            for k in range(n)]
    d = {"entries": ents, "prefix": rand_bytes(r, {0: 0, 1: 1}.get(T["p"], 70000)),
         "comment": b"c" * scale16(T["c"], thr16), "trailing": rand_bytes(r, scale16(T["g"], thr16))}
    if T["z"]:
        d["z64end"] = True
        d["z64_sentinels"] = {(True, True): "all+disks", (True, False): "all", (False, True): "disks", (False, False): "needed"}[(T["sent"], T.get("dsent", False))]
    return scenario(sc, d)[0]


def from_producer_case(sc, A):
    """an archive TLC enumerated in MC_Producer (Producer.tla), as a concrete archive: the structure choices are kept
    exactly (forced ZIP64 subset, record positions, local ZIP64 record, differing local extra, data-descriptor style,
    prefix, gap, directory order, duplicate names); sizes are only classes there, so payloads are chosen here"""
    ents = []
    for k, c in enumerate(A["ents"]):
        if c["us"] == 0:
            method, data = 0, b""
        elif c["cs"] == c["us"]:
            method, data = 0, b"stored payload %d" % k
        else:
            method, data = 8, b"compressible payload %d " % k * 40
        f = c["forced"]
        ents.append({"name": b"n" if A["dup"] else b"n%d" % (k + 1), "method": method, "data": data,
                     "dd": None if c["dd"] == "none" else c["dd"],
                     "z64": set(n for m, n in (("us", "usize"), ("cs", "csize"), ("off", "off")) if f[m]),
                     "z64_last": c["zlast"], "lz64": c["lz64"], "lz64_last": c["lzl"],
                     "cextra": [(0xcafe, b"ccc")] * c["nother"], "lextra": [(0xcafe, b"lll")] * c["lother"]})
        if c.get("aes", "none") != "none":      # AE-2, 256 bit; the AE-x record before / after the entry's other records
            ents[-1]["enc"] = ("aes", 1 + (k + len(A["ents"]) + c["nother"]) % 2, 1 + (c["nother"] + 2 * c["lother"]) % 3, b"producer pw")
            ents[-1]["aes_first"] = c["aes"] == "before"
    d = {"entries": ents, "prefix": b"\x07" * A["prefix"], "gaps": [b"\x01" * g for g in A["gaps"]],
         "order": [i - 1 for i in A["order"]]}
    pwq = [{"i": j, "kind": "right", "pw": b"producer pw".hex()} for j, i in enumerate(d["order"]) if "enc" in ents[i]]
    return scenario(sc, d, pwq=pwq or None)[0]


def resolve_zstd(descs, harness_bin):
    """entries with method 93 get their compressed bytes ("raw") from the harness's zstd helper (the zstd crate as a trusted
    codec; CPython has none): the payload is cut into e["zframes"] pieces, each compressed as its own frame"""
    import json
    import subprocess
    todo = [e for d in descs for e in d["entries"] if e.get("method") == 93 and "raw" not in e and "enc" not in e]
    if not todo:
        return
    lines = []
    for e in todo:
        data, n = e.get("data", b""), max(1, e.get("zframes", 1))
        step = max(1, (len(data) + n - 1) // n)
        chunks = [data[i:i + step] for i in range(0, len(data), step)] or [b""]
        lines.append(json.dumps({"chunks": [c.hex() for c in chunks], "level": e.get("level", 3), "skippable": bool(e.get("zskip"))}))
    p = subprocess.run([harness_bin, "zstdc"], input="\n".join(lines) + "\n", stdout=subprocess.PIPE, text=True, check=True)
    outs = p.stdout.split()
    assert len(outs) == len(todo)
    for e, h in zip(todo, outs):
        e["raw"] = bytes.fromhex(h)
