#!/usr/bin/env python3
"""bin/check <ID> quick|thorough [--replay <path>]   and   --setup
exit 0: property held on everything explored (KNOWN-FINDING lines allowed)
exit 1: VIOLATION property=<id> replay=<path>
exit 2: tool trouble (build failure, TLC crash/timeout, negative control that did not fire)"""
import json
import shutil
import os
import re
import subprocess
import sys
import time

sys.path.insert(0, os.path.dirname(os.path.abspath(__file__)))
import vlib
from vlib import Report, ToolTrouble, log
import gen_writer
import gen_reader
import random


# ------------------------------------------------------------------ helpers
def sim_behaviours(wd, module, cfg, n, depth, seed, tag="sim"):
    """distinct behaviours of a *Sim module printed as BEHAVIOUR lines by `tlc -simulate`"""
    r = vlib.tlc_run(module, cfg, wd, workers=1, tlc=["-simulate", "num=%d" % max(n, 1), "-depth", str(depth),
                                                      "-seed", str(seed)], timeout=900, tag=tag)
    out = []
    seen = set()
    for m in re.finditer(r'<<"BEHAVIOUR", "(.*)">>', r["out"]):
        s = m.group(1)
        if s in seen:
            continue
        seen.add(s)
        out.append(json.loads(json.loads('"' + s + '"')))
        if len(out) >= n:
            break
    if r["error"] and "violated" in r["error"]:
        raise ToolTrouble("simulation found a spec violation: " + r["error"])
    if not out:
        log(r["out"][-2000:])
        raise ToolTrouble("no behaviours produced by simulation of " + module)
    return out


def cover_behaviours(wd, cfg, timeout=7200):
    """MC_WriterCover: one call sequence per (class of source state, call, result) transition of the writer model"""
    r = vlib.tlc_run("MC_WriterCover.tla", cfg, wd, workers=1, timeout=timeout, tag="cover")
    if r["error"] or not r["ok"]:
        log(r["out"][-2000:])
        raise ToolTrouble("MC_WriterCover did not complete: %s" % r["error"])
    out = []
    for m in re.finditer(r'<<"COVER", "(.*)">>', r["out"]):
        out.append(json.loads(json.loads('"' + m.group(1) + '"')))
    if not out:
        raise ToolTrouble("MC_WriterCover printed no transitions")
    return out, r


def add_referees(trace, rep):
    """run the external parsers on every dumped archive and insert their verdicts after the Layout event"""
    import referee
    evs = vlib.read_ndjson(trace)
    out = []
    pending = None
    stats = rep.notes.setdefault("referee_verdicts", {})
    for e in evs:
        if e.get("ev") == "Dumped":
            pending = e
            out.append(e)
            continue
        out.append(e)
        if e.get("ev") == "Layout" and pending is not None:
            L = e["L"]
            for who, verdict in (("cpython", referee.cpython(pending["path"], L, pending.get("pws", []))),
                                 ("unzip", referee.unzip_t(pending["path"], L))):
                out.append({"ev": "Referee", "sc": e["sc"], "who": who, "verdict": verdict})
                k = who + ":" + verdict.split(":")[0]
                stats[k] = stats.get(k, 0) + 1
            try:
                os.unlink(pending["path"])
            except OSError:
                pass
            pending = None
    vlib.write_ndjson(trace, out)


def run_writer_programs(rep, wd, scenarios, label, neg_control=True, referees=False):
    """execute scenarios on the real writer, validate the trace against Trace_Writer"""
    progs = os.path.join(wd, label + "-programs.ndjson")
    trace = os.path.join(wd, label + "-trace.ndjson")
    if referees:
        dump = os.path.join(wd, "dump")
        os.makedirs(dump, exist_ok=True)
        for s in scenarios:
            s["dump"] = dump
    # (a third of the programs hand their extra data to the writer through write_vectored instead of write)
    for k_, s_ in enumerate(scenarios):
        if k_ % 3 == 1:
            for o_ in s_["ops"]:
                if o_.get("op") == "WriteExtra" and "vec" not in o_:
                    o_["vec"] = True
    vlib.write_ndjson(progs, scenarios)
    vlib.run_harness(["wexec", progs, trace])
    if referees:
        add_referees(trace, rep)
    res = vlib.validate_segments("Trace_Writer.tla", "Trace_Writer.cfg", trace, wd, tag=label)
    by_sc = {s["sc"]: s for s in scenarios}
    rep.add_tv(res, by_sc, label)
    rep.evaluations += len(scenarios)
    for s in scenarios:
        rep.distinct.add(vlib.digest(s["ops"]))
    if scenarios and not rep.samples:
        rep.samples.append({"scenario": scenarios[0]["sc"], "ops": scenarios[0]["ops"][:12]})
    rejected = {r["sc"] for r in res["rejections"]}
    counts = rep.notes.setdefault("events_by_call", {})
    for e in vlib.read_ndjson(trace):
        counts[e.get("ev", "?")] = counts.get(e.get("ev", "?"), 0) + 1
    if neg_control:
        # binding demonstration: perturb one observed field of an accepted segment
        events = vlib.read_ndjson(trace)
        for s in scenarios:
            if s["sc"] in rejected:
                continue
            seg = [e for e in events if e.get("sc") == s["sc"]]
            ent = [i for i, e in enumerate(seg) if e.get("ev") == "Entry" and e.get("r") == "ok" and e.get("usize", 0) > 0]
            if not ent:
                continue

            def mutate(evs, k=ent[0]):
                evs[k]["crc"] = "%08x" % (int(evs[k]["crc"], 16) ^ 1)
                return "Entry[%d].crc flipped in accepted scenario %s" % (k, s["sc"])

            nc = vlib.corrupt_and_expect_reject("Trace_Writer.tla", "Trace_Writer.cfg", seg, wd, mutate, tag=label + "-neg")
            if nc:
                rep.neg_controls.append(nc)
                if not nc["rejected"]:
                    raise ToolTrouble("negative control did not fire: " + nc["mutation"])
            break
    return res


def mc_writer(rep, wd, tier):
    cfg = "MC_Writer.cfg" if tier == "thorough" else "MC_Writer_small.cfg"
    # (TLC's -coverage is not used: it slows this model down by two orders of magnitude; the
    #  per-call counts in the evidence are measured on the executed traces instead)
    r = vlib.tlc_mc("MC_Writer.tla", cfg, wd, timeout=(1500 if tier == "thorough" else 300))
    rep.add_mc(r, cfg)
    if r["error"]:
        rep.spec_violation(r, cfg)
    return r



BAD_EXTRA = {"zip64id": [{"id": 1, "dsz": 8}], "aesid": [{"id": 0x9901, "dsz": 7}], "low": [{"id": 10, "dsz": 4}], "mapped": [{"id": 0x5455, "dsz": 5}],
             "short_body": [{"id": 0xbeef, "dsz": 9, "asz": 2}], "short_body_by_little": [{"id": 0xcafe, "dsz": 8, "asz": 4}], "short_body_by_one": [{"id": 0xcafe, "dsz": 3, "asz": 2}], "short_header": [{"id": 0xbeef, "dsz": 0, "hl": 3}], "zero_id": [{"id": 0, "dsz": 0}]}


def extra_phase_programs(g, tier):
    """every (local part, central part) x (valid | each kind of invalid record list) x how the extra phase ends
    (explicitly, by the next entry, by finish, by drop), for compressing and stored methods, followed by a second entry"""
    scs = []
    good = [{"id": 0xbeef, "dsz": 6}, {"id": 0xcafe, "dsz": 0}]
    kinds = [None] + sorted(BAD_EXTRA)
    k = 0
    for mode in ("shared", "local", "central", "both"):
        for lb in (kinds if mode in ("shared", "local", "both") else [None]):
            for cb in (kinds if mode in ("central", "both") else [None]):
                if lb and cb:
                    continue
                for end in ("explicit", "next", "finish", "drop"):
                    k += 1
                    if tier == "quick" and (k + g.r.randint(0, 1)) % 2:
                        continue
                    m = [0, 8, 12, 93][k % 4]
                    ops = [{"op": "New"}, {"op": "StartFileExtra", "name": "x%d" % k, "method": m, "large": k % 5 == 0}]
                    lrecs = (BAD_EXTRA[lb] if lb else good) if mode != "central" else None
                    crecs = (BAD_EXTRA[cb] if cb else good[:1]) if mode in ("central", "both") else None
                    if lrecs is not None:
                        ops.append({"op": "WriteExtra", "recs": ([good[0]] if (k % 3 == 0 or (lb or "").startswith("short_body_by")) else []) + lrecs})
                    if mode in ("local", "central", "both"):
                        ops.append({"op": "EndLocalStartCentral"})
                    if crecs is not None:
                        ops.append({"op": "WriteExtra", "recs": ([good[0]] if (cb or "").startswith("short_body_by") else []) + crecs})
                    if end == "explicit":
                        ops.append({"op": "EndExtra"})
                    ops.append({"op": "Write", "data": {"len": 300, "seed": k, "kind": "text"}})
                    if end in ("explicit", "next"):
                        ops += [{"op": "StartFileExtra", "name": "y%d" % k, "method": 8}, {"op": "WriteExtra", "recs": good}, {"op": "EndExtra"},
                                {"op": "Write", "data": {"len": 200, "seed": k + 1, "kind": "text"}}]
                    ops.append({"op": "Drop" if end == "drop" else "Finish"})
                    scs.append({"sc": "xp%04d-%s-%s-%s-%s" % (k, mode, lb or "ok", cb or "ok", end), "ops": ops})
    return scs


def misuse_programs(g):
    """each documented misuse in each writer state it can occur in, then the program goes on (later calls, finish)"""
    pre = {"fresh": [], "after_file": [{"op": "StartFile", "name": "f", "method": 8}, {"op": "Write", "data": "abc"}],
           "after_dir": [{"op": "AddDir", "name": "d", "method": 0}], "after_symlink": [{"op": "AddSymlink", "name": "l", "target": "t", "method": 0}],
           "after_raw": list(gen_writer.SRC_PRELUDE) + [{"op": "New"}, {"op": "RawCopy", "arch": 0, "idx": 0, "rename": None}],
           "in_extra": [{"op": "StartFileExtra", "name": "x", "method": 0}], "in_central": [{"op": "StartFileExtra", "name": "x", "method": 8}, {"op": "EndLocalStartCentral"}],
           "finished": [{"op": "StartFile", "name": "f", "method": 0}, {"op": "Write", "data": "abc"}, {"op": "Finish"}],
           "poisoned": [{"op": "StartFile", "name": "p", "method": 8, "level": 77}],
           # a finish() refused for an over-long comment, then the comment is repaired: the open entry / raw copy must be intact
           "refused_finish": [{"op": "StartFile", "name": "rf", "method": 8}, {"op": "Write", "data": "before "}, {"op": "SetComment", "c": {"rep": "c", "n": 65536}},
                              {"op": "Finish"}, {"op": "SetComment", "c": "ok"}],
           "refused_finish_raw": list(gen_writer.SRC_PRELUDE) + [{"op": "New"}, {"op": "RawCopy", "arch": 0, "idx": 0, "rename": None}, {"op": "SetComment", "c": {"rep": "c", "n": 70000}},
                                                               {"op": "Finish"}, {"op": "SetComment", "c": "ok"}]}
    calls = {"write": [{"op": "Write", "data": "misplaced"}], "end_extra": [{"op": "EndExtra"}], "end_local": [{"op": "EndLocalStartCentral"}],
             "bad_method": [{"op": "StartFile", "name": "m", "method": 99}], "bad_level": [{"op": "StartFile", "name": "lv", "method": 12, "level": 0}],
             "bad_level_zstd": [{"op": "StartFile", "name": "lz", "method": 93, "level": 23}], "flush": [{"op": "Flush"}], "comment": [{"op": "SetComment", "c": "late"}],
             "raw": [{"op": "RawCopy", "arch": 0, "idx": 1, "rename": "again"}], "dir": [{"op": "AddDir", "name": "dd", "method": 0}]}
    scs = []
    for pn, p in pre.items():
        for cn, c in calls.items():
            head = p if pn in ("after_raw", "refused_finish_raw") else list(gen_writer.SRC_PRELUDE) + [{"op": "New"}] + p
            for tail in ("finish", "more"):
                ops = head + c + ([{"op": "StartFile", "name": "next", "method": 8}, {"op": "Write", "data": "next data"}] if tail == "more" else []) + [{"op": "Finish"}]
                scs.append({"sc": "mu-%s-%s-%s" % (pn, cn, tail), "ops": ops})
    return scs

# ------------------------------------------------------------------ checks
def c12(tier):
    rep = Report("C12", tier)
    wd = vlib.workdir("C12", tier)
    vlib.build_harness()
    if not os.environ.get("VERIF_DEV_SKIP_MC"):
        mc_writer(rep, wd, tier)
    sd = vlib.seed()
    n_sim, n_rand, depth = (300, 400, 30) if tier == "quick" else (3000, 2500, 200)
    # spec -> impl: behaviours of the model replayed as call sequences
    beh = sim_behaviours(wd, "MC_WriterSim.tla", "MC_WriterSim.cfg", n_sim, 14, sd)
    scs = [gen_writer.from_model("m%05d" % i, h) for i, h in enumerate(beh)]
    rep.samples.append({"model_behaviour": [c["op"] for c in beh[0]]})
    run_writer_programs(rep, wd, scs, "model")
    # transition coverage: one call sequence for every (state class, call, result) transition of the model's complete state graph
    # (the MaxFiles = 2 graph - 6.4 M states, one worker because the class register is per worker, about 50 minutes - only on request:
    #  VERIF_DEEP=1; the thorough tier replays ALL classes of the MaxFiles = 1 graph, the quick tier a sample of them)
    cov, r = cover_behaviours(wd, "MC_WriterCover.cfg" if (tier == "thorough" and os.environ.get("VERIF_DEEP")) else "MC_WriterCover_small.cfg")
    rep.add_mc(r, "MC_WriterCover")
    rep.notes["transition_classes_model"] = len(cov)
    if tier == "quick":
        cov = random.Random(sd * 31 + 5).sample(cov, min(len(cov), 900))
    rep.notes["transition_classes_replayed"] = len(cov)
    scs = [gen_writer.from_model("t%05d" % i, h) for i, h in enumerate(cov)]
    run_writer_programs(rep, wd, scs, "cover", neg_control=False)
    # impl -> spec: random programs, any call order, concrete large parameters
    g = gen_writer.Gen(sd * 7919 + 12, tier)
    scs = [g.any_order("r%05d" % i, g.r.randint(3, depth)) for i in range(n_rand)]
    scs += extra_phase_programs(g, tier)
    scs += misuse_programs(g)
    run_writer_programs(rep, wd, scs, "random", neg_control=False)
    # ExtraWalk.tla: caller-supplied extra data is accepted exactly when it is a sequence of complete, permitted records - every field of
    # the byte-level model through end_extra_data() (local and central-only phase), judged by Trace_Writer AND by ExtraWalk!Accepts
    mc_extrawalk(rep, wd, mutants=(("guard_lt", "ValidateExact"), ("stale_left", "ValidateExact"), ("tail_ok", "ValidateExact")))
    run_extrawalk_writer(rep, wd, extrawalk_cases(wd), "extrawalk", tier == "quick")
    return rep.finish("model_checking",
                      "MC_Writer fix-point over all call orders (<= MaxFiles entries); TLC-simulated behaviours of the "
                      "model and seeded random call sequences (legal or not) executed on the real ZipWriter and "
                      "validated event by event against ZipWriter.tla; distinct = distinct op sequences",
                      assumptions=["compressor/codec crates trusted", "random sequences bounded to 24 entries each"])


def c01(tier):
    rep = Report("C01", tier)
    wd = vlib.workdir("C01", tier)
    vlib.build_harness()
    # model level: writer model composed with the reader model (RoundTrip.tla) over every order of writer calls
    cfg = "MC_RoundTrip.cfg" if tier == "thorough" else "MC_RoundTrip_small.cfg"
    r = vlib.tlc_mc("RoundTrip.tla", cfg, wd, timeout=1800, tag="mc-roundtrip")
    rep.add_mc(r, cfg)
    if r["error"]:
        rep.spec_violation(r, cfg)
    sd = vlib.seed()
    n = 400 if tier == "quick" else 4000
    g = gen_writer.Gen(sd * 104729 + 1, tier)
    scs = []
    for i in range(n):
        s = g.valid_archive("a%05d" % i, nmax=8, allow_long=(i % 10 == 0), big=(tier == "thorough" and i % 50 == 0))
        # finish() and drop produce identical bytes: run the same program with both endings
        if i % 3 == 0:
            body = s["ops"][:-1]
            s["ops"] = body + [{"op": "Finish"}] + body + [{"op": "Drop"}, {"op": "Compare", "a": 0, "b": 1}]
        scs.append(s)
    # every documented level of every method, all 9-bit permission classes, timestamp extremes
    k = 0
    for m, lv in [(8, l) for l in range(0, 10)] + [(12, l) for l in range(1, 10)] + [(93, l) for l in range(-7, 23)]:
        if tier == "quick" and k % 4:
            k += 1
            continue
        k += 1
        scs.append({"sc": "lv-%d-%d" % (m, lv), "ops": [
            {"op": "New"}, {"op": "StartFile", "name": "f", "method": m, "level": lv, "perm": (k * 37) % 512,
                            "date": (k * 2654435761) % 65536, "time": (k * 40503) % 65536},
            {"op": "Write", "data": {"len": 2000 + k, "seed": k, "kind": "text"}}, {"op": "Finish"}]})
    # archive comments of every alignment-critical length (see comment_lengths): written, found again, read back
    for ln in comment_lengths(dense_to=600, dense_step=(1 if tier == "thorough" else 7)):
        scs.append({"sc": "cl-%d" % ln, "ops": [{"op": "New"}, {"op": "StartFile", "name": "c", "method": 0}, {"op": "Write", "data": "x"},
                                                {"op": "SetComment", "c": {"rep": "k", "n": ln}}, {"op": "Finish"}]})
    # rarely combined features meet systematically: a pairwise covering array over entry kind x method x level x large x encryption x
    # name class x payload class x permissions x time words x position x comment x life cycle (fresh / append rounds) x completion x sink
    ix = gen_writer.interaction_programs(sd * 7919 + 1, "ix")
    rep.notes["interaction_rows"] = len(ix)
    scs += ix
    # several large incompressible slices per write_vectored call into compressing entries (an encoder accepts only part of such a slice)
    for m_ in (8, 93, 12, 0):
        scs.append({"sc": "bigvec-%d" % m_, "ops": [{"op": "New"}, {"op": "StartFile", "name": "bigvec", "method": m_},
                                                     {"op": "Write", "data": {"len": 600000, "seed": 77 + m_, "kind": "rand"}, "vec": True},
                                                     {"op": "Write", "data": {"len": 300001, "seed": 78 + m_, "kind": "rand"}, "vec": True, "split": 150000},
                                                     {"op": "StartFile", "name": "after", "method": 8}, {"op": "Write", "data": "after"}, {"op": "Finish"}]})
    # names and comments at the 16-bit length limit through every entry-creating call: what is accepted must read back whole, what
    # cannot be represented (a 65 535-byte directory name that gets a '/' appended) must be refused
    scs += [dict(s_, sc="lim-" + s_["sc"]) for s_ in boundary_scenarios() if "-65535-" in s_["sc"] or "-65534-" in s_["sc"]]
    run_writer_programs(rep, wd, scs, "roundtrip")
    cmp_events = [e for e in vlib.read_ndjson(os.path.join(wd, "roundtrip-trace.ndjson")) if e.get("ev") == "Compare"]
    rep.notes["finish_vs_drop_comparisons"] = {"made": len(cmp_events), "both_completed": sum(1 for e in cmp_events if e.get("both"))}
    if cmp_events and not any(e.get("both") for e in cmp_events):
        raise ToolTrouble("no finish-vs-drop comparison had both runs complete")
    return rep.finish("model_checking",
                      "seeded random well-behaved programs (files/dirs/symlinks/aligned/extra/encrypted entries, all "
                      "methods and documented levels, random DOS time words, permission bits, comments, names incl. "
                      "non-ASCII/NUL/backslash/empty/duplicate/long) executed on the real writer; every call and the "
                      "reopened archive's per-entry view validated against ZipWriter.tla; finish vs drop byte equality",
                      assumptions=["names/comments do not embed ZIP signatures", "decompressors invert their compressors"])


def boundary_scenarios():
    """inputs at and beyond what the 16-bit length fields can represent (C02)"""
    scs = []
    k = 0
    for ln in (65534, 65535, 65536, 65537, 131072):
        for large in (False, True):
            base = [{"op": "New"}, {"op": "StartFile", "name": "first", "method": 8}, {"op": "Write", "data": "hello"}]
            tail = [{"op": "StartFile", "name": "last", "method": 0}, {"op": "Write", "data": "x"}, {"op": "Finish"}]
            nm = {"rep": "n", "n": ln}
            nmu = {"rep": "é", "n": ln}
            for what, ops in (
                ("name", [{"op": "StartFile", "name": nm, "method": 0, "large": large}, {"op": "Write", "data": "abc"}]),
                ("uname", [{"op": "StartFile", "name": nmu, "method": 8, "large": large}, {"op": "Write", "data": "abc"}]),
                ("dir", [{"op": "AddDir", "name": nm, "method": 0, "large": large}]),
                ("dirslash", [{"op": "AddDir", "name": {"rep": "d", "n": ln, "suffix": "/"}, "method": 0, "large": large}]),
                ("sym", [{"op": "AddSymlink", "name": nm, "target": "t", "method": 0, "large": large}]),
                ("xname", [{"op": "StartFileExtra", "name": nm, "method": 0, "large": large}, {"op": "EndExtra"}]),
                ("aname", [{"op": "StartFileAligned", "name": nm, "method": 0, "large": large, "align": 64}]),
                ("comment", [{"op": "SetComment", "c": {"rep": "c", "n": ln}}]),
            ):
                k += 1
                scs.append({"sc": "b-%s-%d-%d" % (what, ln, large), "ops": base + ops + tail})
    # name and extra field each representable, together beyond 65 535 bytes (headers of more than 64 KiB)
    for j, (nlen, xlen, large, uni) in enumerate([(40000, 30004, False, False), (65535, 0, True, False), (65535, 65000, False, True), (30000, 40000, True, True)]):
        ops = [{"op": "New"}, {"op": "StartFile", "name": "first", "method": 8}, {"op": "Write", "data": "first"},
               {"op": "StartFileExtra", "name": {"rep": "é" if uni else "n", "n": nlen}, "method": 0, "large": large}]
        if xlen:
            ops.append({"op": "WriteExtra", "recs": [{"id": 0xbeef, "dsz": xlen - 4}]})
        ops += [{"op": "EndExtra"}, {"op": "Write", "data": "long header"}, {"op": "StartFile", "name": "last", "method": 8}, {"op": "Write", "data": "last"}, {"op": "Finish"}]
        scs.append({"sc": "b-longhdr-65535-%d" % j, "ops": ops})
    for total in (65510, 65511, 65515, 65516, 65520, 65535, 65536, 65540, 70000):
        recs = [{"id": 0xbeef, "dsz": total - 4}] if total - 4 <= 65535 else [{"id": 0xbeef, "dsz": 60000}, {"id": 0xcafe, "dsz": total - 60008}]
        for large in (False, True):
            for central in (False, True):
                ops = [{"op": "New"}, {"op": "StartFileExtra", "name": "x", "method": 0, "large": large}]
                if central:
                    ops.append({"op": "EndLocalStartCentral"})
                ops += [{"op": "WriteExtra", "recs": recs}, {"op": "EndExtra"}, {"op": "Write", "data": "payload"},
                        {"op": "StartFile", "name": "after", "method": 8}, {"op": "Write", "data": "zz"}, {"op": "Finish"}]
                scs.append({"sc": "bx-%d-%d-%d" % (total, large, central), "ops": ops})
    return scs


def c02(tier):
    rep = Report("C02", tier)
    wd = vlib.workdir("C02", tier)
    vlib.build_harness()
    mc_writer(rep, wd, tier)
    sd = vlib.seed()
    n = 300 if tier == "quick" else 3000
    g = gen_writer.Gen(sd * 15485863 + 2, tier)
    scs = [g.valid_archive("v%05d" % i, nmax=7, allow_long=(i % 8 == 0)) for i in range(n)]
    # raw copies interleaved with ordinary entries
    for i in range(n // 4):
        ops = list(gen_writer.SRC_PRELUDE) + [{"op": "New"}]
        for _ in range(g.r.randint(1, 6)):
            if g.r.random() < 0.5:
                ops.append({"op": "RawCopy", "arch": 0, "idx": g.r.randint(0, 3), "rename": None if g.r.random() < 0.5 else g.name()})
            else:
                ops.append(dict(g.opts(), op="StartFile", name=g.name()))
                ops.append({"op": "Write", "data": g.payload()})
        ops.append({"op": "Finish"})
        scs.append({"sc": "rc%05d" % i, "ops": ops})
    bs = boundary_scenarios()
    if tier == "quick":      # everything at 65535 / 65536; a third of the rest
        bs = [s for i, s in enumerate(bs) if i % 3 == sd % 3 or "-65535-" in s["sc"] or "-65536-" in s["sc"]]
    ix = gen_writer.interaction_programs(sd * 7919 + 2, "ix")       # pairwise feature interactions (see gen_writer.IDIMS)
    rep.notes["interaction_rows"] = len(ix)
    run_writer_programs(rep, wd, scs + bs + ix, "valid", referees=True)
    # the archive-level ZIP64 records (end record, locator) only exist beyond 65 535 entries / 4 GiB: their structure is judged here too
    run_zip64_subset(rep, wd, tier, ("count-65536",) if tier == "quick" else ("count-",), "zip64-endrecords")
    return rep.finish("model_checking",
                      "every archive the writer reports as finished is lexed by the harness's independent strict parser "
                      "and judged by ZipFormat!WriterWellFormed + equality with the layout ZipWriter.tla predicts; CPython "
                      "zipfile and Info-ZIP unzip -t verdicts are required to be ok; lengths at/over the 16-bit limits "
                      "must be refused; MC_Writer checks LayoutWellFormed/NoTruncation at scaled thresholds",
                      assumptions=["version-needed is not constrained", "CPython cannot decode zstd entries (skipped there)"])


def c17(tier):
    rep = Report("C17", tier)
    wd = vlib.workdir("C17", tier)
    vlib.build_harness()
    mc_writer(rep, wd, "quick")
    if tier == "thorough":
        # the padding law for unbounded offsets and every alignment (Apalache/SMT); the law without the record header must be refuted
        ok, tail = apalache("AlignProof.tla", ["--init=AnyInit", "--inv=Aligned", "--length=0"], wd, "alignproof")
        if not ok:
            log(tail)
            raise ToolTrouble("Apalache did not discharge AlignProof!Aligned")
        bad, tail = apalache("AlignProof.tla", ["--init=AnyInit", "--inv=WrongLaw", "--length=0"], wd, "alignproof-neg")
        if bad or "Checker has found an error" not in tail:
            log(tail)
            raise ToolTrouble("Apalache did not refute AlignProof!WrongLaw")
        rep.neg_controls.append({"spec_mutant": "AlignProof!WrongLaw (padding without the 4-byte record header)", "expected_violation": "WrongLaw", "found": True})
        rep.notes["apalache_obligations"] = {"obligations": 1, "discharged": 1, "spec": "AlignProof.tla (Aligned: for every data start in Nat and alignment in 2..65535 the required padding record aligns the data start)"}
    sd = vlib.seed()
    g = gen_writer.Gen(sd * 32452843 + 17, tier)
    if tier == "quick":
        aligns = list(range(0, 301)) + [2 ** k + d for k in range(9, 16) for d in (-1, 0, 1)] + list(range(65531, 65536))
    else:
        aligns = list(range(0, 65536))
    g.r.shuffle(aligns)
    scs = []
    per = 6
    for i in range(0, len(aligns), per):
        ops = [{"op": "New"}]
        for a in aligns[i:i + per]:
            if g.r.random() < 0.6:   # vary the preceding offset
                ops.append({"op": "StartFile", "name": g.name(), "method": g.r.choice([0, 8])})
                ops.append({"op": "Write", "data": {"len": g.r.randint(0, 70), "seed": a + 1, "kind": "text"}})
            o = g.opts(methods=[0, 0, 8])
            ops.append(dict(o, op="StartFileAligned", name="al%d" % a, align=a))
            ops.append({"op": "Write", "data": {"len": g.r.randint(0, 40), "seed": a, "kind": "rand"}})
        ops.append({"op": "Finish"})
        scs.append({"sc": "al%05d" % i, "ops": ops})
    # extra-data programs: local-only, central-only, shared; reserved / ZIP64 / truncated records
    nx = 400 if tier == "quick" else 4000
    for i in range(nx):
        ops = [{"op": "New"}]
        for _ in range(g.r.randint(1, 4)):
            o = g.opts(methods=[0, 8, 12])
            ops.append(dict(o, op="StartFileExtra", name=g.name()))
            bad = g.r.random() < 0.35
            mode = g.r.choice(["shared", "local", "central", "both"])
            if mode == "shared":
                ops += [{"op": "WriteExtra", "recs": g.extra_recs(bad)}, {"op": "EndExtra"}]
            elif mode == "local":
                ops += [{"op": "WriteExtra", "recs": g.extra_recs(bad)}, {"op": "EndLocalStartCentral"}, {"op": "EndExtra"}]
            elif mode == "central":
                ops += [{"op": "EndLocalStartCentral"}, {"op": "WriteExtra", "recs": g.extra_recs(bad)}, {"op": "EndExtra"}]
            else:
                ops += [{"op": "WriteExtra", "recs": g.extra_recs()}, {"op": "EndLocalStartCentral"},
                        {"op": "WriteExtra", "recs": g.extra_recs(bad)}, {"op": "EndExtra"}]
            ops.append({"op": "Write", "data": g.payload()})
        ops.append({"op": "Finish"})
        scs.append({"sc": "xd%05d" % i, "ops": ops})
    run_writer_programs(rep, wd, scs, "align")
    # every ACCEPTED field of the byte-level extra-data model (ExtraWalk.tla), in the local and in the central-only phase: it must land
    # verbatim where requested (Trace_Writer compares the lexed local and central extra fields record by record)
    run_extrawalk_writer(rep, wd, [c for c in extrawalk_cases(wd) if c["accepts"]], "extrawalk", tier == "quick")
    rep.notes["alignments_covered"] = len(aligns)
    return rep.finish("model_checking",
                      "start_file_aligned for each alignment value at varied preceding offsets (quick: 0..300, powers of two "
                      "+-1, 65531..65535; thorough: all 65536), with and without large_file, several aligned entries per "
                      "archive; extra-data programs (shared/local-only/central-only, reserved/ZIP64/truncated records); "
                      "returned padding, data_start in the bytes and from the reader, placement and verbatim storage of extra "
                      "data validated against ZipWriter.tla (AlignedF, EndExtraF) and the Aligned invariant",
                      assumptions=["extra-data programs write whole records per call"])


def foreign_sources(r):
    """archives from the independent builder used as raw-copy sources / append bases"""
    import refzip
    pay = bytes((i * 7 + 3) & 0xFF for i in range(700))
    ents = [
        {"name": b"lzma.bin", "method": 14, "data": pay[:300]},                       # a method the crate cannot decode
        {"name": b"xz.bin", "method": 95, "data": pay[:77], "system": 0, "eattr": 0x20},
        {"name": b"dd-sig32.txt", "method": 8, "data": b"data descriptor " * 40, "dd": "sig32"},
        {"name": b"dd-nosig32.txt", "method": 8, "data": b"no signature " * 30, "dd": "nosig32"},
        {"name": b"dd64.txt", "method": 0, "data": b"wide descriptor", "dd": "sig64", "lz64": True},
        {"name": b"forced-z64.bin", "method": 8, "data": pay, "z64": {"usize", "csize", "off"}, "lz64": True},
        {"name": b"dos-ro.txt", "method": 0, "data": b"ro", "system": 0, "eattr": 0x01},
        {"name": b"noattr", "method": 12, "data": b"bz " * 100, "eattr": 0},
        {"name": "ünï.txt".encode(), "utf8": True, "method": 8, "data": b"unicode name", "eattr": (0o100751 << 16)},
        {"name": b"empty", "method": 0, "data": b"", "date": 0xFFFF, "time": 0xFFFF},
        {"name": b"caf\x82 \xe1\x9b.txt", "method": 8, "data": b"legacy code page name"},      # CP437, unflagged
        # names that end in a separator: a "compressed" empty directory (jar-style: size 0, two stored bytes), and entries that carry
        # content under such a name - a raw copy transfers them like any other entry
        {"name": b"META-INF/", "method": 8, "data": b"", "eattr": (0o40755 << 16) | 0x10},
        {"name": b"spool/", "method": 8, "data": b"content under a directory-like name " * 5},
        {"name": b"bs-tail\\", "method": 0, "data": b"backslash-terminated"},
    ]
    r.shuffle(ents)
    b, v = refzip.build({"entries": ents, "comment": b"foreign"})
    return b, v


def c14(tier):
    rep = Report("C14", tier)
    wd = vlib.workdir("C14", tier)
    vlib.build_harness()
    mc_writer(rep, wd, "quick")
    # raw copies of sources whose uncompressed size needs ZIP64 while the compressed size does not (and at the limit): the copy's
    # LOCAL header must carry the ZIP64 record too (sparse store; the source is a tiny archive that declares the sizes)
    run_zip64_subset(rep, wd, tier, ("rawcopy-",), "zip64-rawcopy")
    sd = vlib.seed()
    g = gen_writer.Gen(sd * 49979687 + 14, tier)
    n = 250 if tier == "quick" else 4000
    scs = []
    for i in range(n):
        # source 0: an archive from this writer with every method; source 1: independent builder
        src = [{"op": "New"}]
        nsrc = g.r.randint(2, 7)
        for k in range(nsrc):
            o = g.opts()
            src.append(dict(o, op="StartFile", name="s%d/%s" % (k, g.r.choice(["a", "é", "b c", "dirlike/", "bs\\"]))))
            src.append({"op": "Write", "data": g.payload(big=(tier == "thorough"))})
        src.append({"op": "Finish"})
        fb, fv = foreign_sources(g.r)
        ops = src + [{"op": "Load", "hex": fb.hex()}, {"op": "New"}]
        ncopy = 0
        for _ in range(g.r.randint(1, 7)):
            c = g.r.random()
            if c < 0.6:
                if g.r.random() < 0.5:
                    ops.append({"op": "RawCopy", "arch": 0, "idx": g.r.randint(0, nsrc - 1),
                                "rename": None if g.r.random() < 0.5 else g.name()})
                else:
                    ops.append({"op": "RawCopy", "arch": 1, "idx": g.r.randint(0, len(fv["entries"]) - 1),
                                "rename": None if g.r.random() < 0.5 else g.name()})
                if g.r.random() < 0.4:      # the source archive's reader returns short reads
                    ops[-1]["src_under"] = g.r.choice([{"max": 1}, {"max": 3}, {"max": 7}, {"max": 100}, {"max": 4000}, {"list": [1, 5, 2]}, {"list": [8191, 1]}])
                ncopy += 1
            elif c < 0.85:
                ops.append(dict(g.opts(enc_ok=True), op="StartFile", name=g.name()))
                ops.append({"op": "Write", "data": g.payload()})
            else:
                ops.append(dict(g.opts(), op="AddDir", name=g.name()))
        ops.append({"op": "Finish"})
        sc = {"sc": "rc%05d" % i, "ops": ops}
        if i % 3 == 1:      # destination (and source) sinks that accept short writes
            sc["short_w_max"] = g.r.choice([1, 7, 100, 4096, 10000])
        scs.append(sc)
    run_writer_programs(rep, wd, scs, "rawcopy", referees=False)
    return rep.finish("model_checking",
                      "raw copies (first/middle/last/only, renamed or not) of entries from this writer (every method, random "
                      "levels, empty to multi-MiB) and from the independent builder (methods the crate cannot decode, the four "
                      "data-descriptor styles, forced ZIP64 fields, DOS/absent attributes) interleaved with ordinary entries; "
                      "the spec (RawCopyF, RawVerbatim in LocalMatches/Entry) requires identical raw bytes (CRC of the data "
                      "region), method, CRC, sizes, time words, low nine permission bits, and unchanged neighbours",
                      assumptions=["ZIP64-sized sources are exercised under C08"])


def cpython_base(r, kind):
    """an archive written by CPython's zipfile (second independent producer)"""
    import io
    import zipfile
    buf = io.BytesIO()

    class Unseekable(io.RawIOBase):       # forces data descriptors
        def __init__(self, b):
            self.b = b

        def writable(self):
            return True

        def write(self, d):
            return self.b.write(d)

    tgt = Unseekable(buf) if kind == "dd" else buf
    with zipfile.ZipFile(tgt, "w") as z:
        for k in range(r.randint(1, 5)):
            name = r.choice(["py/a%d.txt" % k, "py/é%d" % k, "d%d/" % k])
            zi = zipfile.ZipInfo(name, date_time=(1980 + r.randint(0, 100), r.randint(1, 12), r.randint(1, 28), r.randint(0, 23), r.randint(0, 59), 2 * r.randint(0, 29)))
            zi.compress_type = r.choice([zipfile.ZIP_STORED, zipfile.ZIP_DEFLATED, zipfile.ZIP_BZIP2])
            zi.external_attr = (r.choice([0o100644, 0o100755, 0o40755]) << 16)
            if kind == "fcomment":
                zi.comment = b"file comment %d" % k
            data = b"" if name.endswith("/") else bytes(r.randrange(256) for _ in range(r.randint(0, 300)))
            if kind == "z64":
                with z.open(zi, "w", force_zip64=True) as f:
                    f.write(data)
            else:
                z.writestr(zi, data)
        if r.random() < 0.5:
            z.comment = b"cpython archive comment"
    return buf.getvalue()


def c13(tier):
    rep = Report("C13", tier)
    wd = vlib.workdir("C13", tier)
    vlib.build_harness()
    # model level: append rounds on top of the writer's call alphabet (AppendKeeps, NoStaleTail, AppendRoundTrip)
    cfg = "MC_Append.cfg" if tier == "thorough" else "MC_Append_small.cfg"
    r = vlib.tlc_mc("MC_Append.tla", cfg, wd, timeout=3000, tag="mc-append", tlc=["-Xmx20g"] if False else None)
    rep.add_mc(r, cfg)
    if r["error"]:
        rep.spec_violation(r, cfg)
    # an archive whose entries genuinely need ZIP64 (a > 4 GiB entry, later header offsets beyond 4 GiB; sparse store), appended to:
    # the old entries' central records already carry a ZIP64 record and get another one (AppendRepeatsZip64Record), and must read back
    run_zip64_subset(rep, wd, tier, ("append-after-4g", "append-shrink-across-4g") if tier == "quick" else ("append-",), "zip64-append")
    import refzip
    sd = vlib.seed()
    g = gen_writer.Gen(sd * 86028121 + 13, tier)
    n = 200 if tier == "quick" else 3000
    scs = []
    for i in range(n):
        kind = ["writer", "writer", "refzip", "refzip-prefix", "refzip-z64", "cpython", "cpython-dd", "cpython-z64",
                "cpython-fcomment", "empty", "writer", "refzip-enc"][i % 12]
        ops = []
        if kind == "writer":
            s = g.valid_archive("x", nmax=5, enc_ok=False, end="Finish")
            ops += s["ops"]
        elif kind == "empty":
            ops += [{"op": "New"}, {"op": "Finish"}]
        elif kind.startswith("refzip"):
            fb, fv = foreign_sources(g.r)
            if kind == "refzip-prefix":
                ents = [{"name": b"p/one", "method": 8, "data": b"one " * 30}, {"name": "p/zwei-ü".encode(), "utf8": True, "method": 0, "data": b"2"}]
                fb, fv = refzip.build({"prefix": bytes(g.r.randrange(1, 255) for _ in range(g.r.choice([1, 100, 65536]))),
                                       "entries": ents, "comment": b"prefixed"})
            elif kind == "refzip-z64":
                ents = [{"name": b"z/one", "method": 8, "data": b"one " * 30, "z64": {"usize", "csize"}, "lz64": True},
                        {"name": b"z/two", "method": 0, "data": b"22", "z64": {"off"}}]
                fb, fv = refzip.build({"entries": ents, "z64end": True, "comment": b"forced zip64"})
            lo = {"op": "Load", "hex": fb.hex()}
            if kind == "refzip-enc":
                # encrypted entries among the old ones (the property promises nothing about their content, but the archive written
                # around them must stay well-formed - header fields of old records re-emitted as they were - and they must still decrypt)
                ents = [{"name": b"e/plain", "method": 8, "data": b"plain " * 30},
                        # (sizes of 64 KiB and more: after the round the record's values sit next to exact 32-bit fields - surplus values a
                        #  reader has to skip by the record's declared length to reach the AE-x record behind it)
                        {"name": b"e/aes2", "method": 0 if i % 24 == 11 else 8, "data": bytes((7 * j_) % 253 for j_ in range(70000 + i)),
                         "enc": ("aes", 2, 3, b"base-pw"), "z64": {"usize", "csize"}, "lz64": True},
                        {"name": b"e/zc", "method": 0, "data": b"zipcrypto stored", "enc": ("zc", b"base-pw")},
                        {"name": b"e/aes1", "method": 0, "data": b"aes one", "enc": ("aes", 1, 1, b"base-pw"), "cextra": [(0xbeef, b"x")], "aes_first": i % 2 == 0}]
                g.r.shuffle(ents)
                fb, fv = refzip.build({"entries": ents, "comment": b"with encrypted entries"})
                lo = {"op": "Load", "hex": fb.hex(), "pws": [b"base-pw".hex()]}
            ops.append(lo)
        else:
            ops.append({"op": "Load", "hex": cpython_base(g.r, {"cpython": "plain", "cpython-dd": "dd", "cpython-z64": "z64",
                                                                 "cpython-fcomment": "fcomment"}[kind]).hex()})
        rounds = g.r.randint(1, 3)
        for rd in range(rounds):
            ops.append({"op": "NewAppend", "arch": rd})
            if g.r.random() < 0.25:
                ops.append({"op": "SetComment", "c": g.comment()})
            for _ in range(g.r.choice([0, 1, 1, 2, 3])):
                c = g.r.random()
                if c < 0.7:
                    ops.append(dict(g.opts(), op="StartFile", name="r%d/%s" % (rd, g.name())))
                    ops.append({"op": "Write", "data": g.payload()})
                elif c < 0.85:
                    ops.append(dict(g.opts(), op="AddDir", name="r%d/d" % rd))
                else:
                    ops.append(dict(g.opts(methods=[0, 8]), op="StartFileAligned", name="r%d/al" % rd, align=g.r.choice([4, 64, 4096])))
                    ops.append({"op": "Write", "data": g.payload()})
            ops.append({"op": g.r.choice(["Finish", "Finish", "Finish", "Drop"])})
        scs.append({"sc": "ap%05d-%s" % (i, kind), "ops": ops})
    # a REFUSED call right after opening for append (too-long name, unsupported method, bad level, invalid extra data, write without a
    # file), then valid ones: the refusal must not cost the last old entry its protection (its header is never re-patched)
    bad_first = [[dict(op="StartFile", name={"rep": "n", "n": 65536}, method=8)], [dict(op="AddDir", name={"rep": "d", "n": 65535}, method=0)],
                 [dict(op="StartFile", name="bad-method", method=99)], [dict(op="StartFile", name="bad-level", method=8, level=77)],
                 [dict(op="Write", data="no entry is open")], [dict(op="EndExtra")],
                 [dict(op="StartFileExtra", name="bad-extra", method=0), dict(op="WriteExtra", recs=[{"id": 1, "dsz": 8}]), dict(op="EndExtra")],
                 [dict(op="AddSymlink", name={"rep": "s", "n": 70000}, target="t", method=0)]]
    for j, bad in enumerate(bad_first):
        for base_last in ("plain", "large", "aligned"):
            last = {"plain": [dict(op="StartFile", name="old-last", method=8), dict(op="Write", data="the last old entry " * 5)],
                    "large": [dict(op="StartFile", name="old-last", method=0, large=True), dict(op="Write", data="the last old entry " * 5)],
                    "aligned": [dict(op="StartFileAligned", name="old-last", method=0, align=256), dict(op="Write", data="the last old entry " * 5)]}[base_last]
            ops = [dict(op="New"), dict(op="StartFile", name="old-first", method=0), dict(op="Write", data="first")] + last + [dict(op="Finish"), dict(op="NewAppend", arch=0)]
            ops += bad + [dict(op="StartFile", name="new-entry", method=8), dict(op="Write", data="appended after a refused call"), dict(op="Finish")]
            scs.append({"sc": "apbad-%d-%s" % (j, base_last), "ops": ops})
    ix = gen_writer.interaction_programs(sd * 7919 + 13, "ix", only=lambda row: row["life"] != "fresh")
    rep.notes["interaction_rows"] = len(ix)
    scs += ix
    run_writer_programs(rep, wd, scs, "append", referees=False)
    return rep.finish("model_checking",
                      "histories base -> (append k entries)* with 1..3 rounds over bases from this writer, the independent "
                      "builder (plain, 1 B..64 KiB prefix, forced ZIP64 records, data descriptors, unknown methods) and CPython "
                      "zipfile (plain, data descriptors, force_zip64, file comments); after every round the bytes are lexed and "
                      "judged, reopened, and every old entry's metadata, raw data CRC and decoded content compared with the "
                      "specification's NewAppendF/ClosedEntriesImmutable expectation; MC_Writer checks ClosedEntriesImmutable",
                      assumptions=["bases are unencrypted, as the property states"])


def run_reader_scenarios(rep, wd, scenarios, label, neg_control=True):
    progs = os.path.join(wd, label + "-scenarios.ndjson")
    trace = os.path.join(wd, label + "-trace.ndjson")
    vlib.write_ndjson(progs, scenarios)
    vlib.run_harness(["rexec", progs, trace])
    res = vlib.validate_segments("Trace_Open.tla", "Trace_Open.cfg", trace, wd, tag=label)
    by_sc = {s["sc"]: {"sc": s["sc"], "hex_len": len(s["hex"]) // 2, "hex": s["hex"] if len(s["hex"]) < 400000 else "(omitted)",
                       "pwq": s.get("pwq")} for s in scenarios}
    rep.add_tv(res, by_sc, label)
    rep.evaluations += len(scenarios)
    for s in scenarios:
        rep.distinct.add(vlib.digest(s["hex"][:200000]))
    counts = rep.notes.setdefault("events_by_call", {})
    evs = vlib.read_ndjson(trace)
    for e in evs:
        counts[e.get("ev", "?")] = counts.get(e.get("ev", "?"), 0) + 1
    rep.notes["spec_counters"] = dict(vlib.LAST_STATS)
    if not rep.samples:
        ex = next((e for e in evs if e.get("ev") == "REntry"), None)
        rep.samples.append({"scenario": scenarios[0]["sc"], "bytes": len(scenarios[0]["hex"]) // 2,
                            "first_entry_event": {k: ex[k] for k in list(ex)[:14]} if ex else None})
    rejected = {r["sc"] for r in res["rejections"]}
    if neg_control:
        for s in scenarios:
            if s["sc"] in rejected:
                continue
            seg = [e for e in evs if e.get("sc") == s["sc"]]
            ent = [i for i, e in enumerate(seg) if e.get("ev") == "REntry" and e.get("r") == "ok"]
            if not ent:
                continue

            def mutate(es, k=ent[-1]):
                es[k]["hdr"] = es[k]["hdr"] + 1
                return "REntry[%d].hdr shifted in accepted scenario %s" % (k, s["sc"])

            nc = vlib.corrupt_and_expect_reject("Trace_Open.tla", "Trace_Open.cfg", seg, wd, mutate, tag=label + "-neg")
            if nc:
                rep.neg_controls.append(nc)
                if not nc["rejected"]:
                    raise ToolTrouble("negative control did not fire: " + nc["mutation"])
            break
    return res


def tail_cases(wd, quick):
    """LocatePre cases enumerated by TLC (MC_Open with Emit)"""
    cfg = os.path.join(wd, "MC_Open_emit.cfg")
    with open(os.path.join(vlib.SPEC, "MC_Open.cfg")) as f:
        txt = f.read().replace("Emit = FALSE", "Emit = TRUE") + "INVARIANT EmitCase\n"
    with open(cfg, "w") as f:
        f.write(txt)
    r = vlib.tlc_run("MC_Open.tla", cfg, wd, workers=1, timeout=600, tag="emit")
    cases = []
    seen = set()
    for m in re.finditer(r'<<"CASE", "(.*)">>', r["out"]):
        s = m.group(1)
        if s in seen:
            continue
        seen.add(s)
        cases.append(json.loads(json.loads('"' + s + '"')))
    if not cases:
        raise ToolTrouble("MC_Open emitted no cases")
    return cases


def comment_lengths(dense_to=600, dense_step=1):
    """comment lengths that put the end record at every alignment a block-wise backward search could mishandle: 22 + len within
    0..4 bytes past a multiple of 2^k (k = 8..16; first, middle and last multiple that fits), plus every small length"""
    out = set(range(0, dense_to + 1, dense_step))
    for k in range(8, 17):
        b = 1 << k
        mults = [m for m in range(1, 65536 // b + 2)]
        for m in (mults[0], mults[len(mults) // 2], mults[-1], mults[-2] if len(mults) > 1 else mults[0]):
            for d in range(0, 5):
                ln = m * b - 22 + d
                if 0 <= ln <= 65535:
                    out.add(ln)
    out.update([65535, 65534, 65535 - 22, 65535 - 21])
    return sorted(out)


def producer_cases(wd, cfgname, tag):
    """realisable archives enumerated by TLC (MC_Producer with Emit)"""
    cfg = os.path.join(wd, cfgname.replace(".cfg", "_emit.cfg"))
    with open(os.path.join(vlib.SPEC, cfgname)) as f:
        txt = f.read().replace("Emit = FALSE", "Emit = TRUE") + "INVARIANT EmitCase\n"
    with open(cfg, "w") as f:
        f.write(txt)
    r = vlib.tlc_run("MC_Producer.tla", cfg, wd, workers=1, timeout=1800, tag=tag)
    cases, seen = [], set()
    for m in re.finditer(r'<<"CASE", "(.*)">>', r["out"]):
        s = m.group(1)
        if s in seen:
            continue
        seen.add(s)
        cases.append(json.loads(json.loads('"' + s + '"')))
    if not cases:
        log(r["out"][-2000:])
        raise ToolTrouble("MC_Producer emitted no cases")
    return cases


EXTRAWALK_MUTANTS = (("aes_no_account", "OnBoundary"), ("skip_declared", "OnBoundary"), ("guard_lt", "ValidateExact"), ("stale_left", "ValidateExact"),
                     ("tail_ok", "ValidateExact"))


def mc_extrawalk(rep, wd, mutants=EXTRAWALK_MUTANTS):
    """ExtraWalk.tla: the byte-level walk over an extra field (reader) and the validation of caller-supplied extra data (writer)"""
    r = vlib.tlc_mc("MC_ExtraWalk.tla", "MC_ExtraWalk.cfg", wd, timeout=1200, tag="mc-extrawalk")
    rep.add_mc(r, "MC_ExtraWalk.cfg")
    if r["error"]:
        rep.spec_violation(r, "MC_ExtraWalk.cfg")
    rs = vlib.tlc_mc_many([("MC_ExtraWalk.tla", "MC_ExtraWalk_%s.cfg" % b, "mc-xw-" + b) for b, _ in mutants], wd)
    for (bug, inv), r in zip(mutants, rs):
        found = bool(r["error"]) and inv in r["error"]
        rep.neg_controls.append({"spec_mutant": "extrawalk:" + bug, "expected_violation": inv, "found": found})
        if not found:
            raise ToolTrouble("spec mutant %s of ExtraWalk not detected" % bug)


_XW_CACHE = {}


def extrawalk_cases(wd):
    """every field TLC enumerates in MC_ExtraWalk (Emit), as dicts"""
    if wd in _XW_CACHE:
        return _XW_CACHE[wd]
    cfg = os.path.join(wd, "MC_ExtraWalk_emit.cfg")
    with open(os.path.join(vlib.SPEC, "MC_ExtraWalk.cfg")) as f:
        txt = f.read().replace("Emit = FALSE", "Emit = TRUE").replace("PROPERTY Progress\n", "") + "INVARIANT EmitCase\n"
    with open(cfg, "w") as f:
        f.write(txt)
    r = vlib.tlc_run("MC_ExtraWalk.tla", cfg, wd, workers=1, timeout=1800, tag="emit-xw")
    cases, seen = [], set()
    for m in re.finditer(r'<<"CASE", "(.*)">>', r["out"]):
        s_ = m.group(1)
        if s_ in seen:
            continue
        seen.add(s_)
        cases.append(json.loads(json.loads('"' + s_ + '"')))
    if not cases:
        log(r["out"][-2000:])
        raise ToolTrouble("MC_ExtraWalk emitted no cases")
    _XW_CACHE[wd] = cases
    return cases


def extrawalk_reader_scenario(sc, c, k=0):
    """a field of MC_ExtraWalk as the CENTRAL extra field of a real entry (independent builder), between two ordinary entries"""
    import refzip
    sent = [f for f in ("us", "cs", "off") if c[f]]
    lay = []
    has_aes = any(r["id"] == "aes" and r["dlen"] == 7 for r in c["recs"])
    for r in c["recs"]:
        if r["id"] == "z64":
            lay.append(("z64", r["nvals"] - len(sent)))
        elif r["id"] == "aes":
            lay.append(("aes", r["dlen"]))
        else:
            lay.append((0xcafe if r["id"] == "oth" else 0x000a, bytes((7 * j + k) % 251 for j in range(r["dlen"]))))
    cut = bool(c["recs"]) and c["recs"][-1]["body"] < c["recs"][-1]["dlen"]
    e = {"name": b"walk/target", "method": (0, 8)[k % 2], "data": b"extra walk target %d " % k * 3, "cx_layout": lay, "sent": sent,
         "cx_tail": bytes([0xfe, 0xca, 0x05][:c["tail"]]), "cx_cut": cut}
    pwq = None
    if has_aes:
        e["enc"] = ("aes", 1 + k % 2, 1 + k % 3, b"walk-pw")
        pwq = [{"i": 1, "kind": "right", "pw": b"walk-pw".hex()}]
    d = {"entries": [{"name": b"walk/before", "method": 8, "data": b"before " * 9}, e, {"name": b"walk/after", "method": 0, "data": b"after"}]}
    return gen_reader.scenario(sc, d, pwq=pwq)[0]


def extrawalk_local_archive(c, k=0):
    """a field of MC_ExtraWalk as the LOCAL extra field of the middle entry of a three-entry archive (what a front-to-back reader parses);
    only the two size fields exist in a local header"""
    import refzip
    lsent = [f for f in ("us", "cs") if c[f]]
    lay = []
    for r in c["recs"]:
        if r["id"] == "z64":
            lay.append(("z64", r["nvals"] - len(lsent) - (1 if c["off"] else 0)))
        elif r["id"] == "aes":
            lay.append(("aes", r["dlen"]))
        else:
            lay.append((0xcafe if r["id"] == "oth" else 0x000a, bytes((5 * j + k) % 251 for j in range(r["dlen"]))))
    cut = bool(c["recs"]) and c["recs"][-1]["body"] < c["recs"][-1]["dlen"]
    e = {"name": b"walk/local", "method": (0, 8)[k % 2], "data": b"local extra walk %d " % k * 4, "lx_layout": lay, "lsent": lsent,
         "lx_tail": bytes([0xfe, 0xca, 0x05][:c["tail"]]), "lx_cut": cut}
    if lsent:       # the central record carries the same values in its own ZIP64 record
        e["z64"] = {"usize" if f == "us" else "csize" for f in lsent}
    return refzip.build({"entries": [{"name": b"walk/before", "method": 8, "data": b"before " * 9}, e, {"name": b"walk/after", "method": 0, "data": b"after"}]})


def extrawalk_writer_program(sc, c, central):
    ids = {"oth": 0xbeef, "rsv": 0x000a, "z64": 1, "aes": 0x9901}
    recs = [{"id": ids[r["id"]], "dsz": r["dlen"], "asz": r["body"]} for r in c["recs"]]
    if c["tail"]:
        recs.append({"id": 0xbeef, "dsz": 0, "hl": c["tail"]})
    ops = [{"op": "New"}, {"op": "StartFile", "name": "before", "method": 8}, {"op": "Write", "data": "before"},
           {"op": "StartFileExtra", "name": "x", "method": 8}]
    if central:
        ops += [{"op": "WriteExtra", "recs": [{"id": 0xd00d, "dsz": 2}]}, {"op": "EndLocalStartCentral"}]
    ops += [{"op": "WriteExtra", "recs": recs}, {"op": "EndExtra"}, {"op": "Write", "data": "payload"},
            {"op": "StartFile", "name": "after", "method": 0}, {"op": "Write", "data": "after"}, {"op": "Finish"}]
    return {"sc": sc, "ops": ops, "_accepts": c["accepts"], "_central": central}


def run_extrawalk_writer(rep, wd, cases, label, quick):
    """the validation of caller-supplied extra data on every field of the model (record sequences only matter: deduplicated)"""
    seen, progs = set(), []
    for c in cases:
        key = json.dumps([c["recs"], c["tail"]])
        if key in seen:
            continue
        seen.add(key)
        progs.append(extrawalk_writer_program("xw%05d" % len(progs), c, central=(len(progs) % 2 == 1)))
    if quick and len(progs) > 1500:
        progs = random.Random(vlib.seed() * 31 + 5).sample(progs, 1500)
    accepts = {p_["sc"]: p_.pop("_accepts") for p_ in progs}
    for p_ in progs:
        p_.pop("_central")
    run_writer_programs(rep, wd, progs, label, neg_control=False)
    # the model's own verdict (ExtraWalk!Accepts) against what the real writer answered
    evs = vlib.read_ndjson(os.path.join(wd, label + "-trace.ndjson"))
    seen_sc, bad = set(), []
    for e in evs:
        if e.get("ev") == "EndExtra" and e["sc"] not in seen_sc:
            seen_sc.add(e["sc"])
            if (e.get("r") == "ok") != accepts[e["sc"]]:
                bad.append((e["sc"], e.get("r")))
    for sc_, r_ in bad[:12]:
        prog = next(p_ for p_ in progs if p_["sc"] == sc_)
        path = vlib.save_replay(rep.pid, "%s-%s" % (label, sc_), {"kind": "ExtraWalk!Accepts disagrees with end_extra_data()", "model_accepts": accepts[sc_],
                                                                  "observed": r_, "program": prog})
        rep.violations.append((path, "extra data: the model %s it, the writer answered %s" % ("accepts" if accepts[sc_] else "refuses", r_)))
    rep.notes[label + "_programs"] = len(progs)


PRODUCER_MUTANTS = ("cs_first", "either_both", "always_all", "first_record_only", "central_xlen", "local_sizes", "first_dup", "aes_swallows_next")


def mc_producer(rep, wd, tier, mutants=PRODUCER_MUTANTS, one_entry_only=False):
    """Producer.tla: field-level reader model against every layout freedom of an independent producer"""
    for cfg in ["MC_Producer1.cfg"] + ([] if one_entry_only else ["MC_Producer2.cfg", "MC_Producer2_full.cfg"] if tier == "thorough" else ["MC_Producer2_tiny.cfg"]):
        r = vlib.tlc_mc("MC_Producer.tla", cfg, wd, timeout=3000, tag="mc-" + cfg[:-4])
        rep.add_mc(r, cfg)
        if r["error"]:
            rep.spec_violation(r, cfg)
    rs = vlib.tlc_mc_many([("MC_Producer.tla", "MC_Producer_%s.cfg" % bug, "mc-prod-" + bug) for bug in mutants], wd)
    for bug, r in zip(mutants, rs):
        found = bool(r["error"]) and "ReaderFaithful" in r["error"]
        rep.neg_controls.append({"spec_mutant": "reader:" + bug, "expected_violation": "ReaderFaithful", "found": found})
        if not found:
            raise ToolTrouble("spec mutant %s of the reader model not detected" % bug)


def c03(tier):
    rep = Report("C03", tier)
    wd = vlib.workdir("C03", tier)
    vlib.build_harness()
    r = vlib.tlc_mc("MC_Open.tla", "MC_Open.cfg", wd, timeout=600)
    rep.add_mc(r, "MC_Open.cfg")
    if r["error"]:
        rep.spec_violation(r, "MC_Open.cfg")
    r = vlib.tlc_mc("MC_Open.tla", "MC_Open_no_too_small_guard.cfg", wd, timeout=300, tag="mc-open-mutant")
    found = bool(r["error"]) and "LocateFaithful" in r["error"]
    rep.neg_controls.append({"spec_mutant": "no_too_small_guard", "expected_violation": "LocateFaithful", "found": found})
    if not found:
        raise ToolTrouble("spec mutant no_too_small_guard not detected")
    if tier == "thorough":
        # LocateFaithful for unbounded archives at the real limits (Apalache/SMT); without the record-too-small guard it must be refuted
        ok, tail = apalache("LocateProof.tla", ["--init=AnyInit", "--inv=LocateFaithful", "--length=0"], wd, "locateproof")
        if not ok:
            log(tail)
            raise ToolTrouble("Apalache did not discharge LocateProof!LocateFaithful")
        bad, tail = apalache("LocateProof.tla", ["--init=AnyInit", "--inv=NoGuardFaithful", "--length=0"], wd, "locateproof-neg")
        if bad or "Checker has found an error" not in tail:
            log(tail)
            raise ToolTrouble("Apalache did not refute LocateProof!NoGuardFaithful")
        rep.neg_controls.append({"spec_mutant": "LocateProof without the record-too-small guard", "expected_violation": "NoGuardFaithful", "found": True})
        rep.notes["apalache_obligations"] = {"obligations": 1, "discharged": 1, "spec": "LocateProof.tla (LocateFaithful for all naturals p, b, s, n, c, g at the real 16/32-bit limits)"}
    sd = vlib.seed()
    rnd = random.Random(sd * 9176 + 3)
    # spec -> impl: every tail shape of the model (those realisable below 4 GiB), materialised
    cases = tail_cases(wd, tier == "quick")
    seen = set()
    scs = []
    for T in cases:
        key = (T["p"], T["n"], T["c"], T["g"], T["z"], T["sent"], T.get("dsent", False))      # b, s are 32-bit classes: model-level only
        if key in seen:
            continue
        seen.add(key)
        if T["n"] >= 2:
            continue        # entry counts at the 16-bit limit: realised under C08 (aggregated events)
        scs.append(gen_reader.from_tail_case("t%04d" % len(scs), T, 5, 2, rnd))
    rep.notes["tail_cases_model"] = len(cases)
    rep.notes["tail_cases_materialised"] = len(scs)
    run_reader_scenarios(rep, wd, scs, "tails")
    # dense sweeps of the size-like parameters of a tail: EVERY prepended length 0..8400 (two 4 KiB blocks and every residue of the
    # small powers of two) in front of an archive with and without ZIP64 end records, and trailing bytes behind the comment
    import refzip
    sw = []
    for z in (False, True):
        ents = [{"name": b"sweep/one.txt", "method": 8, "data": b"swept " * 50}, {"name": b"sweep/two", "method": 0, "data": b"2" * 33, "z64": {"off"} if z else set()}]
        b, v = refzip.build({"entries": ents, "z64end": z, "comment": b"sweep"})
        top = 8400 if tier == "quick" else 70000
        d = {"sc": "sweep-prefix-%d" % z, "hex": b.hex(), "expect": gen_reader.expect_of(v), "sweep": {"prefix": [0, top, 1]}}
        if not z:
            d["sweep"]["trailing"] = [0, 600, 1]
            sw.append({"sc": "sweep-trailing-far", "hex": b.hex(), "expect": gen_reader.expect_of(v),
                       "sweep": {"trailing": [65535 - 5 - 40, 65535 - 5 + 3, 1] if tier == "quick" else [600, 65535, 13]}})
        sw.append(d)
    # every method CODE a header may carry (quick: 0..300, the registered codes, powers of two and their neighbours, every 97th;
    # thorough: 0..4095 and every 7th): an entry of a method this build cannot decode is refused one by one - the archive opens, the
    # other entries read, the raw bytes stay available, the reported method is the code in the header (ZipOpen!OpenDecision)
    codes = set(range(0, 301 if tier == "quick" else 4096)) | {1 << k for k in range(16)} | {(1 << k) - 1 for k in range(1, 17)} | {(1 << k) + 1 for k in range(1, 16)}
    codes |= set(range(0, 65536, 97 if tier == "quick" else 7)) | {14, 18, 19, 20, 93, 94, 95, 96, 97, 98, 65535}
    codes.discard(99)        # (99 announces WinZip-AES and needs its extra record: the AES families)
    codes = sorted(codes)
    for k in range(0, len(codes), 200):
        ents = [{"name": b"m/%05d" % c, "method": c, "data": b"method %d " % c * 3} for c in codes[k:k + 200]]
        for e in ents:
            if e["method"] == 93:
                e["zframes"] = 1
        d = {"entries": ents}
        gen_reader.resolve_zstd([d], vlib.BIN)
        b, v = refzip.build(d)
        sw.append({"sc": "methods-%05d" % k, "hex": b.hex(), "expect": gen_reader.expect_of(v), "max_entries": 400, "method_table": k == 0})
    rep.notes["method_codes"] = len(codes)
    run_reader_scenarios(rep, wd, sw, "sweeps", neg_control=False)
    rep.notes["sweep_events"] = sum(1 for e in vlib.read_ndjson(os.path.join(wd, "sweeps-trace.ndjson")) if e.get("ev") == "RSweep")
    # ExtraWalk.tla: the reader's walk over an extra field at BYTE granularity (cursor on record boundaries, every ZIP64 value and the AE-x
    # record understood; five mutants refuted) and every field of that model - well formed or not - as the central extra field of a real
    # entry of the independent builder, opened by the real reader (well-formed ones must read back exactly; none may panic)
    mc_extrawalk(rep, wd)
    xw = extrawalk_cases(wd)
    wf = [c for c in xw if c["wf"]]
    mal = [c for c in xw if not c["wf"]]
    rep.notes["extrawalk_fields"] = {"model": len(xw), "well_formed": len(wf)}
    if tier == "quick":
        wf = rnd.sample(wf, min(len(wf), 2500))
        mal = rnd.sample(mal, min(len(mal), 1500))
    run_reader_scenarios(rep, wd, [extrawalk_reader_scenario("xw%05d" % i, c, i) for i, c in enumerate(wf + mal)], "extrawalk", neg_control=False)
    # Producer.tla: the field-level reader model decodes every layout an independent producer may emit (ReaderFaithful; seven
    # reader mutants found); every realisable archive of the one-entry model, and of the two-entry model (quick: a seeded sample),
    # is materialised by the independent builder and opened by the real reader
    mc_producer(rep, wd, tier)
    pc1 = producer_cases(wd, "MC_Producer1.cfg", "emit-p1")
    pc2 = producer_cases(wd, "MC_Producer2.cfg" if tier == "thorough" else "MC_Producer2_tiny.cfg", "emit-p2")
    rep.notes["producer_cases_model"] = {"one_entry": len(pc1), "two_entries": len(pc2)}
    if tier == "quick":
        pc2 = rnd.sample(pc2, min(len(pc2), 1500))
    scs = [gen_reader.from_producer_case("q%05d" % i, A) for i, A in enumerate(pc1 + pc2)]
    rep.notes["producer_cases_materialised"] = len(scs)
    run_reader_scenarios(rep, wd, scs, "producer-model")
    # where the end record sits: every small comment length, and lengths that put it at / just past every power-of-two
    # alignment (the backward search must find it wherever it is), with and without prepended bytes
    scs = []
    for ln in comment_lengths():
        d = {"entries": [{"name": b"c.txt", "method": 0, "data": b"comment sweep"}], "comment": bytes(0x63 + (i % 7) for i in range(ln))}
        if ln % 3 == 0:
            d["prefix"] = b"#" * (ln % 50)
        scs.append(gen_reader.scenario("cl%05d" % ln, d)[0])
    # an end-record signature inside the LAST 21 bytes of the file (in the comment, or in garbage behind it) cannot start an end
    # record - there is no room for one - so it is not the format's inherent ambiguity: the real end record must still be found
    for j in range(0, 18):
        tail = b"PK\x05\x06" + b"t" * j
        scs.append(gen_reader.scenario("sigc%02d" % j, {"entries": [{"name": b"s.txt", "method": 8, "data": b"signature in the comment tail " * 3}],
                                                       "comment": b"c" * (j % 5) + tail})[0])
        scs.append(gen_reader.scenario("sigg%02d" % j, {"entries": [{"name": b"s.txt", "method": 0, "data": b"signature in trailing bytes"}],
                                                       "comment": b"cm", "trailing": tail[:21]})[0])
    rep.notes["comment_length_cases"] = len(scs)
    run_reader_scenarios(rep, wd, scs, "comment-lengths", neg_control=False)
    # independent producer with every per-entry freedom; CPython as a second producer
    n = 600 if tier == "quick" else 6000
    scs = []
    descs = [gen_reader.rand_archive(rnd) for _ in range(n)]
    # zstd entries: one or several frames per payload, skippable frames in between (multi-frame streams are part of the format)
    descs += [{"entries": [{"name": b"zf-%d-%d" % (k, f), "method": 93, "data": gen_reader.payload(rnd) or b"z", "zframes": f, "zskip": bool(k % 2)} for f in (1, 2, 3)]}
              for k in range(4)]
    gen_reader.resolve_zstd(descs, vlib.BIN)
    rep.notes["zstd_entries_from_independent_producer"] = sum(1 for d in descs for e in d["entries"] if e.get("method") == 93)
    for i, d in enumerate(descs):
        s, v = gen_reader.scenario("p%05d" % i, d)
        if i % 3 == 0:      # the source returns short reads: nothing the reader reports (entries, comment, offsets) may depend on it
            s["under"] = rnd.choice([{"max": 1}, {"max": 3}, {"max": 7}, {"max": 100}, {"list": [1, 5, 2]}, {"list": [4096, 1]}])
        scs.append(s)
    for i in range(n // 8):
        kind = ["plain", "dd", "z64", "fcomment"][i % 4]
        b = cpython_base(rnd, kind)
        import zipfile, io
        zf = zipfile.ZipFile(io.BytesIO(b))
        exp = [{"len": zi.file_size, "crc": "%08x" % zi.CRC} for zi in zf.infolist()]
        scs.append({"sc": "py%05d-%s" % (i, kind), "hex": b.hex(), "expect": exp})
    run_reader_scenarios(rep, wd, scs, "producer")
    return rep.finish("model_checking",
                      "MC_Open: LocateFaithful over all abstract archive tails (prefix x sizes x count x comment x garbage x ZIP64 "
                      "records x sentinels) at scaled limits; every realisable tail shape and seeded random archives of an independent "
                      "producer (data-descriptor styles, forced ZIP64 subsets/order, differing local/central extras, file comments, "
                      "made-by systems, attribute words, CP437/UTF-8/invalid-UTF-8 names, duplicates, central order != local order, gaps, "
                      "prefix, trailing garbage, unsupported methods) and CPython zipfile archives are opened by the real reader; "
                      "the archive view, every accessor, name lookup, absent/out-of-range lookups and decoded content are validated "
                      "against ZipOpen!View of the independently lexed layout",
                      assumptions=["payloads/comments avoid embedded record signatures", "32-bit-limit tail classes are model-level here (C08 realises them)"])


def c19(tier):
    import refzip
    rep = Report("C19", tier)
    wd = vlib.workdir("C19", tier)
    vlib.build_harness()
    r = vlib.tlc_mc("MC_Encoding.tla", "MC_Encoding.cfg", wd, timeout=600)
    rep.add_mc(r, "MC_Encoding.cfg")
    if r["error"]:
        rep.spec_violation(r, "MC_Encoding.cfg")
    sd = vlib.seed()
    rnd = random.Random(sd * 7907 + 19)
    # exhaustive: every byte value x flag x position x field
    cases = []
    for flag in (False, True):
        for pos in ("first", "middle", "last"):
            for bv in range(256):
                x = bytes([bv])
                s = {"first": x + b"tail", "middle": b"he" + x + b"ad", "last": b"head" + x}[pos]
                cases.append((flag, s))
    # multi-byte sequences: valid UTF-8 without the flag (must still be CP437), with the flag, truncated
    # and overlong forms, surrogates, and random byte strings
    samples = ["café".encode(), "日本語".encode(), "\U0001F600".encode(), b"caf\xc3", b"\xe2\x82", b"\xc0\xaf", b"\xed\xa0\x80",
               b"\xf4\x90\x80\x80", b"\xef\xbf\xbd", b"\xc3\xa9\xc3\xa9", "ünï/cödé.txt".encode(), b"\x80\x81\xfe\xff", b""]
    for s in samples:
        cases += [(False, s), (True, s)]
    nrand = 300 if tier == "quick" else 6000
    for _ in range(nrand):
        n = rnd.choice([1, 2, 3, 5, 17, 64, 300])
        if rnd.random() < 0.5:
            s = bytes(rnd.randrange(256) for _ in range(n))
        else:
            s = "".join(chr(rnd.choice([rnd.randrange(32, 127), rnd.randrange(0xA0, 0x800), rnd.randrange(0x800, 0xD800),
                                        rnd.randrange(0x10000, 0x10FFFF)])) for _ in range(n)).encode()[:400]
        cases.append((rnd.random() < 0.5, s))
    scs = []
    per = 48
    for i in range(0, len(cases), per):
        ents = []
        for k, (flag, s) in enumerate(cases[i:i + per]):
            # names stay distinct through a numeric prefix directory that is pure ASCII
            ents.append({"name": b"%d/" % k + s, "utf8": flag, "method": 0, "data": b"x", "fcomment": s})
            # Info-ZIP "Unicode Path" / "Unicode Comment" records (0x7075 / 0x6375) may accompany a name; whether their checksum
            # matches the header name or is stale, the name and comment reported are the flag-directed decoding of the HEADER bytes
            if (i + k) % 4 == 1:
                import zlib
                nm_ = ents[-1]["name"]
                good = (i + k) % 8 == 1
                crc_ = (zlib.crc32(nm_) if good else zlib.crc32(b"an older name")) & 0xFFFFFFFF
                up = b"\x01" + crc_.to_bytes(4, "little") + ("unicode-path-%d-é" % k).encode()
                uc = b"\x01" + (zlib.crc32(s) & 0xFFFFFFFF).to_bytes(4, "little") + "unicode comment ü".encode()
                ents[-1]["cextra"] = [(0x7075, up), (0x6375, uc)]
                if (i + k) % 3:
                    ents[-1]["lextra"] = [(0x7075, up)]
            # name and comment are decoded independently of each other's content: a pure-ASCII name with this comment,
            # and this name with a pure-ASCII comment
            if (i + k) % (1 if tier == "thorough" else 3) == 0:
                ents.append({"name": b"%d/ascii-name" % k, "utf8": flag, "method": 0, "data": b"y", "fcomment": s})
                ents.append({"name": b"%d/n/" % k + s, "utf8": flag, "method": 0, "data": b"z", "fcomment": b"ascii comment"})
        b, v = refzip.build({"entries": ents, "comment": b"c19"})
        scs.append({"sc": "d%05d" % i, "hex": b.hex(), "expect": gen_reader.expect_of(v), "decode": True, "max_entries": 200})
    rep.notes["decode_cases"] = len(cases)
    run_reader_scenarios(rep, wd, scs, "decode")
    # the decoded names survive an append round: the rewritten directory must denote the same strings (the stored bytes may be
    # transcoded to UTF-8 with the flag set, but never CP437 bytes under the UTF-8 flag or the reverse)
    aps = []
    pick = scs[:3] + scs[len(scs) // 2:len(scs) // 2 + 2] + scs[-3:] if tier == "quick" else scs
    for j, d in enumerate(pick):
        aps.append({"sc": "ap-%s" % d["sc"], "max_entries": 200, "ops": [
            {"op": "Load", "hex": d["hex"]}, {"op": "NewAppend", "arch": 0},
            {"op": "StartFile", "name": "appended-é-%d" % j, "method": 8}, {"op": "Write", "data": "new entry"}, {"op": "Finish"}]})
    run_writer_programs(rep, wd, aps, "append-names", neg_control=False)
    # writer side: any Rust string is stored as the same UTF-8 bytes, flagged iff non-ASCII, and read back equal
    g = gen_writer.Gen(sd * 31 + 19, tier)
    ws = []
    for i in range(40 if tier == "quick" else 800):
        ops = [{"op": "New"}]
        for _ in range(6):
            nm = "".join(chr(rnd.choice([rnd.randrange(1, 127), rnd.randrange(0xA0, 0x800), rnd.randrange(0x800, 0xD800),
                                         rnd.randrange(0xE000, 0xFFFE), rnd.randrange(0x10000, 0x10FFFF)])) for _ in range(rnd.randint(1, 20)))
            # (writer options must not interfere with the name's encoding flag: encryption, large_file, other methods)
            o = {"op": "StartFile", "name": nm, "method": rnd.choice([0, 0, 8, 93])}
            if rnd.random() < 0.3:
                o["enc"] = "pw"
            if rnd.random() < 0.2:
                o["large"] = True
            ops.append(o)
            ops.append({"op": "Write", "data": "z"})
        if rnd.random() < 0.3:
            ops.append({"op": "AddDir", "name": "".join(chr(rnd.randrange(0xA0, 0x800)) for _ in range(4)), "method": 0})
        ops.append({"op": "Finish"})
        sc_ = {"sc": "wn%05d" % i, "ops": ops}
        if i % 3 == 2:      # a sink that accepts only a few bytes per write: the stored name must arrive whole all the same
            sc_["short_w_max"] = rnd.choice([1, 3, 7, 45, 46, 47])
        ws.append(sc_)
    # non-ASCII names in headers of more than 64 KiB (name and extra field each representable, together beyond 65 535 bytes)
    for j, (nlen, xlen) in enumerate([(40000, 30004), (65534, 60000)]):
        ws.append({"sc": "wn-long%d" % j, "ops": [{"op": "New"}, {"op": "StartFileExtra", "name": {"rep": "é", "n": nlen}, "method": 8},
                                                   {"op": "WriteExtra", "recs": [{"id": 0xbeef, "dsz": xlen - 4}]}, {"op": "EndExtra"}, {"op": "Write", "data": "z"},
                                                   {"op": "StartFile", "name": "ü-after", "method": 0}, {"op": "Write", "data": "y"}, {"op": "Finish"}]})
    run_writer_programs(rep, wd, ws, "writer-names", neg_control=False)
    return rep.finish("model_checking",
                      "MC_Encoding: laws of the decoding operators over all 1- and 2-byte strings; binding: every byte value x flag x "
                      "position {first, middle, last} x field {name, file comment}, multi-byte valid/invalid UTF-8 with and without the "
                      "flag, random byte and Unicode strings, in archives of the independent builder; the trace spec computes the "
                      "required string itself (Cp437Table from CPython's codec; UTF-8 decoder written in TLA+; std's lossy result only "
                      "for invalid UTF-8) and compares code point by code point; raw-name accessor must return the stored bytes; writer "
                      "side: random Rust strings stored/flagged/read back (Trace_Writer)",
                      assumptions=["Cp437Table is reference data (CPython cp437 codec)", "strings in TLA+-decided cases are <= 512 bytes"])


# ------------------------------------------------------------------ entry-read family
def run_eread_scenarios(rep, wd, scenarios, label, neg_control=True):
    progs = os.path.join(wd, label + "-scenarios.ndjson")
    trace = os.path.join(wd, label + "-trace.ndjson")
    vlib.write_ndjson(progs, scenarios)
    vlib.run_harness(["eexec", progs, trace])
    res = vlib.validate_segments("Trace_EntryRead.tla", "Trace_EntryRead.cfg", trace, wd, tag=label)
    by_sc = {s["sc"]: {"sc": s["sc"], "hex": s["hex"] if len(s["hex"]) < 200000 else "(omitted)", "reads": s["reads"],
                       "dmg": s.get("dmg"), "note": s.get("note")} for s in scenarios}
    rep.add_tv(res, by_sc, label)
    evs = vlib.read_ndjson(trace)
    counts = rep.notes.setdefault("events_by_call", {})
    for e in evs:
        counts[e.get("ev", "?")] = counts.get(e.get("ev", "?"), 0) + 1
    stats = rep.notes.setdefault("read_outcomes", {})
    for e in evs:
        if e.get("ev") == "EOpen":
            k = "open:%s:%s:%s" % (e.get("via"), e.get("dmg"), e.get("r"))
            stats[k] = stats.get(k, 0) + 1
        if e.get("ev") == "EEnd":
            k = "end:" + ("failed" if e.get("failed") else "eof-ok")
            stats[k] = stats.get(k, 0) + 1
    for s in scenarios:
        rep.evaluations += len(s["reads"])
        for q in s["reads"]:
            rep.distinct.add(vlib.digest([s["hex"][:4000], q]))
    if not rep.samples and scenarios:
        rep.samples.append({"scenario": scenarios[0]["sc"], "reads": scenarios[0]["reads"][:3]})
    rejected = {r["sc"] for r in res["rejections"]}
    if neg_control:
        for s in scenarios:
            if s["sc"] in rejected:
                continue
            seg = [e for e in evs if e.get("sc") == s["sc"]]
            ends = [i for i, e in enumerate(seg) if e.get("ev") == "EEnd" and e.get("eof") and not e.get("failed")]
            if not ends:
                continue

            def mutate(es, k=ends[0]):
                es[k]["crc"] = "%08x" % (int(es[k]["crc"], 16) ^ 0x10)
                return "EEnd[%d].crc perturbed in accepted scenario %s" % (k, s["sc"])

            nc = vlib.corrupt_and_expect_reject("Trace_EntryRead.tla", "Trace_EntryRead.cfg", seg, wd, mutate, tag=label + "-neg")
            if nc:
                rep.neg_controls.append(nc)
                if not nc["rejected"]:
                    raise ToolTrouble("negative control did not fire: " + nc["mutation"])
            break
    return res


def mc_entryread(rep, wd, tier, proof=None):
    r = vlib.tlc_mc("EntryRead.tla", "MC_EntryRead.cfg", wd, timeout=300, tag="mc-er")
    rep.add_mc(r, "MC_EntryRead.cfg")
    if r["error"]:
        rep.spec_violation(r, "MC_EntryRead.cfg")
    # spec mutants: the checker must find each known-bad variant (non-vacuity of the invariants)
    want = {"cipher_buf": "CipherSync", "no_mac": "MacAtEnd", "no_crc": "EofIntegrity", "zero_read_skips_crc": "EofIntegrity", "no_drain_at_end": "MacAtEnd"}
    for bug, inv in want.items():
        if tier == "quick" and bug not in ("cipher_buf", "zero_read_skips_crc", "no_drain_at_end"):
            continue
        r = vlib.tlc_mc("EntryRead.tla", "MC_EntryRead_%s.cfg" % bug, wd, timeout=300, tag="mc-er-" + bug)
        found = bool(r["error"]) and inv in r["error"]
        rep.neg_controls.append({"spec_mutant": bug, "expected_violation": inv, "found": found})
        if not found:
            raise ToolTrouble("spec mutant %s not detected" % bug)
    if (tier == "thorough") if proof is None else proof:
        # the same invariants for entries of ANY length under ANY read schedule: inductive invariant, Apalache/SMT
        obl = [("initiation", ["--cinit=CInit", "--init=Init", "--inv=IndInv", "--length=0"]),
               ("consecution", ["--cinit=CInit", "--init=IndInit", "--next=PNext", "--inv=IndInv", "--length=1"]),
               ("IndInv implies the invariants", ["--cinit=CInit", "--init=IndInit", "--inv=Implied", "--length=0"])]
        for name, args in obl:
            ok, tail = apalache("EntryReadProof.tla", args, wd, "erproof")
            if not ok:
                log(tail)
                raise ToolTrouble("Apalache did not discharge EntryReadProof: " + name)
        bad, tail = apalache("EntryReadProof.tla", ["--cinit=CInitNoMac", "--init=IndInit", "--next=PNext", "--inv=IndInv", "--length=1"], wd, "erproof-neg")
        if bad or "Checker has found an error" not in tail:
            log(tail)
            raise ToolTrouble("Apalache did not refute consecution under BUG = no_mac")
        rep.neg_controls.append({"spec_mutant": "EntryReadProof consecution with BUG = no_mac", "expected_violation": "IndInv", "found": True})
        rep.notes["apalache_obligations"] = {"obligations": 3, "discharged": 3, "spec": "EntryReadProof.tla (IndInv inductive for payload lengths, buffer sizes and short-read choices over all naturals; "
                                             "IndInv => CipherSync, MacAtEnd, EofIntegrity, TamperDetected, Accounting)"}


def crc_hex(b):
    import zlib
    return "%08x" % (zlib.crc32(b) & 0xFFFFFFFF)


def read_seeds(rnd, small=True):
    """seed archives from the independent builder: (name, bytes, view, passwords)"""
    import refzip
    txt = b"The quick brown fox jumps over the lazy dog. " * (2 if small else 40)
    rb = bytes(rnd.randrange(256) for _ in range(40 if small else 3000))
    seeds = []
    seeds.append(("plain", {"entries": [
        {"name": b"stored.bin", "method": 0, "data": rb},
        {"name": b"deflate.txt", "method": 8, "data": txt},
        {"name": b"bzip2.txt", "method": 12, "data": txt},
        {"name": b"empty", "method": 0, "data": b""}]}, []))
    # names that end in a separator say "directory" to is_dir(); the bytes and the declared CRC are entry data all the same
    seeds.append(("dirnamed", {"entries": [
        {"name": b"payload-dir/", "method": 0, "data": rb[:24]},
        {"name": b"payload-bs\\", "method": 8, "data": txt},
        {"name": b"real-dir/", "method": 0, "data": b""}]}, []))
    seeds.append(("zc", {"entries": [
        {"name": b"zc-stored", "method": 0, "data": rb, "enc": ("zc", b"pass")},
        {"name": b"zc-deflate", "method": 8, "data": txt, "enc": ("zc", b"pass")},
        {"name": b"zc-dd", "method": 8, "data": txt, "enc": ("zc", b"pass"), "dd": "sig32", "time": 0x7b21}]}, [b"pass"]))
    for ver in (1, 2):
        seeds.append(("ae%d" % ver, {"entries": [
            {"name": b"aes-stored-128", "method": 0, "data": rb, "enc": ("aes", ver, 1, b"pass")},
            {"name": b"aes-deflate-256", "method": 8, "data": txt, "enc": ("aes", ver, 3, b"pass")},
            {"name": b"aes-stored-192-17", "method": 0, "data": rb[:17], "enc": ("aes", ver, 2, b"pass")}]}, [b"pass"]))
    # zstd entries (compressed by the harness's zstd helper - CPython has no zstd; one and several frames): the fourth method's own
    # reader arm
    seeds.append(("zstd", {"entries": [
        {"name": b"zstd-one.txt", "method": 93, "data": txt, "zframes": 1},
        {"name": b"zstd-frames.bin", "method": 93, "data": rb + txt, "zframes": 3},
        {"name": b"zstd-empty", "method": 93, "data": b"", "zframes": 1}]}, []))
    gen_reader.resolve_zstd([d for _, d, _ in seeds], vlib.BIN)
    out = []
    for name, d, pws in seeds:
        b, v = refzip.build(d)
        out.append((name, b, v, pws))
    return out


def crate_seeds(wd, rnd):
    """seed archives written by the crate itself (zstd, its own ZipCrypto); the expected content is
    what the harness fed in (validated against the specification by Trace_Writer in C01)"""
    dump = os.path.join(wd, "seeds")
    os.makedirs(dump, exist_ok=True)
    sc = {"sc": "seed", "dump": dump, "ops": [
        {"op": "New"},
        {"op": "StartFile", "name": "zstd.txt", "method": 93}, {"op": "Write", "data": {"len": 600, "seed": 1, "kind": "text"}},
        {"op": "StartFile", "name": "deflate-large", "method": 8, "large": True}, {"op": "Write", "data": {"len": 300, "seed": 2, "kind": "text"}},
        {"op": "StartFile", "name": "crypt", "method": 8, "enc": "pw2"}, {"op": "Write", "data": {"len": 200, "seed": 3, "kind": "text"}},
        {"op": "StartFile", "name": "stored", "method": 0}, {"op": "Write", "data": {"len": 64, "seed": 4, "kind": "rand"}},
        {"op": "AddDir", "name": "dir", "method": 0},
        {"op": "Finish"}]}
    progs = os.path.join(wd, "seed-programs.ndjson")
    trace = os.path.join(wd, "seed-trace.ndjson")
    vlib.write_ndjson(progs, [sc])
    vlib.run_harness(["wexec", progs, trace])
    evs = vlib.read_ndjson(trace)
    path = next(e["path"] for e in evs if e.get("ev") == "Dumped")
    b = open(path, "rb").read()
    exps = [e["content"] for e in evs if e.get("ev") == "Entry"]
    encs = [False, False, True, False, False]
    return b, exps, encs


# caller buffer schedules (cycled) and underlying short-read plans; they include a small read followed by a large one and
# sizes around the 16-byte cipher block (a keystream/block boundary crossed in the middle of a call)
SCHED_BUFS = [[1], [2], [3], [7], [0, 1], [0, 5, 0], [4096], [1, 0, 2, 0, 3], [65536], [5, 1], [5, 4096], [10, 16, 100], [1, 17], [15, 16], [17, 15, 33], [16]]
SCHED_UNDER = [{}, {"max": 1}, {"max": 2}, {"max": 3}, {"max": 7}, {"list": [1, 5, 2]}, {"list": [3, 1]}, {"list": [5, 4096]}, {"list": [3, 16, 1, 64]}, {"max": 16}, {"max": 17}]


def c09(tier):
    rep = Report("C09", tier)
    wd = vlib.workdir("C09", tier)
    vlib.build_harness()
    mc_entryread(rep, wd, tier)
    sd = vlib.seed()
    rnd = random.Random(sd * 6151 + 9)
    scs = []
    seeds = read_seeds(rnd)
    k = 0
    for name, b, v, pws in seeds:
        reads = []
        for i, e in enumerate(v["entries"]):
            exp = {"len": len(e["data"]), "crc": crc_hex(e["data"])}
            enc = e["enc"] is not None
            combos = [(bf, un) for bf in SCHED_BUFS for un in SCHED_UNDER]
            if tier == "quick":
                combos = rnd.sample(combos, 14)
            for bf, un in combos:
                q = {"i": i, "via": "seek", "bufs": bf, "under": un, "exp": exp}
                if enc:
                    q["pw"] = pws[0].hex()
                    q["pwkind"] = "right"
                reads.append(q)
                if not enc and not (e["flags"] & 8):
                    reads.append({"i": i, "via": "stream", "bufs": bf, "under": un, "exp": exp})
            for api in ("read_to_end", "read_to_end0", "copy", "read_exact", "bytes", "sniff_read_to_end", "sniff_copy", "sniff_read_exact", "read_vectored"):
                q = {"i": i, "via": "seek", "bufs": [4096], "under": rnd.choice(SCHED_UNDER), "exp": exp, "api": api}
                if enc:
                    q["pw"] = pws[0].hex()
                    q["pwkind"] = "right"
                reads.append(q)
        scs.append({"sc": "s-%s" % name, "hex": b.hex(), "reads": reads})
        # one short read at every byte position of the archive (exhaustive for the small seeds)
        step = 1 if (tier == "thorough" or name in ("plain", "zc")) else 3
        for j in range(0, len(b), step):
            reads = []
            for i, e in enumerate(v["entries"]):
                exp = {"len": len(e["data"]), "crc": crc_hex(e["data"])}
                q = {"i": i, "via": "seek", "bufs": [4096], "under": {"at": j}, "exp": exp}
                if e["enc"] is not None:
                    q["pw"] = pws[0].hex()
                    q["pwkind"] = "right"
                reads.append(q)
                if e["enc"] is None and not (e["flags"] & 8) and i == 0:
                    reads.append({"i": len(v["entries"]) - 1, "via": "stream", "bufs": [4096], "under": {"at": j},
                                  "exp": {"len": len(v["entries"][-1]["data"]), "crc": crc_hex(v["entries"][-1]["data"])}})
            scs.append({"sc": "at-%s-%05d" % (name, j), "hex": b.hex(), "reads": reads})
    cb, cexp, cenc = crate_seeds(wd, rnd)
    reads = []
    for i, exp in enumerate(cexp):
        for bf, un in rnd.sample([(bf, un) for bf in SCHED_BUFS for un in SCHED_UNDER], 12 if tier == "quick" else 70):
            q = {"i": i, "via": "seek", "bufs": bf, "under": un, "exp": exp}
            if cenc[i]:
                q["pw"] = b"pw2".hex()
                q["pwkind"] = "right"
            elif not any(cenc[:i]):      # a stream cannot get past an encrypted entry
                reads.append({"i": i, "via": "stream", "bufs": bf, "under": un, "exp": exp})
            reads.append(q)
    scs.append({"sc": "s-crate", "hex": cb.hex(), "reads": reads})
    run_eread_scenarios(rep, wd, scs, "sched")
    # writer side: the finished bytes do not depend on how the sink accepts writes
    base = [{"op": "StartFile", "name": "a", "method": 8}, {"op": "Write", "data": {"len": 500, "seed": 1, "kind": "text"}, "split": 7},
            {"op": "StartFile", "name": "b/é", "method": 0, "large": True}, {"op": "Write", "data": {"len": 90, "seed": 2, "kind": "rand"}},
            {"op": "StartFile", "name": "c", "method": 8, "enc": "k"}, {"op": "Write", "data": {"len": 70, "seed": 3, "kind": "text"}},
            {"op": "StartFileAligned", "name": "al", "method": 0, "align": 64}, {"op": "Write", "data": "aligned"},
            {"op": "AddDir", "name": "d", "method": 0}, {"op": "AddSymlink", "name": "l", "target": "a", "method": 0},
            {"op": "SetComment", "c": "done"}, {"op": "Finish"}]
    ws = []
    total = 900
    points = list(range(0, total, 1 if tier == "thorough" else 9))
    for grp in range(0, len(points), 8):
        ops = [{"op": "New"}] + base
        for n, j in enumerate(points[grp:grp + 8]):
            ops += [{"op": "New", "short_w_at": j}] + base + [{"op": "Compare", "a": 0, "b": n + 1}]
        ws.append({"sc": "sw-at-%04d" % grp, "ops": ops})
    for m in (1, 2, 3, 7, 100):
        ops = [{"op": "New"}] + base + [{"op": "New", "short_w_max": m}] + base + [{"op": "Compare", "a": 0, "b": 1}]
        ws.append({"sc": "sw-max-%d" % m, "ops": ops})
    # append rounds through a short-writing sink - in particular the round whose rewritten directory + end records are SHORTER than
    # the old ones (a long comment replaced by a short one), where the writer fills the difference with zero bytes first
    first = [{"op": "New"}, {"op": "StartFile", "name": "old", "method": 8}, {"op": "Write", "data": {"len": 300, "seed": 5, "kind": "text"}},
             {"op": "SetComment", "c": {"rep": "long comment ", "n": 5000}}, {"op": "Finish"}]
    for more in ([], [{"op": "StartFile", "name": "new", "method": 0}, {"op": "Write", "data": "appended"}]):
        rnd_round = more + [{"op": "SetComment", "c": "short"}, {"op": "Finish"}]
        ops = first + [{"op": "NewAppend", "arch": 0}] + rnd_round
        cmps = 0
        for opt in ([{"short_w_max": m} for m in (1, 3, 100, 4095, 4097)] + [{"short_w_at": j} for j in (350, 400, 1000, 4500, 5300)]):
            ops += [dict({"op": "NewAppend", "arch": 0}, **opt)] + rnd_round + [{"op": "Compare", "a": 1, "b": 2 + cmps}]
            cmps += 1
        ws.append({"sc": "sw-append-shrink-%d" % len(more), "ops": ops})
    # the caller splitting its writes differently decodes to the same entries
    for sp in (1, 2, 3, 50, 4096):
        ops = [{"op": "New"}]
        for m in (0, 8, 12, 93):
            ops += [{"op": "StartFile", "name": "m%d" % m, "method": m}, {"op": "Write", "data": {"len": 3000, "seed": m + 1, "kind": "text"}, "split": sp}]
        ops.append({"op": "Finish"})
        ws.append({"sc": "split-%d" % sp, "ops": ops})
    ix = gen_writer.interaction_programs(sd * 7919 + 9, "ix", only=lambda row: row["sink"] != "plain")
    rep.notes["interaction_rows"] = len(ix)
    ws += ix
    run_writer_programs(rep, wd, ws, "shortwrite", neg_control=False)
    return rep.finish("model_checking",
                      "MC_EntryRead: CipherSync/MacAtEnd/EofIntegrity/Accounting/ZeroAndSticky over all schedules (buffers {0,1,2,5}, all "
                      "short-read choices, 4 crypto kinds, damage classes) with spec mutants detected; binding: caller buffer schedules x "
                      "underlying short-read plans (uniform 1..7, cyclic lists, ONE short read at every byte position of small archives) on "
                      "stored/deflate/bzip2/zstd, plain/ZipCrypto/AE-1/AE-2 entries through the seekable and the streaming reader; each read() "
                      "is an event: stored entries follow EntryRead.tla's pipeline exactly (its invariants are evaluated on the real run), all "
                      "entries must deliver the original bytes and sticky EOF; writer side: one short write at every byte position / capped "
                      "writes give byte-identical archives (Compare events), caller-side splits validated by Trace_Writer",
                      assumptions=["codec crates trusted", "long entries are summarised (final state only)"])


def flip(b, pos, bit):
    x = bytearray(b)
    x[pos] ^= (1 << bit)
    return bytes(x)


def streamable(v, i):
    return all(e["enc"] is None and not (e["flags"] & 8) for e in v["entries"][:i + 1])


def c04(tier):
    rep = Report("C04", tier)
    wd = vlib.workdir("C04", tier)
    vlib.build_harness()
    mc_entryread(rep, wd, tier)
    sd = vlib.seed()
    rnd = random.Random(sd * 3571 + 4)
    seeds = read_seeds(rnd)
    scs = []
    budget = 4000 if tier == "quick" else 60000
    sites = []
    for name, b, v, pws in seeds:
        for i, e in enumerate(v["entries"]):
            for pos in range(e["dstart"], e["dstart"] + e["csize"]):
                for bit in range(8):
                    sites.append((name, i, "data", pos, bit))
            for kind, base in (("ccrc", e["chs"] + 16), ("lcrc", e["hdr"] + 14)):
                for pos in range(base, base + 4):
                    for bit in range(8):
                        sites.append((name, i, kind, pos, bit))
    crcsites = [s for s in sites if s[2] != "data"]
    datasites = [s for s in sites if s[2] == "data"]
    if tier == "quick":
        chosen = rnd.sample(crcsites, min(len(crcsites), 500)) + rnd.sample(datasites, min(len(datasites), budget - 500))
    else:
        chosen = crcsites + (datasites if len(datasites) < budget else rnd.sample(datasites, budget))
    byname = {n: (b, v, p) for n, b, v, p in seeds}
    for (name, i, site, pos, bit) in chosen:
        b, v, pws = byname[name]
        e = v["entries"][i]
        exp = {"len": len(e["data"]), "crc": crc_hex(e["data"])}
        reads = []
        bf = rnd.choice(SCHED_BUFS)
        q = {"i": i, "via": "seek", "bufs": bf, "under": rnd.choice(SCHED_UNDER), "exp": exp,
             "dmg": {"data": "data", "ccrc": "crc", "lcrc": "none"}[site]}
        if e["enc"] is not None:
            q["pw"] = pws[0].hex()
            q["pwkind"] = "right"
        reads.append(q)
        if streamable(v, i):
            reads.append({"i": i, "via": "stream", "bufs": rnd.choice(SCHED_BUFS), "under": rnd.choice(SCHED_UNDER), "exp": exp,
                          "dmg": {"data": "data", "ccrc": "none", "lcrc": "crc"}[site]})
        # the other std ways of reading to the end go through the same integrity check
        if rnd.random() < 0.5:
            q2 = dict(q, api=rnd.choice(["read_to_end", "read_to_end0", "copy", "read_exact", "bytes", "sniff_read_to_end", "sniff_copy", "read_vectored"]), under={})
            reads.append(q2)
            if streamable(v, i):
                reads.append(dict(reads[1], api=rnd.choice(["read_to_end", "copy", "read_exact", "sniff_read_to_end", "read_vectored"]), under={}))
        scs.append({"sc": "f-%s-%d-%s-%d.%d" % (name, i, site, pos, bit), "hex": flip(b, pos, bit).hex(), "reads": reads,
                    "note": "bit %d of byte %d (%s of entry %d)" % (bit, pos, site, i)})
    # the declared CRC wiped to 0x00000000 (a value some readers treat as "no checksum"), alone and together with data damage
    for name, b, v, pws in seeds:
        for i, e in enumerate(v["entries"]):
            if e["csize"] == 0 or len(e["data"]) == 0:
                continue
            for where, base in (("c", e["chs"] + 16), ("l", e["hdr"] + 14)):
                for also_data in (False, True):
                    x = bytearray(b)
                    x[base:base + 4] = b"\x00\x00\x00\x00"
                    if bytes(x) == b and not also_data:
                        continue
                    if also_data:
                        x[e["dstart"] + e["csize"] // 2] ^= 0x5a
                    exp = {"len": len(e["data"]), "crc": crc_hex(e["data"])}
                    dm_seek = "data" if also_data else ("crc" if where == "c" else "none")
                    dm_stream = "data" if also_data else ("crc" if where == "l" else "none")
                    q = {"i": i, "via": "seek", "bufs": rnd.choice(SCHED_BUFS), "under": {}, "exp": exp, "dmg": dm_seek}
                    if e["enc"] is not None:
                        q["pw"] = pws[0].hex()
                        q["pwkind"] = "right"
                    reads = [q]
                    if streamable(v, i):
                        reads.append({"i": i, "via": "stream", "bufs": rnd.choice(SCHED_BUFS), "under": {}, "exp": exp, "dmg": dm_stream})
                    scs.append({"sc": "z-%s-%d-%s-%d" % (name, i, where, also_data), "hex": bytes(x).hex(), "reads": reads})
    # multi-byte damage, payloads swapped between entries, truncated payloads
    for n in range(60 if tier == "quick" else 2000):
        name, b, v, pws = rnd.choice(seeds)
        i = rnd.randrange(len(v["entries"]))
        e = v["entries"][i]
        if e["csize"] == 0:
            continue
        x = bytearray(b)
        kind = rnd.choice(["multi", "zero", "swap"])
        if kind == "multi":
            for _ in range(rnd.randint(2, 6)):
                x[e["dstart"] + rnd.randrange(e["csize"])] ^= rnd.randrange(1, 256)
        elif kind == "zero":
            for p in range(e["dstart"] + e["csize"] // 2, e["dstart"] + e["csize"]):
                x[p] = 0
        else:
            j = rnd.randrange(len(v["entries"]))
            o = v["entries"][j]
            m = min(e["csize"], o["csize"])
            if m == 0 or j == i:
                continue
            x[e["dstart"]:e["dstart"] + m], x[o["dstart"]:o["dstart"] + m] = b[o["dstart"]:o["dstart"] + m], b[e["dstart"]:e["dstart"] + m]
        if bytes(x) == b:
            continue
        exp = {"len": len(e["data"]), "crc": crc_hex(e["data"])}
        q = {"i": i, "via": "seek", "bufs": rnd.choice(SCHED_BUFS), "under": {}, "exp": exp, "dmg": "data"}
        if e["enc"] is not None:
            q["pw"] = pws[0].hex()
            q["pwkind"] = "right"
        reads = [q]
        if streamable(v, i):
            reads.append({"i": i, "via": "stream", "bufs": rnd.choice(SCHED_BUFS), "under": {}, "exp": exp, "dmg": "data"})
        scs.append({"sc": "m-%s-%d-%s-%d" % (name, i, kind, n), "hex": bytes(x).hex(), "reads": reads})
    run_eread_scenarios(rep, wd, scs, "damage")
    rep.notes["damage_sites_total"] = len(sites)
    rep.notes["exhaustive_crc_field_bits"] = (tier == "thorough") or len(crcsites) <= 500
    return rep.finish("model_checking",
                      "MC_EntryRead: EofIntegrity/TamperDetected for every damage class, crypto kind and read schedule (spec mutants no_crc and "
                      "zero_read_skips_crc are found); binding: single-bit flips in every entry's data region and in the central and local CRC "
                      "fields of seed archives (stored/deflate/bzip2, plain/ZipCrypto/AE-1/AE-2), multi-byte damage, zeroed tails, payloads "
                      "swapped between entries; each damaged archive is read through the seekable and the streaming reader with caller "
                      "schedules that include zero-length reads; the trace spec rejects any completed read whose CRC differs from the declared "
                      "one (AE-2: from the original bytes) and, for stored entries, any run the EntryRead pipeline cannot explain",
                      assumptions=["a damage that leaves the decoded bytes and CRC intact legitimately succeeds",
                                   "quick samples the data-region bits; thorough enumerates them"])


def crc_with_high_byte(v, rnd, n=24):
    import zlib
    while True:
        d = bytes(rnd.randrange(256) for _ in range(n))
        if (zlib.crc32(d) >> 24) & 0xFF == v:
            return d



def crc_forge(prefix, target):
    """prefix + 4 bytes whose CRC-32 is exactly `target` (backward table walk; verified with zlib)"""
    import zlib
    T = []
    for i in range(256):
        c = i
        for _ in range(8):
            c = (0xEDB88320 ^ (c >> 1)) if c & 1 else (c >> 1)
        T.append(c)
    want = target ^ 0xFFFFFFFF
    cur = (zlib.crc32(prefix) & 0xFFFFFFFF) ^ 0xFFFFFFFF
    new = want
    for _ in range(4):
        j = next(k for k in range(256) if T[k] >> 24 == new >> 24)
        new = (((new ^ T[j]) << 8) & 0xFFFFFFFF) | j
    patch = (new ^ cur).to_bytes(4, "little")
    out = prefix + patch
    assert zlib.crc32(out) & 0xFFFFFFFF == target
    return out

def zc_check(pw, hdr12, want):
    import refzip
    z = refzip.ZipCrypto(pw)
    last = 0
    for cbyte in hdr12:
        p = cbyte ^ z.stream()
        z.update(p)
        last = p
    return last == want


def c15(tier):
    import refzip
    import struct
    rep = Report("C15", tier)
    wd = vlib.workdir("C15", tier)
    vlib.build_harness()
    mc_entryread(rep, wd, tier)
    sd = vlib.seed()
    rnd = random.Random(sd * 2741 + 15)
    # (a) decision table: all 256 check-byte values x {CRC-validated, time-validated (data descriptor)}
    scs = []
    vals = list(range(256))
    per = 16
    for dd in (False, True):
        for g in range(0, 256, per):
            ents, pwq = [], []
            for k, v in enumerate(vals[g:g + per]):
                pw = bytes(rnd.randrange(1, 256) for _ in range(rnd.randint(1, 9)))
                if dd:
                    data = bytes(rnd.randrange(256) for _ in range(20))
                    e = {"name": b"t%03d" % v, "method": rnd.choice([0, 8]), "data": data, "enc": ("zc", pw), "dd": "sig32",
                         "time": (v << 8) | rnd.randrange(256)}
                    if k % 3 == 0:      # an Info-ZIP extended timestamp (UTC, hours away from the DOS time) must not change which byte is checked
                        ts = struct.pack("<BI", 1, 946684800 + 3600 * (v % 24) + 60 * v)
                        e["cextra"] = [(0x5455, ts)]
                        e["lextra"] = [(0x5455, ts)]
                elif v == 0 and g == 0:
                    # a payload whose CRC-32 is exactly 0x00000000: the checksum is a checksum, not "absent"
                    e = {"name": b"c000-zero-crc", "method": 0, "data": crc_forge(b"zero crc payload %d " % rnd.randrange(1000), 0), "enc": ("zc", pw)}
                else:
                    e = {"name": b"c%03d" % v, "method": rnd.choice([0, 8]), "data": crc_with_high_byte(v, rnd), "enc": ("zc", pw)}
                ents.append(e)
            b, view = refzip.build({"entries": ents})
            for k, e in enumerate(view["entries"]):
                pw = ents[k]["enc"][1]
                hdr = b[e["dstart"]:e["dstart"] + 12]
                want = vals[g + k]
                wrong_no, wrong_yes = None, None
                t = 0
                while (wrong_no is None or wrong_yes is None) and t < 20000:
                    cand = b"w%d" % t
                    t += 1
                    if zc_check(cand, hdr, want):
                        wrong_yes = wrong_yes or cand
                    else:
                        wrong_no = wrong_no or cand
                pwq.append({"i": k, "kind": "none", "pw": ""})
                pwq.append({"i": k, "kind": "right", "pw": pw.hex()})
                pwq.append({"i": k, "kind": "wrong", "pw": wrong_no.hex()})
                if wrong_yes:
                    pwq.append({"i": k, "kind": "wrong", "pw": wrong_yes.hex()})      # passes the 1-byte check: must fail on read
                if k % 4 == 0:
                    pwq.append({"i": k, "kind": "right", "pw": pw.hex(), "by_name": ents[k]["name"].decode()})
            scs.append({"sc": "tab-%s-%03d" % ("time" if dd else "crc", g), "hex": b.hex(), "expect": gen_reader.expect_of(view),
                        "pwq": pwq, "pws": [e["enc"][1].hex() for e in ents]})
    # Info-ZIP as a third producer, when installed (incl. its streamed, time-validated variant)
    import shutil, subprocess, tempfile
    if shutil.which("zip"):
        td = tempfile.mkdtemp(dir=wd)
        for k in range(3 if tier == "quick" else 12):
            data = bytes(rnd.randrange(256) for _ in range(rnd.randint(1, 3000)))
            pw = "pw%d" % k
            zp = os.path.join(td, "iz%d.zip" % k)
            if k % 2 == 0:
                with open(os.path.join(td, "f.bin"), "wb") as f:
                    f.write(data)
                subprocess.run(["zip", "-q", "-j", "-P", pw, zp, os.path.join(td, "f.bin")], check=False)
            else:
                subprocess.run(["zip", "-q", "-P", pw, zp, "-"], input=data, check=False)
            if os.path.exists(zp):
                b = open(zp, "rb").read()
                scs.append({"sc": "infozip-%d" % k, "hex": b.hex(), "expect": [{"len": len(data), "crc": crc_hex(data)}], "pws": [pw.encode().hex()],
                            "pwq": [{"i": 0, "kind": "none", "pw": ""}, {"i": 0, "kind": "right", "pw": pw.encode().hex()},
                                    {"i": 0, "kind": "wrong", "pw": b"nope".hex()}]})
        rep.notes["infozip"] = "present"
    else:
        rep.notes["infozip"] = "absent"
    run_reader_scenarios(rep, wd, scs, "table")
    # (b) entries the crate itself encrypts: an independent ZipCrypto (harness lexer) must decrypt them, the plaintext must not
    #     appear in the file, and they must read back (Trace_Writer)
    g = gen_writer.Gen(sd * 17 + 15, tier)
    ws = []
    for i in range(150 if tier == "quick" else 2500):
        ops = [{"op": "New"}]
        for _ in range(g.r.randint(1, 4)):
            if g.r.random() < 0.7:
                pw = g.r.choice(["", "p", {"hex": "00ff80"}, {"len": 1024, "seed": i + 1, "kind": "rand"}, "pässwörd", {"len": g.r.randint(1, 40), "seed": i, "kind": "rand"}])
                o = g.opts(methods=[0, 8, 12, 93])
                o["enc"] = pw
                ops.append(dict(o, op="StartFile", name=g.name()))
                for _ in range(g.r.randint(0, 2)):
                    ops.append({"op": "Write", "data": g.payload()})
            else:
                ops.append(dict(g.opts(), op="StartFile", name=g.name()))
                ops.append({"op": "Write", "data": g.payload()})
        # the password option on the other entry-creating calls: a symlink's target is content and must be encrypted like any other;
        # aligned entries and entries with extra data take the option too
        if i % 4 == 0:
            pw2 = g.r.choice(["sym-pw", "", {"hex": "00ff80"}])
            ops.append(dict(g.opts(), op="AddSymlink", name="link-%d" % i, target="target/of/the/link-%d" % i, enc=pw2))
            ops.append(dict(g.opts(), op="AddDir", name="dir-%d" % i, enc=pw2))
            ops.append(dict(g.opts(methods=[0, 8]), op="StartFileAligned", name="aligned-%d" % i, align=g.r.choice([4, 64, 4096]), enc=pw2))
            ops.append({"op": "Write", "data": g.payload()})
            ops.append(dict(g.opts(methods=[0, 8, 93]), op="StartFileExtra", name="extra-%d" % i, enc=pw2))
            ops += [{"op": "WriteExtra", "recs": [{"id": 0xbeef, "dsz": 5}]}, {"op": "EndExtra"}, {"op": "Write", "data": g.payload()}]
        ops.append({"op": "Finish"})
        sc = {"sc": "enc%05d" % i, "ops": ops}
        if i % 3 == 1:      # a sink that accepts short writes: the encrypted body must still arrive completely
            sc["short_w_max"] = g.r.choice([1, 7, 64, 1000, 4095, 5000])
        ws.append(sc)
    # volume: the cipher's key schedule is 32-bit modular arithmetic driven by every byte; an unchecked '+' in it overflows for about one
    # byte in 3.4e7 - many megabytes of key updates (encrypting, then decrypting) make such states certain to be visited
    vol = (96 << 20) if tier == "quick" else (768 << 20)
    ws.append({"sc": "enc-volume", "ops": [{"op": "New"}, {"op": "StartFile", "name": "volume.bin", "method": 0, "enc": "volume-pw"},
                                            {"op": "Write", "data": {"len": vol, "seed": sd + 15, "kind": "rand"}, "split": 1 << 20},
                                            {"op": "StartFile", "name": "after", "method": 8, "enc": "volume-pw"}, {"op": "Write", "data": "after the volume"}, {"op": "Finish"}]})
    run_writer_programs(rep, wd, ws, "crate-encrypts", referees=True)
    # (c) reading under schedules with the right / a wrong / no password
    es = []
    for name, b, v, pws in read_seeds(rnd):
        if name != "zc":
            continue
        reads = []
        for i, e in enumerate(v["entries"]):
            exp = {"len": len(e["data"]), "crc": crc_hex(e["data"])}
            for bf, un in rnd.sample([(bf, un) for bf in SCHED_BUFS for un in SCHED_UNDER], 10):
                reads.append({"i": i, "via": "seek", "bufs": bf, "under": un, "exp": exp, "pw": pws[0].hex(), "pwkind": "right"})
                reads.append({"i": i, "via": "seek", "bufs": bf, "under": un, "exp": exp, "pw": b"Pass".hex(), "pwkind": "wrong"})
        es.append({"sc": "zc-sched", "hex": b.hex(), "reads": reads})
    run_eread_scenarios(rep, wd, es, "zc-reads")
    return rep.finish("model_checking",
                      "ZipOpen!OpenDecision (password table) + EntryRead!CipherSync model-checked; binding: all 256 check-byte values x "
                      "{CRC-validated, time-validated/data-descriptor} entries from the independent builder's own ZipCrypto, each opened with no "
                      "password, the right one, a wrong one that fails the check byte and a wrong one that passes it (must then fail on read); "
                      "Info-ZIP zip -P archives when installed; entries encrypted by the crate (empty, binary, 1 KiB, non-ASCII passwords; all "
                      "methods) are decrypted by the harness's independent implementation (and CPython/unzip as referees), must differ from the "
                      "plaintext in the file and read back; reads under short-read schedules with right and wrong passwords",
                      assumptions=["the key schedule itself is checked by agreement of three implementations (crate, harness, refzip/CPython/Info-ZIP), not by the spec"])


def c16(tier):
    import refzip
    rep = Report("C16", tier)
    wd = vlib.workdir("C16", tier)
    vlib.build_harness()
    mc_entryread(rep, wd, "thorough", proof=(tier == "thorough"))
    sd = vlib.seed()
    rnd = random.Random(sd * 1999 + 16)
    combos = [(ver, st, m, ln) for ver in (1, 2) for st in (1, 2, 3) for m in (0, 8, 12) for ln in (0, 1, 15, 16, 17, 33, 1000)]
    scs, es = [], []
    per = 9
    for g in range(0, len(combos), per):
        ents = []
        for (ver, st, m, ln) in combos[g:g + per]:
            pw = rnd.choice([b"pw", b"", b"\x00\xff", bytes(rnd.randrange(256) for _ in range(64)), "pässwort".encode()])
            data = bytes(rnd.randrange(256) for _ in range(ln)) if m == 0 else (b"aes text %d " % ln) * (ln // 10 + 1)
            data = data[:ln]
            ents.append({"name": b"ae%d-s%d-m%d-l%d" % (ver, st, m, ln), "method": m, "data": data, "enc": ("aes", ver, st, pw)})
            # the AE-x record among the entry's other records (an encryptor is free in their order): in front of / behind an
            # extended timestamp, an NTFS record, a (forced) ZIP64 record
            c = len(ents) % 6
            if c in (1, 2, 3, 4):
                others = [(0x5455, b"\x01" + (946684800 + ln).to_bytes(4, "little")), (0x000a, bytes(4) + b"\x01\x00\x18\x00" + bytes(range(24)))]
                ents[-1]["cextra"] = ents[-1]["lextra"] = others[:1] if c in (1, 3) else others
                ents[-1]["aes_first"] = c in (1, 2)
            if c in (2, 4, 5):
                ents[-1]["z64"] = {"usize", "csize"} if c != 4 else {"csize", "off"}
                ents[-1]["z64_last"] = c in (2, 5)
                ents[-1]["lz64"] = c == 2
        b, view = refzip.build({"entries": ents})
        pwq = []
        for k, e in enumerate(ents):
            pw = e["enc"][3]
            pwq += [{"i": k, "kind": "none", "pw": ""}, {"i": k, "kind": "right", "pw": pw.hex()},
                    {"i": k, "kind": "wrong", "pw": (pw + b"x").hex()}]
        scs.append({"sc": "aes-%03d" % g, "hex": b.hex(), "expect": gen_reader.expect_of(view), "pwq": pwq})
        # schedules with the right password
        reads = []
        for k, e in enumerate(ents):
            exp = {"len": len(e["data"]), "crc": crc_hex(e["data"])}
            for bf, un in rnd.sample([(bf, un) for bf in SCHED_BUFS for un in SCHED_UNDER], 3 if tier == "quick" else 20):
                reads.append({"i": k, "via": "seek", "bufs": bf, "under": un, "exp": exp, "pw": e["enc"][3].hex(), "pwkind": "right"})
        es.append({"sc": "aes-sched-%03d" % g, "hex": b.hex(), "reads": reads})
    # the crate's own fixture (written by a third-party tool)
    fx = open("/repo/tests/data/aes_archive.zip", "rb").read()
    scs.append({"sc": "fixture", "hex": fx.hex(), "expect": [],
                "pwq": [{"i": k, "kind": kd, "pw": (b"helloworld" if kd == "right" else b"wrong").hex() if kd != "none" else ""}
                        for k in range(4) for kd in ("none", "wrong")]})
    # AES entries must still decrypt after the crate rewrote the directory around them (an append round): the rewritten central
    # records keep method 99 and the AE-x record, next to whatever other records (a ZIP64 record whose values no longer have a
    # marker to answer to) the entry carries
    aps = []
    for j in range(4 if tier == "quick" else 24):
        ents = [{"name": b"a/stored-%d" % j, "method": 0, "data": bytes((3 * k_ + j) % 251 for k_ in range(66000 + j)), "enc": ("aes", 1 + j % 2, 1 + j % 3, b"append-pw"),
                 "z64": {"usize", "csize"} if j % 2 == 0 else set(), "lz64": j % 2 == 0, "aes_first": j % 4 < 2},
                {"name": b"a/deflate-%d" % j, "method": 8, "data": b"aes deflate %d " % j * 40, "enc": ("aes", 2 - j % 2, 3, b"append-pw"),
                 "cextra": [(0x5455, b"\x01" + bytes(4))], "aes_first": j % 2 == 1},
                {"name": b"a/plain", "method": 8, "data": b"plain " * 20}]
        fb, _ = refzip.build({"entries": ents})
        aps.append({"sc": "aes-append-%d" % j, "ops": [{"op": "Load", "hex": fb.hex(), "pws": [b"append-pw".hex()]}, {"op": "NewAppend", "arch": 0},
                                                      {"op": "StartFile", "name": "appended", "method": 8}, {"op": "Write", "data": "new"}, {"op": "Finish"},
                                                      {"op": "NewAppend", "arch": 1}, {"op": "Finish"}]})
    run_writer_programs(rep, wd, aps, "aes-append", neg_control=False)
    # the AE-x record among the other records of an entry, at model level (Producer.tla: the record before / after unknown records,
    # the ZIP64 record placed before / after all of them; defect D18 as reader mutant aes_swallows_next) and every realisable
    # encrypted one-entry archive of that model built by the independent builder and opened with the right password
    mc_producer(rep, wd, tier, mutants=("aes_swallows_next",), one_entry_only=True)
    pa = [A for A in producer_cases(wd, "MC_Producer1.cfg", "emit-p1") if any(c["aes"] != "none" for c in A["ents"])]
    rep.notes["producer_aes_cases"] = len(pa)
    scs += [gen_reader.from_producer_case("pa%05d" % i, A) for i, A in enumerate(pa)]
    run_reader_scenarios(rep, wd, scs, "aes-open")
    # tampering: every single-bit flip of salt / verifier / ciphertext / MAC of small entries; wrong CRC under AE-1 vs AE-2
    for ver in (1, 2):
        for st in (1, 2, 3):
            for m, ln in ((0, 1), (0, 17), (8, 40)):
                data = bytes(rnd.randrange(256) for _ in range(ln)) if m == 0 else b"tamper me " * 4
                ents = [{"name": b"victim", "method": m, "data": data, "enc": ("aes", ver, st, b"pw")},
                        {"name": b"neighbour", "method": 0, "data": b"untouched"}]
                b, view = refzip.build({"entries": ents})
                e = view["entries"][0]
                exp = {"len": len(data), "crc": crc_hex(data)}
                regs = e["regions"]
                sites = []
                for rname, (a, z) in regs.items():
                    for pos in range(a, z):
                        for bit in range(8):
                            sites.append((rname, e["dstart"] + pos, bit))
                if tier == "quick":
                    sites = rnd.sample(sites, min(len(sites), 150))
                for (rname, pos, bit) in sites:
                    dm = {"salt": "salt", "verifier": "verifier", "ct": "data", "mac": "mac"}[rname]
                    es.append({"sc": "t-ae%d-s%d-m%d-l%d-%s-%d.%d" % (ver, st, m, ln, rname, pos, bit), "hex": flip(b, pos, bit).hex(),
                               "reads": [{"i": 0, "via": "seek", "bufs": rnd.choice(SCHED_BUFS), "under": rnd.choice(SCHED_UNDER), "exp": exp,
                                          "pw": b"pw".hex(), "pwkind": "right", "dmg": dm}]})
                # a CRC field that is wrong by being ZERO (what AE-2 writers put there; under AE-1 it is still a wrong checksum),
                # 0xFFFFFFFF, and the CRC of the ciphertext
                import struct as _st
                for wname, wv in (("zero", 0), ("ones", 0xFFFFFFFF), ("ctcrc", int(crc_hex(b[e["dstart"] + regs["ct"][0]:e["dstart"] + regs["ct"][1]]), 16))):
                    if wv == int(exp["crc"], 16):
                        continue
                    bb = bytearray(b)
                    bb[e["chs"] + 16:e["chs"] + 20] = _st.pack("<I", wv)
                    es.append({"sc": "t-ae%d-s%d-m%d-l%d-crc-%s" % (ver, st, m, ln, wname), "hex": bytes(bb).hex(),
                               "reads": [{"i": 0, "via": "seek", "bufs": rnd.choice(SCHED_BUFS), "under": {}, "exp": exp,
                                          "pw": b"pw".hex(), "pwkind": "right", "dmg": "crc"}]})
                # wrong CRC field
                for pos in range(e["chs"] + 16, e["chs"] + 20):
                    es.append({"sc": "t-ae%d-s%d-m%d-l%d-crc-%d" % (ver, st, m, ln, pos), "hex": flip(b, pos, rnd.randrange(8)).hex(),
                               "reads": [{"i": 0, "via": "seek", "bufs": rnd.choice(SCHED_BUFS), "under": {}, "exp": exp,
                                          "pw": b"pw".hex(), "pwkind": "right", "dmg": "crc"}]})
    # a tampered compressed stream that ENDS EARLY (the final-block bit of the first of two stored deflate blocks is flipped): the
    # decompressor stops with part of the ciphertext unread - 1, 5, 10, 11, 100 ... bytes beyond what its input buffer holds -
    # and the authentication code must still be compared (EntryRead!DecoderEndsEarly)
    import struct
    def two_blocks(total):
        first = bytes(range(100))
        rest = total - (5 + 100) - 5
        second = bytes((i * 13 + 7) & 0xFF for i in range(rest))
        return (b"\x00" + struct.pack("<HH", 100, 100 ^ 0xFFFF) + first + b"\x01" + struct.pack("<HH", rest, rest ^ 0xFFFF) + second), first + second
    sizes = [300, 8192 + 1, 8192 + 10, 32768 + 1, 32768 + 5, 32768 + 10, 32768 + 11, 32768 + 100, 65536 + 3]
    if tier == "quick":
        sizes = [300, 8192 + 10, 32768 + 1, 32768 + 10, 32768 + 11]
    for total in sizes:
        for ver in (1, 2):
            raw, plain = two_blocks(total)
            ents = [{"name": b"early-end", "method": 8, "data": plain, "raw": raw, "enc": ("aes", ver, rnd.choice([1, 2, 3]), b"pw")},
                    {"name": b"neighbour", "method": 0, "data": b"untouched"}]
            b, view = refzip.build({"entries": ents})
            e = view["entries"][0]
            a, z = e["regions"]["ct"]
            exp = {"len": len(plain), "crc": crc_hex(plain)}
            es2 = []
            for bf in ([4096], [65536], [7]):
                es2.append({"i": 0, "via": "seek", "bufs": bf, "under": {}, "exp": exp, "pw": b"pw".hex(), "pwkind": "right", "dmg": "data"})
            # ... also when the source hands the unread remainder over in short reads (pages of 1000 or 4096 bytes, tiny reads)
            for un in ({"max": 1000}, {"max": 4096}, {"list": [4096, 1]}, {"max": 7}):
                es2.append({"i": 0, "via": "seek", "bufs": [65536], "under": un, "exp": exp, "pw": b"pw".hex(), "pwkind": "right", "dmg": "data"})
            es.append({"sc": "early-ae%d-%d" % (ver, total), "hex": flip(b, e["dstart"] + a, 0).hex(), "reads": es2})
            es.append({"sc": "early-ok-ae%d-%d" % (ver, total), "hex": b.hex(),
                       "reads": [{"i": 0, "via": "seek", "bufs": [4096], "under": {}, "exp": exp, "pw": b"pw".hex(), "pwkind": "right"}]})
    run_eread_scenarios(rep, wd, es, "aes-reads")
    return rep.finish("model_checking",
                      "EntryRead!MacAtEnd/TamperDetected/EofIntegrity (AE-1 CRC enforced, AE-2 ignored) model-checked with the no_mac/no_crc spec "
                      "mutants found; binding: entries built by the independent encryptor (own AES, CTR-LE, PBKDF2-HMAC-SHA1, HMAC-SHA1-80) for every "
                      "(version, strength, inner method, length in {0,1,15,16,17,33,1000}); open decisions for no/right/wrong password against "
                      "ZipOpen!OpenDecision; reads under short-read schedules; every single-bit flip of salt, verifier, ciphertext and authentication "
                      "code of small entries and CRC-field flips (AE-1 must fail, AE-2 must pass) validated against EntryRead.tla",
                      assumptions=["empty entries are exempt from the MAC claim (as the property says)", "quick samples the bit flips; thorough enumerates them"])


def run_stream_scenarios(rep, wd, scenarios, label, neg_control=True):
    progs = os.path.join(wd, label + "-scenarios.ndjson")
    trace = os.path.join(wd, label + "-trace.ndjson")
    vlib.write_ndjson(progs, scenarios)
    vlib.run_harness(["sexec", progs, trace])
    res = vlib.validate_segments("Trace_Stream.tla", "Trace_Stream.cfg", trace, wd, tag=label)
    by_sc = {s["sc"]: {"sc": s["sc"], "hex": s["hex"] if len(s["hex"]) < 200000 else "(omitted)", "plan": s["plan"], "under": s.get("under")} for s in scenarios}
    rep.add_tv(res, by_sc, label)
    evs = vlib.read_ndjson(trace)
    counts = rep.notes.setdefault("events_by_call", {})
    for e in evs:
        counts[e.get("ev", "?")] = counts.get(e.get("ev", "?"), 0) + 1
    rep.notes["spec_counters"] = dict(vlib.LAST_STATS)
    rep.evaluations += len(scenarios)
    for s in scenarios:
        rep.distinct.add(vlib.digest([s["hex"][:4000], s["plan"], s.get("under")]))
    if not rep.samples and scenarios:
        rep.samples.append({"scenario": scenarios[0]["sc"], "plan": scenarios[0]["plan"], "under": scenarios[0].get("under")})
    rejected = {r["sc"] for r in res["rejections"]}
    if neg_control:
        for s in scenarios:
            if s["sc"] in rejected:
                continue
            seg = [e for e in evs if e.get("sc") == s["sc"]]
            nx = [i for i, e in enumerate(seg) if e.get("ev") == "SNext" and e.get("r") == "entry" and e.get("i") == 2]
            if not nx:
                continue

            def mutate(es, k=nx[0]):
                es[k]["at"] += 1
                return "SNext[%d].at shifted by one in accepted scenario %s" % (k, s["sc"])

            nc = vlib.corrupt_and_expect_reject("Trace_Stream.tla", "Trace_Stream.cfg", seg, wd, mutate, tag=label + "-neg")
            if nc:
                rep.neg_controls.append(nc)
                if not nc["rejected"]:
                    raise ToolTrouble("negative control did not fire: " + nc["mutation"])
            break
    return res


def stream_plans(rnd, datas, nplans):
    plans = []
    for _ in range(nplans):
        plan, pcrc = [], []
        for d in datas:
            if d is None:
                w = rnd.choice([0, -1])
            else:
                n = len(d)
                w = rnd.choice([0, 1, max(0, n // 2), max(0, n - 1), n, -1, n + 5])
            plan.append(w)
            pcrc.append(crc_hex(d[:w]) if d is not None and w >= 0 else ("00000000" if w == 0 else ""))
        plans.append((plan, pcrc))
    return plans


def c10(tier):
    import refzip
    import io
    import zipfile
    rep = Report("C10", tier)
    wd = vlib.workdir("C10", tier)
    vlib.build_harness()
    r = vlib.tlc_mc("ZipStream.tla", "MC_Stream.cfg", wd, timeout=600, tag="mc-stream")
    rep.add_mc(r, "MC_Stream.cfg")
    if r["error"]:
        rep.spec_violation(r, "MC_Stream.cfg")
    for bug, inv in (("no_drain", "OnRecordBoundary"), ("drain_one_short", "OnRecordBoundary"), ("meta_skipped", "VisitOrder")):
        r = vlib.tlc_mc("ZipStream.tla", "MC_Stream_%s.cfg" % bug, wd, timeout=300, tag="mc-" + bug)
        found = bool(r["error"]) and inv in r["error"]
        rep.neg_controls.append({"spec_mutant": bug, "expected_violation": inv, "found": found})
        if not found:
            raise ToolTrouble("spec mutant %s not detected" % bug)
    # the loop behind Release (StreamDrain.tla): lands on the record boundary for every short-read behaviour of the source, never
    # overruns, and TERMINATES (liveness, weak fairness) - with an error when the stream was cut short
    r = vlib.tlc_mc("StreamDrain.tla", "MC_StreamDrain.cfg", wd, timeout=300, tag="mc-drain")
    rep.add_mc(r, "MC_StreamDrain.cfg")
    if r["error"]:
        rep.spec_violation(r, "MC_StreamDrain.cfg")
    for bug, inv in (("stop_on_short", "LandsOnBoundary"), ("count_requested", "LandsOnBoundary"), ("loop_on_eof", "Temporal properties were violated")):
        r = vlib.tlc_run("StreamDrain.tla", "MC_StreamDrain_%s.cfg" % bug, wd, timeout=300, tag="mc-drain-" + bug)
        found = inv in r["out"] or ("Terminates" in r["out"] and "violated" in r["out"] and bug == "loop_on_eof")
        rep.neg_controls.append({"spec_mutant": "drain:" + bug, "expected_violation": inv, "found": found})
        if not found:
            raise ToolTrouble("spec mutant %s of the drain loop not detected" % bug)
    if tier == "thorough":
        # the drain loop for entries of ANY size and ANY request size (Apalache/SMT): inductive invariant + ranking argument
        obl = [("initiation", ["--cinit=CInit", "--init=PInit", "--next=PStep", "--inv=IndInv", "--length=0"]),
               ("consecution", ["--cinit=CInit", "--init=IndInit", "--next=PStep", "--inv=IndInv", "--length=1"]),
               ("IndInv implies the invariants", ["--cinit=CInit", "--init=IndInit", "--next=PStep", "--inv=Implied", "--length=0"]),
               ("ranking: every iteration ends the loop or shrinks the rest", ["--cinit=CInit", "--init=IndInit", "--next=PStep", "--inv=Ranked", "--length=1"])]
        for name, args in obl:
            ok, tail = apalache("StreamDrainProof.tla", args, wd, "drainproof")
            if not ok:
                log(tail)
                raise ToolTrouble("Apalache did not discharge StreamDrainProof: " + name)
        bad, tail = apalache("StreamDrainProof.tla", ["--cinit=CInitLoop", "--init=IndInit", "--next=PStep", "--inv=Ranked", "--length=1"], wd, "drainproof-neg")
        if bad or "Checker has found an error" not in tail:
            log(tail)
            raise ToolTrouble("Apalache did not refute the ranking obligation under loop_on_eof")
        rep.neg_controls.append({"spec_mutant": "StreamDrainProof ranking with BUG = loop_on_eof", "expected_violation": "Ranked", "found": True})
        rep.notes["apalache_obligations"] = {"obligations": 4, "discharged": 4, "spec": "StreamDrainProof.tla (inductive invariant => LandsOnBoundary/NeverOverruns/ErrOnlyIfCut; ranking => termination; all naturals)"}
    sd = vlib.seed()
    rnd = random.Random(sd * 4447 + 10)
    scs = []
    # archives written by the crate (C01's generator without encryption), dumped and re-read here
    g = gen_writer.Gen(sd * 13 + 10, tier)
    dump = os.path.join(wd, "dump")
    os.makedirs(dump, exist_ok=True)
    na = 60 if tier == "quick" else 400
    ws = []
    for i in range(na):
        s = g.valid_archive("w%04d" % i, nmax=5, enc_ok=(i % 6 == 5), end="Finish")
        s["ops"] = [o for o in s["ops"]]
        if i % 4 == 1:      # raw-copied entries (their local headers are written once and never patched) and empty compressed entries
            body = s["ops"][1:-1]
            extra = [{"op": "RawCopy", "arch": 0, "idx": g.r.randint(0, 3), "rename": None},
                     {"op": "StartFile", "name": "empty-deflated", "method": 8}, {"op": "StartFile", "name": "empty-zstd", "method": 93, "large": g.r.random() < 0.5},
                     {"op": "RawCopy", "arch": 0, "idx": g.r.randint(0, 3), "rename": "renamed-copy"}, {"op": "StartFile", "name": "after-copy", "method": 8},
                     {"op": "Write", "data": "written after a raw copy"}]
            # (the block goes in front of or behind the generated body: a write that follows a raw copy directly would be a gap)
            s["ops"] = list(gen_writer.SRC_PRELUDE) + [{"op": "New"}] + (extra + body if i % 8 == 1 else body + extra) + [{"op": "Finish"}]
        if len([o for o in s["ops"] if o["op"] in ("StartFile", "AddDir", "AddSymlink", "StartFileAligned", "StartFileExtra")]) == 0:
            s["ops"].insert(1, {"op": "StartFile", "name": "only", "method": 8})
        s["dump"] = dump
        ws.append(s)
    # local headers whose name and extra field are each representable but together exceed 65 535 bytes; names at the limit
    for j, (nlen, xlen, large) in enumerate([(40000, 30004, False), (65535, 0, True), (65535, 65000, False), (30000, 40000, True)]):
        ops = [{"op": "New"}, {"op": "StartFile", "name": "first", "method": 8}, {"op": "Write", "data": "first"},
               {"op": "StartFileExtra", "name": {"rep": "n", "n": nlen}, "method": 0, "large": large}]
        if xlen:
            ops.append({"op": "WriteExtra", "recs": [{"id": 0xbeef, "dsz": xlen - 4}]})
        ops += [{"op": "EndExtra"}, {"op": "Write", "data": "long header"}, {"op": "StartFile", "name": "last", "method": 8}, {"op": "Write", "data": "last"}, {"op": "Finish"}]
        ws.append({"sc": "wlong%d" % j, "ops": ops, "dump": dump})
    progs = os.path.join(wd, "w-programs.ndjson")
    wtrace = os.path.join(wd, "w-trace.ndjson")
    vlib.write_ndjson(progs, ws)
    vlib.run_harness(["wexec", progs, wtrace])
    for e in vlib.read_ndjson(wtrace):
        if e.get("ev") != "Dumped":
            continue
        b = open(e["path"], "rb").read()
        try:
            zf = zipfile.ZipFile(io.BytesIO(b))
            datas = []
            for zi in zf.infolist():
                try:
                    datas.append(zf.read(zi) if not zi.filename == "" else None)
                except Exception:  # noqa
                    datas.append(None)
        except Exception:  # noqa
            continue
        for pi, (plan, pcrc) in enumerate(stream_plans(rnd, datas, 3 if tier == "quick" else 12)):
            scs.append({"sc": "%s-p%d" % (e["sc"], pi), "hex": b.hex(), "plan": plan, "pcrc": pcrc, "origin": "writer",
                        "under": rnd.choice(SCHED_UNDER), "buf": rnd.choice([1, 3, 4096, 65536])})
    # archives of the independent builder: ZIP64 local records, unsupported (encrypted / data-descriptor) entries in the middle
    for i in range(20 if tier == "quick" else 300):
        ents = []
        for k in range(rnd.randint(1, 5)):
            # names: ASCII; UTF-8 bytes under the flag; the SAME bytes without the flag (then they are CP437, although they would
            # also be well-formed UTF-8); CP437 high bytes that are not UTF-8
            nm, u8 = rnd.choice([(b"r%d-%d" % (i, k), False), (b"r%d-%d" % (i, k), False), (("é%d-%d-ü" % (i, k)).encode(), True),
                                 (("é%d-%d-ü" % (i, k)).encode(), False), (b"\x82\xe1%d-%d" % (i, k), False)])
            e = {"name": nm, "method": rnd.choice([0, 8, 12]), "data": gen_reader.payload(rnd), "lz64": rnd.random() < 0.3,
                 "utf8": u8, "date": rnd.randrange(65536), "time": rnd.randrange(65536), "fcomment": rnd.choice([b"", b"meta comment"]),
                 "eattr": (rnd.choice([0o100644, 0o100755, 0o40755]) << 16)}
            c = rnd.random()
            if c < 0.12:
                e["dd"] = "sig32"
            elif c < 0.24:
                e["enc"] = ("zc", b"pw")
            if rnd.random() < 0.2:       # local extra field with unknown records and / or 1-3 padding bytes that form no record
                e["lextra"] = [(0xcafe, b"l" * rnd.randint(0, 9))] if rnd.random() < 0.6 else []
                e["lextra_tail"] = bytes(rnd.randint(0, 3))
            ents.append(e)
        # (a third of them end in ZIP64 end records: what follows the last central record is not always the short end record)
        b, v = refzip.build({"entries": ents, "comment": b"stream", "z64end": i % 3 == 1})
        datas = [e["data"] for e in v["entries"]]
        for pi, (plan, pcrc) in enumerate(stream_plans(rnd, datas, 3 if tier == "quick" else 10)):
            scs.append({"sc": "r%04d-p%d" % (i, pi), "hex": b.hex(), "plan": plan, "pcrc": pcrc, "under": rnd.choice(SCHED_UNDER),
                        "buf": rnd.choice([1, 7, 4096])})
    # ExtraWalk.tla at the LOCAL header: every field of the byte-level model (those without an offset value - a local header has none)
    # as the local extra field of a streamed entry; the front-to-back reader walks it with the same code as the central one
    mc_extrawalk(rep, wd, mutants=(("aes_no_account", "OnBoundary"), ("skip_declared", "OnBoundary")))
    xw = [c for c in extrawalk_cases(wd) if not c["off"] and not any(r["id"] == "aes" for r in c["recs"])]
    rep.notes["extrawalk_local_fields"] = len(xw)
    if tier == "quick":
        xw = rnd.sample(xw, min(len(xw), 1200))
    for i, c in enumerate(xw):
        b, v = extrawalk_local_archive(c, i)
        datas = [e["data"] for e in v["entries"]]
        plan, pcrc = stream_plans(rnd, datas, 1)[0]
        scs.append({"sc": "xwl%05d" % i, "hex": b.hex(), "plan": plan, "pcrc": pcrc, "under": rnd.choice(SCHED_UNDER), "buf": rnd.choice([1, 7, 4096])})
    run_stream_scenarios(rep, wd, scs, "stream")
    return rep.finish("model_checking",
                      "ZipStream.tla: OnRecordBoundary/InsideEntry/EndAtDirectory/VisitOrder over all entry lists (<= 3 entries, sizes {0,1,4}) and all "
                      "consumption histories, with the no_drain / drain_one_short / meta_skipped spec mutants detected; binding: archives written by the "
                      "crate and by the independent builder (ZIP64 local records; encrypted and data-descriptor entries that must yield an error, not data) "
                      "are walked with per-entry consumption plans from {0,1,half,all-1,all,to-EOF,more than all} over short-reading sources; the stream "
                      "position at every header parse, each entry's name/sizes/method/time/CRC/content prefix (expected = ZipOpen!EntryView of the lexed "
                      "layout, i.e. what the seekable reader must report) and the visitor's file and metadata callbacks are validated against the model",
                      assumptions=["archives with at least one entry, no prefix/gaps (a front-to-back reader cannot skip junk)"])


def clone_steps(rnd, datas, nh, nsteps):
    """a random interleaving; expected slices are computed per handle as if it were used alone"""
    cur = {}
    steps = []
    for _ in range(nsteps):
        h = rnd.randrange(nh)
        c = rnd.random()
        if h not in cur or c < 0.25:
            i = rnd.randrange(len(datas))
            cur[h] = [i, 0]
            steps.append({"h": h, "op": "open", "i": i})
        elif c < 0.9:
            i, off = cur[h]
            k = rnd.choice([1, 2, 3, 7, 50, 4096])
            sl = datas[i][off:off + k]
            cur[h][1] = off + len(sl)
            steps.append({"h": h, "op": "read", "k": k, "plen": len(sl), "pcrc": crc_hex(sl)})
        else:
            del cur[h]
            steps.append({"h": h, "op": "close"})
    return steps


def all_interleavings(scripts):
    """every interleaving of the per-handle scripts (lists of steps), as lists of (h, step)"""
    if all(len(s) == 0 for s in scripts):
        yield []
        return
    for h, s in enumerate(scripts):
        if s:
            rest = [x[1:] if k == h else x for k, x in enumerate(scripts)]
            for tail in all_interleavings(rest):
                yield [(h, s[0])] + tail


def c20(tier):
    import refzip
    rep = Report("C20", tier)
    wd = vlib.workdir("C20", tier)
    # the harness contains the compile-time Send + Sync assertions for ZipArchive<R>; when the build fails WITH them
    # and succeeds WITHOUT them, the handle lost Send/Sync: that is a violation of the property, not tool trouble
    try:
        vlib.build_harness()
        rep.notes["send_sync"] = "asserted at compile time in harness/src/cexec.rs for Cursor<Vec<u8>>, Cursor<&[u8]> and the yielding reader"
    except ToolTrouble:
        flags = "--cfg zip_verif --check-cfg cfg(zip_verif) --cfg zip_verif_no_sendsync --check-cfg cfg(zip_verif_no_sendsync)"
        p = subprocess.run(["cargo", "build", "--release", "--offline"], cwd=vlib.HARNESS, env=dict(os.environ, CARGO_NET_OFFLINE="true", RUSTFLAGS=flags),
                           stdout=subprocess.PIPE, stderr=subprocess.STDOUT, text=True)
        if p.returncode != 0:
            raise
        q = subprocess.run(["cargo", "build", "--release", "--offline"], cwd=vlib.HARNESS, env=dict(os.environ, CARGO_NET_OFFLINE="true"),
                           stdout=subprocess.PIPE, stderr=subprocess.STDOUT, text=True)
        msg = [ln for ln in q.stdout.splitlines() if "cannot be sent" in ln or "cannot be shared" in ln or "Send" in ln or "Sync" in ln][:12]
        path = vlib.save_replay("C20", "send-sync", {"kind": "ZipArchive<R> is no longer Send + Sync for Send + Sync readers",
                                                     "how_to_replay": "cargo build --release --offline in /verif/harness (harness/src/cexec.rs send_sync_facts)",
                                                     "compiler_output": msg})
        rep.violations.append((path, "the harness builds only without its Send/Sync assertions"))
        rep.notes["send_sync"] = "VIOLATED: build fails with the assertions, succeeds without them"
        # the rest of the check runs on the build without the assertions
        subprocess.run(["cargo", "build", "--release", "--offline"], cwd=vlib.HARNESS, env=dict(os.environ, CARGO_NET_OFFLINE="true", RUSTFLAGS=flags),
                       stdout=subprocess.PIPE, stderr=subprocess.STDOUT, text=True)
    r = vlib.tlc_mc("Clones.tla", "MC_Clones.cfg", wd, timeout=600, tag="mc-clones")
    rep.add_mc(r, "MC_Clones.cfg")
    if r["error"]:
        rep.spec_violation(r, "MC_Clones.cfg")
    for bug in ("shared_reader", "two_step_cache", "tracked_pos"):
        r = vlib.tlc_mc("Clones.tla", "MC_Clones_%s.cfg" % bug, wd, timeout=300, tag="mc-" + bug)
        found = bool(r["error"]) and "PerHandleView" in r["error"]
        rep.neg_controls.append({"spec_mutant": bug, "expected_violation": "PerHandleView", "found": found})
        if not found:
            raise ToolTrouble("spec mutant %s not detected" % bug)
    sd = vlib.seed()
    rnd = random.Random(sd * 7919 + 20)
    ents = [{"name": b"one.bin", "method": 0, "data": bytes(rnd.randrange(256) for _ in range(40))},
            {"name": b"two.txt", "method": 8, "data": b"clone me " * 30, "lextra": [(0xcafe, b"x" * 9)]},
            {"name": b"three.bz", "method": 12, "data": b"third entry " * 20},
            {"name": b"four", "method": 0, "data": b"4444", "lextra": [(0xbeef, b"local only extra")]}]
    b, v = refzip.build({"entries": ents})
    datas = [e["data"] for e in v["entries"]]
    scs = []
    # exhaustive: all interleavings of short per-handle scripts for 2 and 3 handles
    def script(i, ks):
        out, off = [{"op": "open", "i": i}], 0
        for k in ks:
            sl = datas[i][off:off + k]
            off += len(sl)
            out.append({"op": "read", "k": k, "plen": len(sl), "pcrc": crc_hex(sl)})
        return out
    sets = [[script(0, [3, 5]), script(1, [4, 100])], [script(1, [2, 2]), script(1, [7, 1])],
            [script(0, [1]), script(2, [6]), script(3, [2])], [script(3, [1, 1]), script(0, [40]), script(0, [2])]]
    n = 0
    for si, scripts in enumerate(sets):
        inter = list(all_interleavings(scripts))
        if tier == "quick" and len(inter) > 120:
            inter = rnd.sample(inter, 120)
        for il in inter:
            steps = [dict(st, h=h) for h, st in il]
            scs.append({"sc": "il%d-%05d" % (si, n), "hex": b.hex(), "handles": len(scripts), "steps": steps})
            n += 1
    rep.notes["exhaustive_interleavings"] = n
    # interleaving INSIDE a call, at I/O granularity: while handle 0 is at the k-th I/O operation of opening entry i
    # (its first open, so the shared data-start cell is being determined), handle 1 opens an entry and reads it
    def readall(i):
        return {"op": "read", "k": 100000, "plen": len(datas[i]), "pcrc": crc_hex(datas[i])}
    nn = 0
    for i in range(len(datas)):
        for j in ([i] if tier == "quick" else range(len(datas))):
            for k in range(0, 9):
                steps = [{"h": 0, "op": "open", "i": i, "hook": {"at": k, "steps": [{"h": 1, "op": "open", "i": j}, dict(readall(j), h=1)]}},
                         dict(readall(i), h=0), {"h": 1, "op": "open", "i": i}, dict(readall(i), h=1), {"h": 2, "op": "open", "i": i}, dict(readall(i), h=2)]
                scs.append({"sc": "nest-%d-%d-%d" % (i, j, k), "hex": b.hex(), "handles": 3, "steps": steps})
                nn += 1
            # ... and while handle 0 is in the middle of READING entry i
            for k in range(0, 3):
                steps = [{"h": 0, "op": "open", "i": i}, {"h": 0, "op": "read", "k": 100000, "plen": len(datas[i]), "pcrc": crc_hex(datas[i]),
                                                      "hook": {"at": k, "steps": [{"h": 1, "op": "open", "i": j}, dict(readall(j), h=1)]}}]
                scs.append({"sc": "nestr-%d-%d-%d" % (i, j, k), "hex": b.hex(), "handles": 2, "steps": steps})
                nn += 1
        # a handle whose own reader fails at the k-th operation of its first open: every other handle, and the same
        # handle afterwards, still see exactly the entry
        for k in range(0, 8):
            steps = [{"h": 0, "op": "open", "i": i, "fault_at": k}, {"h": 1, "op": "open", "i": i}, dict(readall(i), h=1),
                     {"h": 0, "op": "open", "i": i}, dict(readall(i), h=0)]
            scs.append({"sc": "fault-%d-%d" % (i, k), "hex": b.hex(), "handles": 2, "steps": steps})
            nn += 1
    rep.notes["nested_and_fault_scenarios"] = nn
    # handles that FAIL to open an entry another handle has open (wrong password, missing password, unsupported method): nothing the
    # first handle observes may change, and a wrong password must stay wrong after another handle used the right one
    pw = b"clone-pw"
    eents = [{"name": b"plain", "method": 8, "data": b"plain entry " * 9},
             {"name": b"zc", "method": 0, "data": b"zipcrypto entry", "enc": ("zc", pw)},
             {"name": b"aes", "method": 8, "data": b"aes entry " * 12, "enc": ("aes", 2, 3, pw)},
             {"name": b"lzma", "method": 14, "data": b"cannot decode this"}]
    eb, ev_ = refzip.build({"entries": eents})
    ed = [e["data"] for e in ev_["entries"]]

    def rd(i, h):
        return {"h": h, "op": "read", "k": 100000, "plen": len(ed[i]), "pcrc": crc_hex(ed[i])}
    R, W = pw.hex(), b"not-the-password".hex()
    fam = []
    for i in (1, 2):
        fam.append([{"h": 0, "op": "open", "i": i, "pw": R, "pwkind": "right"}, {"h": 0, "op": "stat"}, {"h": 1, "op": "open", "i": i, "pw": W, "pwkind": "wrong"},
                    {"h": 0, "op": "stat"}, {"h": 1, "op": "open", "i": i, "pwkind": "none"}, {"h": 0, "op": "stat"}, rd(i, 0),
                    {"h": 1, "op": "open", "i": i, "pw": W, "pwkind": "wrong"}, {"h": 2, "op": "open", "i": i, "pw": W, "pwkind": "wrong"},
                    {"h": 2, "op": "open", "i": i, "pw": R, "pwkind": "right"}, rd(i, 2)])
        fam.append([{"h": 1, "op": "open", "i": i, "pw": W, "pwkind": "wrong"}, {"h": 0, "op": "open", "i": i, "pw": R, "pwkind": "right"}, rd(i, 0),
                    {"h": 1, "op": "open", "i": i, "pw": W, "pwkind": "wrong"}])
    fam.append([{"h": 0, "op": "open", "i": 3, "raw": True}, {"h": 0, "op": "stat"}, {"h": 1, "op": "open", "i": 3}, {"h": 0, "op": "stat"},
                {"h": 1, "op": "open", "i": 0}, rd(0, 1), {"h": 0, "op": "stat"}])
    for k, steps in enumerate(fam):
        scs.append({"sc": "failopen-%d" % k, "hex": eb.hex(), "handles": 3, "steps": steps})
    # the property differentially, on archives with DAMAGED entries and with a wrong password that passes the one-byte check: each
    # handle's observations (open result, data start, sizes, read results incl. checksum errors, length and CRC of what was
    # delivered) must equal those of the same steps on an archive opened afresh and used alone (CAlone events) - e.g. a checksum
    # error a handle would get alone must not disappear because another handle (a raw reader, another password) read the entry first
    dz = bytes(rnd.randrange(256) for _ in range(64))
    dents = [{"name": b"stored-damaged", "method": 0, "data": dz},
             {"name": b"deflate-badcrc", "method": 8, "data": b"deflated, declared CRC is wrong " * 4, "crc": 0x12345678},
             {"name": b"zc-stored", "method": 0, "data": b"zipcrypto stored entry, long enough", "enc": ("zc", pw)},
             {"name": b"aes1-badcrc", "method": 0, "data": b"ae-1 with a wrong crc", "enc": ("aes", 1, 1, pw), "crc": 0x0badc0de},
             {"name": b"intact", "method": 8, "data": b"intact entry " * 10}]
    db, dv = refzip.build({"entries": dents})
    db = bytearray(db)
    db[dv["entries"][0]["dstart"] + 5] ^= 0x40                    # one flipped bit in the stored entry's data
    db = bytes(db)
    e2 = dv["entries"][2]
    hdr12, want = db[e2["dstart"]:e2["dstart"] + 12], (e2["crc"] >> 24) & 0xFF
    collide = next(c for c in (b"wrong-%d" % k for k in range(100000)) if zc_check(c, hdr12, want))
    kinds = {0: [{"raw": True}, {}], 1: [{"raw": True}, {}], 2: [{"raw": True}, {"pw": R, "pwkind": "right"}, {"pw": collide.hex(), "pwkind": "collide"}, {"pwkind": "none"}],
             3: [{"raw": True}, {"pw": R, "pwkind": "right"}, {"pw": W, "pwkind": "wrong"}], 4: [{"raw": True}, {}]}
    nd = 0
    import itertools
    for i, ks in kinds.items():
        for perm in itertools.permutations(range(len(ks)), min(3, len(ks))):
            for twice in (False, True):
                steps = []
                for h, ki in enumerate(perm):
                    steps += [dict(ks[ki], h=h, op="open", i=i), {"h": h, "op": "readall"}]
                if twice:      # every handle once more, in reverse order
                    for h, ki in reversed(list(enumerate(perm))):
                        steps += [dict(ks[ki], h=h, op="open", i=i), {"h": h, "op": "readall"}]
                steps += [{"h": 0, "op": "open", "i": 4}, {"h": 0, "op": "readall"}]
                scs.append({"sc": "alone-%d-%s-%d" % (i, "".join(map(str, perm)), twice), "hex": db.hex(), "handles": len(perm), "differential": True, "steps": steps})
                nd += 1
    # handles re-targeted at ANOTHER archive through Clone::clone_from after they looked entries up by name / by index in the first one
    # (same names in a different order, other names, fewer entries): afterwards they behave like fresh handles of that archive
    a1 = [{"name": b"alpha", "method": 8, "data": b"alpha of the first archive " * 3}, {"name": b"beta", "method": 0, "data": b"beta-1"},
          {"name": b"gamma", "method": 8, "data": b"gamma-1 " * 9}]
    a2 = [{"name": b"gamma", "method": 0, "data": b"gamma of the SECOND archive"}, {"name": b"alpha", "method": 8, "data": b"second alpha " * 5},
          {"name": b"delta", "method": 0, "data": b"only in the second"}]
    b1, _ = refzip.build({"entries": a1})
    b2, _ = refzip.build({"entries": a2})
    for j, pre in enumerate(([], [("name", "alpha")], [("i", 2)], [("name", "beta"), ("name", "gamma")])):
        steps = []
        for h in (0, 1):
            for kind, val in pre:
                steps += [dict({"h": h, "op": "open"}, **({"name": val} if kind == "name" else {"i": val})), {"h": h, "op": "readall"}]
        steps.append({"h": 0, "op": "retarget"})
        for nm in ("alpha", "beta", "gamma", "delta"):
            steps += [{"h": 0, "op": "open", "name": nm, "i": 0}, {"h": 0, "op": "readall"}, {"h": 1, "op": "open", "name": nm, "i": 0}, {"h": 1, "op": "readall"}]
        steps += [{"h": 0, "op": "open", "i": 0}, {"h": 0, "op": "readall"}]
        scs.append({"sc": "retarget-%d" % j, "hex": b1.hex(), "hex2": b2.hex(), "handles": 2, "differential": True, "steps": steps})
        nd += 1
    rep.notes["differential_alone_scenarios"] = nd
    # clones taken MID-LIFE (Clones!CloneFrom), from readers whose Clone keeps the position (like a Cursor), restarts at 0 (like a
    # reader that reopens its file) or sits at the end: after handle g read entry i (none of it, part, all of it - then g's reader
    # stands exactly on the next local header), handle h becomes a clone of g and opens entry j first
    nc = 0
    for cp in (0, 1, 2):
        for i in range(len(datas)):
            for j in range(len(datas)):
                for part in (0, 1, len(datas[i])):
                    sl = datas[i][:part]
                    steps = [{"h": 0, "op": "open", "i": i}] + ([{"h": 0, "op": "read", "k": part if part < len(datas[i]) else 100000, "plen": len(sl), "pcrc": crc_hex(sl)}] if part else []) + \
                            [{"h": 1, "op": "clone_from", "g": 0}, {"h": 1, "op": "open", "i": j}, dict(readall(j), h=1),
                             {"h": 0, "op": "open", "i": j}, dict(readall(j), h=0), {"h": 2, "op": "clone_from", "g": 1}, {"h": 2, "op": "open", "i": (j + 1) % len(datas)},
                             dict(readall((j + 1) % len(datas)), h=2)]
                    scs.append({"sc": "midclone-%d-%d-%d-%d" % (cp, i, j, part), "hex": b.hex(), "handles": 3, "clone_pos": cp, "steps": steps})
                    nc += 1
    rep.notes["mid_life_clone_scenarios"] = nc
    # random longer interleavings
    for i in range(60 if tier == "quick" else 1500):
        nh = rnd.randint(2, 6)
        scs.append({"sc": "rnd%05d" % i, "hex": b.hex(), "handles": nh, "steps": clone_steps(rnd, datas, nh, rnd.randint(5, 60))})
    # threads: one OS thread per handle, all entries in random orders, randomised yields inside the reader
    for i in range(48 if tier == "quick" else 600):
        nh = rnd.choice([4, 8, 16])
        scripts = []
        for h in range(nh):
            steps = [dict(st) for st in clone_steps(rnd, datas, 1, rnd.randint(20, 120))]
            for st in steps:
                st["h"] = h
            scripts.append(steps)
        scs.append({"sc": "thr%05d" % i, "hex": b.hex(), "handles": nh, "threads": True, "yield_every": rnd.choice([1, 2, 3, 7]),
                    "scripts": scripts, "steps": []})
    # threads released together, all opening the SAME entry first (a race on its first open), yielding at every I/O operation
    for i in range(120 if tier == "quick" else 3000):
        nh = rnd.choice([2, 3, 4, 8])
        e0 = rnd.randrange(len(datas))
        scripts = []
        for h in range(nh):
            steps = [{"h": h, "op": "open", "i": e0}, dict(readall(e0), h=h)] + [dict(st, h=h) for st in clone_steps(rnd, datas, 1, rnd.randint(2, 10))]
            scripts.append(steps)
        scs.append({"sc": "race%05d" % i, "hex": b.hex(), "handles": nh, "threads": True, "yield_every": 1, "scripts": scripts, "steps": []})
    progs = os.path.join(wd, "clone-scenarios.ndjson")
    trace = os.path.join(wd, "clone-trace.ndjson")
    vlib.write_ndjson(progs, scs)
    vlib.run_harness(["cexec", progs, trace])
    res = vlib.validate_segments("Trace_Clones.tla", "Trace_Clones.cfg", trace, wd, tag="clones")
    rep.add_tv(res, {s["sc"]: {k: s[k] for k in s if k != "hex"} for s in scs}, "clones")
    rep.evaluations += len(scs)
    for s in scs:
        rep.distinct.add(vlib.digest([s.get("steps"), s.get("scripts")]))
    rep.samples.append({"scenario": scs[0]["sc"], "steps": scs[0]["steps"][:8]})
    evs = vlib.read_ndjson(trace)
    seg = [e for e in evs if e.get("sc") == scs[0]["sc"]]
    rd = [i for i, e in enumerate(seg) if e.get("ev") == "CRead"]
    if rd:
        def mutate(es, k=rd[-1]):
            es[k]["crc"] = "%08x" % (int(es[k]["crc"], 16) ^ 2)
            return "CRead[%d].crc perturbed" % k
        nc = vlib.corrupt_and_expect_reject("Trace_Clones.tla", "Trace_Clones.cfg", seg, wd, mutate, tag="clones-neg")
        rep.neg_controls.append(nc)
        if not nc["rejected"]:
            raise ToolTrouble("negative control did not fire")
    return rep.finish("model_checking",
                      "Clones.tla: PerHandleView/CacheIdempotent over all interleavings of 3 handles x 2 entries (shared_reader and two_step_cache spec "
                      "mutants are found); binding: ALL interleavings of short per-handle scripts (2-3 handles) and random long ones are driven on real "
                      "clones on one thread; 4-16 OS threads with randomised yields inside the reader run per-handle scripts concurrently; every open "
                      "must report the data start the bytes determine and every read the slice the handle would get alone; Send/Sync asserted at compile time",
                      assumptions=["OS schedules are sampled, call-granularity interleavings are exhaustive for the short scripts"])


def summarise_writer_run(seg, sc, k, src_fault=False):
    """one fault run of a writer program -> FRun event (outcome = entries, metadata, contents, comment; no offsets)"""
    panic = any(e.get("r") == "panic" or e.get("rc") == "panic" or e.get("rraw") == "panic" for e in seg)
    ops = 0
    faulted = None
    for e in seg:
        if e.get("ev") == "SinkOps":
            ops = e.get("ops", 0)
            faulted = e.get("faulted")
            panic = panic or bool(e.get("drop_panic"))
    calls = [e for e in seg if e.get("ev") in ("New", "NewAppend", "SetComment", "StartFile", "StartFileExtra", "StartFileAligned", "Write",
                                               "WriteExtra", "EndExtra", "EndLocalStartCentral", "AddDir", "AddSymlink", "RawCopy", "Flush", "Finish", "Drop")]
    anyerr = any(e.get("r") == "err" for e in calls)
    # a fault inside Drop cannot be reported through the API ("may silently fail", documented): it counts as reported
    if faulted:
        prev = 0
        for e in calls:
            if e.get("ev") == "Drop" and prev <= faulted[0] < e.get("ops", 0):
                anyerr = True
            prev = e.get("ops", prev)
    # the last archive observed
    last_open = max([i for i, e in enumerate(seg) if e.get("ev") == "Open"], default=None)
    finished = False
    outcome = "none"
    ents_desc = []
    # entries that were CLOSED before the first call that reported an error: every entry-creating call that succeeded before it, except
    # the most recent one (it may still have been open), plus the entries of the archive opened for append
    creating = ("StartFile", "StartFileExtra", "StartFileAligned", "AddDir", "AddSymlink", "RawCopy")
    first_bad = next((i for i, e in enumerate(calls) if e.get("r") in ("err", "panic")), len(calls))
    last_start = max([i for i, e in enumerate(calls[:first_bad]) if e.get("ev") in ("New", "NewAppend")], default=0)
    made = [e for e in calls[last_start:first_bad] if e.get("ev") in creating and e.get("r") == "ok"]
    n0 = 0
    if calls and calls[last_start].get("ev") == "NewAppend" and isinstance(calls[last_start].get("L"), dict):
        n0 = len(calls[last_start]["L"].get("cd") or [])
    # (a fault of the SOURCE archive of a raw copy leaves the sink untouched: the entry before the copy was closed without incident)
    # (... unless the source failed before the writer was even called: "src: ..." is the harness's own message - the entry is still open)
    reached = first_bad < len(calls) and not str(calls[first_bad].get("msg", "")).startswith("src:")
    nsafe = n0 + (len(made) if (src_fault and reached) else max(0, len(made) - 1))
    if last_open is not None and seg[last_open].get("r") == "ok":
        # only if it follows the last Finish/Drop call of the run
        last_fin = max([i for i, e in enumerate(seg) if e.get("ev") in ("Finish", "Drop")], default=-1)
        if last_open > last_fin >= 0:
            ents = [e for e in seg[last_open:] if e.get("ev") == "Entry"]
            desc = [seg[last_open].get("n"), (seg[last_open].get("comment") or {}).get("id")]
            for e in ents:
                desc.append([e.get("r"), (e.get("name") or {}).get("id"), e.get("method"), e.get("usize"), e.get("crc"), e.get("mode"),
                             e.get("date"), e.get("time"), e.get("rc"), e.get("content"), e.get("extra"),
                             # the stored bytes themselves (by_index_raw): an entry this crate cannot decode has no other content to compare
                             e.get("rraw"), e.get("rawlen"), e.get("rawcrc")])
            outcome = vlib.digest(desc)
            ents_desc = desc[2:]
            finished = True
    first_err = next((e.get("ev") + ": " + str(e.get("msg")) for e in calls if e.get("r") in ("err", "panic")), "")
    return {"ev": "FRun", "sc": sc, "side": "writer", "k": k, "calls": len(calls), "anyerr": anyerr, "panic": panic, "first_err": first_err,
            "ops": ops, "faulted": faulted, "outcome": outcome, "finished": finished, "_ents": ents_desc, "_nsafe": nsafe, "closed_intact": True}


def c11(tier):
    import refzip
    rep = Report("C11", tier)
    wd = vlib.workdir("C11", tier)
    vlib.build_harness()
    r = vlib.tlc_mc("Faults.tla", "MC_Faults.cfg", wd, timeout=300, tag="mc-faults")
    rep.add_mc(r, "MC_Faults.cfg")
    if r["error"]:
        rep.spec_violation(r, "MC_Faults.cfg")
    for bug, inv in (("swallow", "FaultLaw"), ("panic_later", "NoPanicEver")):
        r = vlib.tlc_mc("Faults.tla", "MC_Faults_%s.cfg" % bug, wd, timeout=300, tag="mc-" + bug)
        found = bool(r["error"]) and inv in r["error"]
        rep.neg_controls.append({"spec_mutant": bug, "expected_violation": inv, "found": found})
        if not found:
            raise ToolTrouble("spec mutant %s not detected" % bug)
    sd = vlib.seed()
    rnd = random.Random(sd * 5003 + 11)
    g = gen_writer.Gen(sd * 29 + 11, tier)
    fb, fv = foreign_sources(rnd)
    # ---- writer scenarios: the sink of the main writer fails at operation k
    body1 = [{"op": "SetComment", "c": "faulty"},
             {"op": "StartFile", "name": "a.txt", "method": 8}, {"op": "Write", "data": {"len": 900, "seed": 1, "kind": "text"}},
             {"op": "StartFile", "name": "b.bin", "method": 0, "large": True}, {"op": "Write", "data": {"len": 70, "seed": 2, "kind": "rand"}},
             {"op": "AddDir", "name": "d", "method": 0}, {"op": "AddSymlink", "name": "l", "target": "a.txt", "method": 0},
             {"op": "StartFileAligned", "name": "al", "method": 0, "align": 64}, {"op": "Write", "data": "aligned"},
             {"op": "StartFileExtra", "name": "x", "method": 12}, {"op": "WriteExtra", "recs": [{"id": 0xbeef, "dsz": 6}]},
             {"op": "EndLocalStartCentral"}, {"op": "WriteExtra", "recs": [{"id": 0xcafe, "dsz": 3}]}, {"op": "EndExtra"},
             {"op": "Write", "data": {"len": 300, "seed": 3, "kind": "text"}},
             {"op": "StartFile", "name": "enc", "method": 8, "enc": "pw"}, {"op": "Write", "data": {"len": 100, "seed": 4, "kind": "text"}},
             {"op": "StartFile", "name": "z", "method": 93}, {"op": "Write", "data": {"len": 400, "seed": 5, "kind": "text"}, "split": 50},
             {"op": "Flush"}, {"op": "Finish"}]
    progs = [("mixed", [], {"op": "New"}, body1 + [{"op": "Write", "data": "after finish"}]),
             ("mixed-drop", [], {"op": "New"}, body1[:-1] + [{"op": "Drop"}]),
             ("rawcopy", [{"op": "Load", "hex": fb.hex()}], {"op": "New"},
              [{"op": "RawCopy", "arch": 0, "idx": 2, "rename": None}, {"op": "StartFile", "name": "mid", "method": 8}, {"op": "Write", "data": "middle"},
               {"op": "RawCopy", "arch": 0, "idx": 0, "rename": "renamed"}, {"op": "Write", "data": "after raw"}, {"op": "Finish"}]),
             ("append", [{"op": "New"}, {"op": "StartFile", "name": "base1", "method": 8}, {"op": "Write", "data": {"len": 500, "seed": 9, "kind": "text"}},
                         {"op": "StartFile", "name": "base2", "method": 0}, {"op": "Write", "data": "stored base"}, {"op": "Finish"}],
              {"op": "NewAppend", "arch": 0},
              [{"op": "StartFile", "name": "appended", "method": 8}, {"op": "Write", "data": {"len": 200, "seed": 8, "kind": "text"}},
               {"op": "AddDir", "name": "newdir", "method": 0}, {"op": "Finish"}]),
             ("append-foreign", [{"op": "Load", "hex": fb.hex()}], {"op": "NewAppend", "arch": 0},
              [{"op": "StartFile", "name": "appended", "method": 0}, {"op": "Write", "data": "x"}, {"op": "Finish"}])]
    # the FIRST entry of an archive through each entry-creating call (an emptied entry list is a state of its own: whatever a failed
    # call rolls back, later calls - the next entry, finish, drop - must still return)
    second = [{"op": "StartFile", "name": "second", "method": 8}, {"op": "Write", "data": "second entry"}]
    firsts = {"aligned": [{"op": "StartFileAligned", "name": "first", "method": 0, "align": 64}, {"op": "Write", "data": "aligned first"}],
              "aligned-large": [{"op": "StartFileAligned", "name": "first", "method": 8, "align": 4096, "large": True}, {"op": "Write", "data": "aligned first"}],
              "extra": [{"op": "StartFileExtra", "name": "first", "method": 8}, {"op": "WriteExtra", "recs": [{"id": 0xbeef, "dsz": 10}]}, {"op": "EndExtra"},
                        {"op": "Write", "data": "first with extra data"}],
              "extra-central": [{"op": "StartFileExtra", "name": "first", "method": 0}, {"op": "WriteExtra", "recs": [{"id": 0xbeef, "dsz": 4}]},
                                {"op": "EndLocalStartCentral"}, {"op": "WriteExtra", "recs": [{"id": 0xcafe, "dsz": 2}]}, {"op": "EndExtra"}, {"op": "Write", "data": "x"}],
              "extra-open": [{"op": "StartFileExtra", "name": "first", "method": 0}, {"op": "WriteExtra", "recs": [{"id": 0xbeef, "dsz": 4}]}],
              "dir": [{"op": "AddDir", "name": "first", "method": 0}], "symlink": [{"op": "AddSymlink", "name": "first", "target": "t", "method": 0}],
              "enc": [{"op": "StartFile", "name": "first", "method": 0, "enc": "pw"}, {"op": "Write", "data": "encrypted first"}]}
    for nm_, ops_ in firsts.items():
        for endop in (("Finish",) if tier == "quick" else ("Finish", "Drop")):
            progs.append(("first-%s-%s" % (nm_, endop.lower()), [], {"op": "New"}, ops_ + second + [{"op": endop}]))
    progs.append(("first-rawcopy", [{"op": "Load", "hex": fb.hex()}], {"op": "New"}, [{"op": "RawCopy", "arch": 0, "idx": 1, "rename": None}] + second + [{"op": "Finish"}]))
    # an encrypted entry (its body leaves the cipher's buffer only when the entry is closed) closed by finish(), by a directory, by a
    # symlink, by drop - and the calls a caller may still make after that close failed: finish again, a short write, another entry
    enc_e = [{"op": "StartFile", "name": "secret", "method": 0, "enc": "pw"}, {"op": "Write", "data": "an encrypted entry"}]
    progs.append(("enc-closed-by-finish", [], {"op": "New"}, enc_e + [{"op": "Finish"}]))          # (the writer is released afterwards)
    progs.append(("enc-closed-by-dir", [], {"op": "New"}, enc_e + [{"op": "AddDir", "name": "d", "method": 0}, {"op": "Write", "data": "x"}, {"op": "Finish"}]))
    progs.append(("enc-closed-by-symlink", [], {"op": "New"}, enc_e + [{"op": "AddSymlink", "name": "l", "target": "t", "method": 0}, {"op": "Flush"}, {"op": "Finish"}]))
    progs.append(("enc-closed-by-drop", [], {"op": "New"}, [{"op": "StartFile", "name": "plain", "method": 8}, {"op": "Write", "data": "plain"}] + enc_e + [{"op": "Drop"}]))
    progs.append(("enc-then-short", [], {"op": "New"}, enc_e + [{"op": "StartFile", "name": "next", "method": 0}, {"op": "Write", "data": "tiny"}, {"op": "Finish"}]))
    nrand = 6 if tier == "quick" else 40
    for i in range(nrand):
        s = g.valid_archive("x", nmax=5, enc_ok=True, end=rnd.choice(["Finish", "Drop"]))
        progs.append(("rand%d" % i, [], {"op": "New"}, s["ops"][1:]))
    # baselines -> operation counts
    base_scs = [{"sc": "%s#base" % name, "ops": pre + [start] + body} for name, pre, start, body in progs]
    pfile, tfile = os.path.join(wd, "wbase-programs.ndjson"), os.path.join(wd, "wbase-trace.ndjson")
    vlib.write_ndjson(pfile, base_scs)
    vlib.run_harness(["wexec", pfile, tfile])
    evs = vlib.read_ndjson(tfile)
    fruns = []
    faults = []
    opcount = {}
    for name, pre, start, body in progs:
        seg = [e for e in evs if e.get("sc") == "%s#base" % name]
        b = summarise_writer_run(seg, name, -1)
        fruns.append([{"ev": "Reset", "sc": name}, b])
        opcount[name] = b["ops"]
        ks = list(range(b["ops"]))
        if tier == "quick" and len(ks) > 400:
            ks = sorted(rnd.sample(ks, 400))
        for k in ks:
            faults.append({"sc": "%s#%d" % (name, k), "ops": pre + [dict(start, fault_at=k)] + body, "_name": name, "_k": k})
        # the SOURCE archive of each raw copy fails at its j-th operation (opening it, locating the entry, or - the part that
        # matters - while its data is being transferred): the copy must report it or be complete
        for oi, o in enumerate(body):
            if o.get("op") != "RawCopy":
                continue
            nsrc = [e for e in seg if e.get("ev") == "RawCopy"][len([x for x in body[:oi] if x.get("op") == "RawCopy"])].get("src_ops", 0)
            for j in range(nsrc):
                b2 = [dict(x) for x in body]
                b2[oi] = dict(o, src_under={"fault_at": j})
                faults.append({"sc": "%s#src%d-%d" % (name, oi, j), "ops": pre + [start] + b2, "_name": name, "_k": 100000 + oi * 1000 + j})
            opcount["%s:source-of-copy-%d" % (name, oi)] = nsrc
    rep.notes["writer_ops_per_scenario"] = opcount
    pfile, tfile = os.path.join(wd, "wfault-programs.ndjson"), os.path.join(wd, "wfault-trace.ndjson")
    vlib.write_ndjson(pfile, [{k: v for k, v in s.items() if not k.startswith("_")} for s in faults])
    vlib.run_harness(["wexec", pfile, tfile])
    segs = {}
    for e in vlib.read_ndjson(tfile):
        segs.setdefault(e.get("sc"), []).append(e)
    by_name = {}
    base_ents = {hdr[0]["sc"]: hdr[1].get("_ents", []) for hdr in fruns}
    for s in faults:
        fr = summarise_writer_run(segs.get(s["sc"], []), s["_name"], s["_k"], src_fault=s["_k"] >= 100000)
        # an archive that finish() reports as written still holds, unchanged, every entry that was closed before the failing call
        if fr["finished"]:
            n_ = fr["_nsafe"]
            fr["closed_intact"] = len(fr["_ents"]) >= n_ and fr["_ents"][:n_] == base_ents.get(s["_name"], [])[:n_]
        by_name.setdefault(s["_name"], []).append(fr)
    # ---- reader scenarios: the source fails at operation k (open + read-all; streaming with partial reads)
    rseeds = read_seeds(rnd)
    z64, _ = refzip.build({"entries": [{"name": b"z1", "method": 8, "data": b"zip64 " * 40, "z64": {"usize", "csize", "off"}, "lz64": True},
                                        {"name": b"z2", "method": 0, "data": b"second"}], "z64end": True, "prefix": b"junk-prefix"})
    rscs = []
    for name, b, v, pws in rseeds:
        epw = [pws[0].hex() if e["enc"] is not None else None for e in v["entries"]]
        rscs.append({"sc": "r-" + name, "hex": b.hex(), "via": "seek", "epw": epw})
        if name != "plain":      # small caller buffers: the last chunk of an encrypted entry and its trailer are separate calls
            rscs.append({"sc": "r-%s-buf8" % name, "hex": b.hex(), "via": "seek", "epw": epw, "buf": 8})
        if name == "plain":
            rscs.append({"sc": "r-plain-stream", "hex": b.hex(), "via": "stream", "epw": []})
            # the same through read_to_end (buf = 0): an entry whose first read fails must stay usable (read again, release)
            rscs.append({"sc": "r-plain-rte", "hex": b.hex(), "via": "seek", "epw": epw, "buf": 0})
            rscs.append({"sc": "r-plain-stream-rte", "hex": b.hex(), "via": "stream", "epw": [], "buf": 0})
        if name == "ae2":
            rscs.append({"sc": "r-ae2-rte", "hex": b.hex(), "via": "seek", "epw": epw, "buf": 0})
    rscs.append({"sc": "r-zip64", "hex": z64.hex(), "via": "seek", "epw": []})
    # a source that returns short reads: releasing a partly read entry then has real draining to do
    pb = next(b for n, b, v, p in rseeds if n == "plain")
    rscs.append({"sc": "r-plain-stream-short", "hex": pb.hex(), "via": "stream", "epw": [], "under": {"max": 5}})
    rscs.append({"sc": "r-plain-short", "hex": pb.hex(), "via": "seek", "epw": [], "under": {"max": 7}})
    # an archive whose last entry is itself a (stored) archive: a second complete end record lies inside the search window
    inner, _ = refzip.build({"entries": [{"name": b"inner-a", "method": 0, "data": b"inner data a"}, {"name": b"inner-b", "method": 0, "data": b"bb"}]})
    nested, _ = refzip.build({"entries": [{"name": b"outer.txt", "method": 8, "data": b"outer " * 20}, {"name": b"nested.zip", "method": 0, "data": inner}]})
    rscs.append({"sc": "r-nested", "hex": nested.hex(), "via": "seek", "epw": []})
    # every entry (the last one too) has extra data, a file comment and a non-ASCII name: a failing read of any variable-length part
    # of a central record must surface, not come back as a record with that part missing
    xz, _ = refzip.build({"entries": [{"name": "x/é-%d".encode() % k, "utf8": True, "method": (0, 8, 12)[k], "data": b"extra %d " % k * (k + 3),
                                       "cextra": [(0xbeef, b"central-%d" % k), (0x5455, b"\x01" + bytes(4))], "lextra": [(0xcafe, b"local-%d" % k)],
                                       "fcomment": b"comment of entry %d" % k, "z64": {"usize"} if k == 2 else set()} for k in range(3)],
                          "comment": b"archive comment"})
    rscs.append({"sc": "r-extras", "hex": xz.hex(), "via": "seek", "epw": []})
    rscs.append({"sc": "r-extras-stream", "hex": xz.hex(), "via": "stream", "epw": []})
    for s in rscs:
        s["faults"] = [None]
    pfile, tfile = os.path.join(wd, "rbase.ndjson"), os.path.join(wd, "rbase-trace.ndjson")
    vlib.write_ndjson(pfile, rscs)
    vlib.run_harness(["fexec", pfile, tfile])
    rbase = {e["sc"]: e for e in vlib.read_ndjson(tfile)}
    for s in rscs:
        ks = list(range(rbase[s["sc"]]["ops"]))
        if tier == "quick" and len(ks) > 500:
            ks = sorted(rnd.sample(ks, 500))
        s["faults"] = ks
        opcount[s["sc"]] = rbase[s["sc"]]["ops"]
    pfile, tfile = os.path.join(wd, "rfault.ndjson"), os.path.join(wd, "rfault-trace.ndjson")
    vlib.write_ndjson(pfile, rscs)
    vlib.run_harness(["fexec", pfile, tfile])
    rruns = {}
    for e in vlib.read_ndjson(tfile):
        rruns.setdefault(e["sc"], []).append(e)
    # ---- one trace for TLC: per scenario Reset, base run, fault runs
    allev = []
    nruns = 0
    for (hdr) in fruns:
        name = hdr[0]["sc"]
        allev += hdr + by_name.get(name, [])
        nruns += len(by_name.get(name, []))
    for s in rscs:
        allev += [{"ev": "Reset", "sc": s["sc"]}, rbase[s["sc"]]] + rruns.get(s["sc"], [])
        nruns += len(rruns.get(s["sc"], []))
    trace = os.path.join(wd, "faults-trace.ndjson")
    for e in allev:            # (TLC's JSON reader has no null)
        for kk in list(e):
            if kk.startswith("_"):
                del e[kk]
            elif e[kk] is None:
                e[kk] = []
    vlib.write_ndjson(trace, allev)
    res = vlib.validate_segments("Trace_Fault.tla", "Trace_Fault.cfg", trace, wd, tag="faults", max_rejections=8)
    scen = {name: {"sc": name, "ops": pre + [start] + body} for name, pre, start, body in progs}
    scen.update({s["sc"]: {"sc": s["sc"], "hex": s["hex"], "via": s["via"]} for s in rscs})
    rep.add_tv(res, scen, "faults")
    rep.evaluations += nruns
    for e in allev:
        if e.get("ev") == "FRun":
            rep.distinct.add((e["sc"], e["k"]))
    stats = rep.notes.setdefault("run_outcomes", {})
    for e in allev:
        if e.get("ev") == "FRun" and e["k"] >= 0:
            key = "%s:%s" % (e["side"], "panic" if e["panic"] else ("error-reported" if e["anyerr"] else "identical-result"))
            stats[key] = stats.get(key, 0) + 1
    rep.samples.append({"fault_run": {k: allev[2][k] for k in ("sc", "k", "anyerr", "panic", "first_err", "finished")}})
    rep.notes["exhaustive_per_scenario"] = (tier == "thorough")
    # negative control: a swallowed error must be rejected
    seg = allev[:3]
    def mutate(es):
        es[2]["anyerr"] = False
        es[2]["finished"] = False
        es[1]["anyerr"] = False
        return "fault run presented as 'no error reported, result differs'"
    nc = vlib.corrupt_and_expect_reject("Trace_Fault.tla", "Trace_Fault.cfg", seg, wd, mutate, tag="faults-neg")
    rep.neg_controls.append(nc)
    if not nc["rejected"]:
        raise ToolTrouble("negative control did not fire")
    return rep.finish("fault_enumeration",
                      "for each scenario (writer: all entry kinds/methods/extra data/aligned/encrypted, finish and drop, raw copy, append onto own and "
                      "foreign bases, random programs; reader: open + read-all of plain/ZipCrypto/AE-1/AE-2/ZIP64+prefix archives, streaming with partial "
                      "reads) the I/O operations of the failure-free run are counted and the run is repeated with a hard error injected at operation k "
                      "(quick: up to 160-250 sampled k per scenario; thorough: every k), continuing with the remaining calls, finish and drop; each "
                      "run is one event judged by Faults!Law (no panic; an error was reported or the entries/metadata/contents equal the failure-free "
                      "run); distinct = (scenario, k) pairs",
                      assumptions=["single fault per run", "result comparison is on entries, metadata, contents and comment, not on offsets"])


def apalache(spec, args, wd, tag):
    out = os.path.join(wd, "apalache-" + tag)
    p = subprocess.run(["apalache-mc", "check"] + args + ["--out-dir=" + out, os.path.join(vlib.SPEC, spec)],
                       stdout=subprocess.PIPE, stderr=subprocess.STDOUT, text=True, timeout=900, cwd=wd)
    import shutil
    shutil.rmtree(out, ignore_errors=True)
    return "EXITCODE: OK" in p.stdout and "NoError" in p.stdout, p.stdout[-1500:]


def c06(tier):
    import itertools
    import refzip
    rep = Report("C06", tier)
    wd = vlib.workdir("C06", tier)
    vlib.build_harness()
    cfg = "MC_PathSan.cfg"
    if tier == "thorough":
        cfg = os.path.join(wd, "MC_PathSan8.cfg")
        open(cfg, "w").write(open(os.path.join(vlib.SPEC, "MC_PathSan.cfg")).read().replace("MaxLen = 6", "MaxLen = 8"))
    r = vlib.tlc_mc("MC_PathSan.tla", cfg, wd, timeout=1500, tag="mc-path")
    rep.add_mc(r, os.path.basename(cfg))
    if r["error"]:
        rep.spec_violation(r, "MC_PathSan")
    if tier == "thorough":
        # the depth-counter walk over names of unbounded length: inductive invariant, discharged by Apalache
        obl = [("init", ["--init=Init", "--inv=IndInv", "--length=0"]), ("step", ["--init=IndInit", "--inv=IndInv", "--length=1"]),
               ("safety", ["--init=IndInit", "--inv=Safety", "--length=0"])]
        done = 0
        for name, args in obl:
            ok, tail = apalache("PathWalk.tla", args, wd, name)
            if not ok:
                log(tail)
                raise ToolTrouble("Apalache did not discharge PathWalk obligation " + name)
            done += 1
        rep.notes["apalache_obligations"] = {"obligations": len(obl), "discharged": done, "spec": "PathWalk.tla (IndInv: init, step, implies Safety)"}
    sd = vlib.seed()
    rnd = random.Random(sd * 6007 + 6)
    names = []
    # every string over {a . / \ NUL} up to 6 (thorough: 7) characters
    alpha = [b"a", b".", b"/", b"\\", b"\x00"]
    maxlen = 6 if tier == "quick" else 7
    for ln in range(0, maxlen + 1):
        for t in itertools.product(alpha, repeat=ln):
            names.append(b"".join(t))
    # component sequences (up to 6) with separator placements
    comps = [b"a", b".", b"..", b"", b"b\\c", b"..\\x", b"...", b" ", b"C:", b"a\x00b", b"\x00"]
    for _ in range(3000 if tier == "quick" else 200000):
        k = rnd.randint(1, 6)
        parts = [rnd.choice(comps) for _ in range(k)]
        sep = [rnd.choice([b"/", b"\\", b"//"]) for _ in range(k - 1)]
        s = rnd.choice([b"", b"/", b"\\"]) + b"".join(p + (sep[i] if i < k - 1 else b"") for i, p in enumerate(parts)) + rnd.choice([b"", b"/", b"\\"])
        names.append(s)
    # random Unicode / control-character names
    for _ in range(500 if tier == "quick" else 20000):
        n = rnd.choice([1, 3, 10, 40, 200])
        s = "".join(chr(rnd.choice([rnd.randrange(0, 128), rnd.randrange(0, 128), 46, 47, 92, rnd.randrange(0x80, 0x800), rnd.randrange(0x4e00, 0x9fff)])) for _ in range(n))
        names.append(s.encode()[:500])
    names = list(dict.fromkeys(names))
    # names whose BYTES are not what the accessors see: CP437 high bytes and ill-formed UTF-8 around NUL and separators (the decoded
    # string is longer than the stored bytes, so byte offsets into one are not offsets into the other) - with and without the flag
    hi = [b"".join(t) for ln in range(1, 5) for t in itertools.product([b"a", b"\x80", b"\x00", b"/", b"\xc3", b".."], repeat=ln)]
    hi = [h for h in hi if any(c >= 0x80 for c in h)]
    rep.notes["names"] = len(names) + 2 * len(hi)
    scs = []
    per = 400
    for i in range(0, len(names), per):
        ents = [{"name": nm, "utf8": not (k % 3 == 0 and all(c < 0x80 for c in nm)), "method": 0, "data": b""} for k, nm in enumerate(names[i:i + per])]
        b, v = refzip.build({"entries": ents})
        scs.append({"sc": "pa%06d" % i, "hex": b.hex(), "expect": [], "paths": True, "max_entries": 0})
    for flag in (False, True):
        for i in range(0, len(hi), per):
            b, v = refzip.build({"entries": [{"name": nm, "utf8": flag, "method": 0, "data": b""} for nm in hi[i:i + per]]})
            scs.append({"sc": "ph%d-%06d" % (flag, i), "hex": b.hex(), "expect": [], "paths": True, "max_entries": 0})
    progs = os.path.join(wd, "paths-scenarios.ndjson")
    trace = os.path.join(wd, "paths-trace.ndjson")
    vlib.write_ndjson(progs, scs)
    vlib.run_harness(["rexec", progs, trace])
    # keep only the path events (the rest of these traces belongs to C03's trace spec)
    evs = [e for e in vlib.read_ndjson(trace) if e.get("ev") in ("RPath", "Reset")]
    vlib.write_ndjson(trace, evs)
    res = vlib.validate_segments("Trace_Path.tla", "Trace_Path.cfg", trace, wd, tag="paths")
    rep.add_tv(res, {s["sc"]: {"sc": s["sc"], "hex": s["hex"][:200000]} for s in scs}, "paths")
    # the streaming metadata's twins on a sample
    sscs = []
    for i in range(0, len(names), per * (8 if tier == "quick" else 1)):
        # (ASCII names also without the UTF-8 flag: the CP437 branch of the readers sees them too)
        ents = [{"name": nm, "utf8": not (k % 2 == 0 and all(c < 0x80 for c in nm)), "method": 0, "data": b"x"} for k, nm in enumerate(names[i:i + 60])]
        b, v = refzip.build({"entries": ents})
        sscs.append({"sc": "ps%06d" % i, "hex": b.hex(), "plan": [0] * len(ents), "pcrc": ["00000000"] * len(ents), "visitor": True})
    progs = os.path.join(wd, "spaths-scenarios.ndjson")
    strace = os.path.join(wd, "spaths-trace.ndjson")
    vlib.write_ndjson(progs, sscs)
    vlib.run_harness(["sexec", progs, strace])
    sev = [e for e in vlib.read_ndjson(strace) if e.get("ev") in ("SPath", "Reset")]
    vlib.write_ndjson(strace, sev)
    res2 = vlib.validate_segments("Trace_Path.tla", "Trace_Path.cfg", strace, wd, tag="spaths")
    rep.add_tv(res2, {s["sc"]: {"sc": s["sc"], "hex": s["hex"][:200000]} for s in sscs}, "spaths")
    # beyond the property: the writer's deprecated *_from_path calls build the entry name from the ordinary components
    fcases = [{"hex": nm.hex(), "dir": (k % 3 == 0)} for k, nm in enumerate(names) if b"\x00" not in nm and len(nm) <= 300]
    if tier == "quick":
        fcases = fcases[::4]
    fp = os.path.join(wd, "frompath-cases.ndjson")
    ft = os.path.join(wd, "frompath-trace.ndjson")
    vlib.write_ndjson(fp, [{"sc": "fp%04d" % (i // 2000), "paths": fcases[i:i + 2000]} for i in range(0, len(fcases), 2000)])
    vlib.run_harness(["fpexec", fp, ft])
    res3 = vlib.validate_segments("Trace_Path.tla", "Trace_Path.cfg", ft, wd, tag="frompath")
    rep.add_tv(res3, {}, "frompath")
    rep.notes["from_path_cases"] = len(fcases)
    rep.notes["spec_counters"] = dict(vlib.LAST_STATS)
    rep.evaluations += len(names) + len(sev)
    for nm in names:
        rep.distinct.add(nm)
    ex = next(e for e in evs if e.get("ev") == "RPath" and len(e["raw"]) > 3)
    rep.samples.append({"name_bytes": ex["raw"], "enclosed": ex["enclosed"], "mangled": ex["mangled"]})
    seg = [e for e in evs if e.get("sc") == scs[0]["sc"]][:40]
    k = next(i for i, e in enumerate(seg) if e.get("ev") == "RPath" and e["enclosed"])
    def mutate(es, k=k):
        es[k]["enclosed"] = []
        return "RPath[%d].enclosed replaced by None" % k
    nc = vlib.corrupt_and_expect_reject("Trace_Path.tla", "Trace_Path.cfg", seg, wd, mutate, tag="paths-neg")
    rep.neg_controls.append(nc)
    if not nc["rejected"]:
        raise ToolTrouble("negative control did not fire")
    lvl = "model_checking"
    return rep.finish(lvl,
                      "MC_PathSan: EnclosedSafe/EnclosedComplete/MangledSafe for every name over {a . / \\ NUL} up to 6 (thorough 8) characters; "
                      "thorough additionally discharges the inductive invariant of the depth walk for names of unbounded length with Apalache "
                      "(PathWalk.tla); binding: every such string (thorough: up to 7 characters), component sequences of up to 6 components with "
                      "'/', '\\', '//' separators, leading/trailing separators and NULs, and random Unicode/control names are put into archives by the "
                      "independent builder; enclosed_name/mangled_name of the seekable reader and of the streaming metadata must equal "
                      "PathSan!Enclosed/Mangled computed by TLC from the name bytes",
                      assumptions=["Unix host path semantics", "names in TLA+-decided cases are <= 500 bytes"])



def run_trace(rep, wd, module, trace, label, scen=None):
    """validate a prepared trace file with a trace spec; rejections become violations"""
    res = vlib.validate_segments(module + ".tla", module + ".cfg", trace, wd, tag=label)
    rep.add_tv(res, scen or {}, label)
    counts = rep.notes.setdefault("events_by_call", {})
    for e in vlib.read_ndjson(trace):
        counts[e.get("ev", "?")] = counts.get(e.get("ev", "?"), 0) + 1
    rep.notes["spec_counters"] = dict(vlib.LAST_STATS)
    return res


def c18(tier):
    import refzip
    rep = Report("C18", tier)
    wd = vlib.workdir("C18", tier)
    vlib.build_harness()
    # model level: all laws of DosTime.tla; the run also writes the tables the harness sweeps against
    cfg = os.path.join(wd, "MC_DosTime_emit.cfg")
    open(cfg, "w").write(open(os.path.join(vlib.SPEC, "MC_DosTime.cfg")).read().replace("Emit = FALSE", "Emit = TRUE"))
    tables = os.path.join(wd, "dostime-tables.json")
    r = vlib.tlc_mc("MC_DosTime.tla", cfg, wd, timeout=600, tag="mc-dostime", env={"OUT": tables})
    rep.add_mc(r, "MC_DosTime.cfg")
    if r["error"]:
        rep.spec_violation(r, "MC_DosTime.cfg")
    if not os.path.exists(tables):
        raise ToolTrouble("MC_DosTime did not write its tables")
    for bug, inv in (("month3", "WordsRoundTrip"), ("sec_raw", "WordsRoundTrip"), ("leap100", "Calendar")):
        if tier == "quick" and bug == "sec_raw":
            continue
        r = vlib.tlc_mc("MC_DosTime.tla", "MC_DosTime_%s.cfg" % bug, wd, timeout=300, tag="mc-" + bug)
        found = bool(r["error"]) and inv in r["error"]
        rep.neg_controls.append({"spec_mutant": bug, "expected_violation": inv, "found": found})
        if not found:
            raise ToolTrouble("spec mutant %s not detected" % bug)
    sd = vlib.seed()
    rnd = random.Random(sd * 8191 + 18)
    cases = [{"sc": "sweep", "kind": "sweep", "tables": tables, "tstep": 1, "tt_step": 1}]
    # constructor: each field exhaustively over its whole machine type with the others at valid anchors,
    # the full boundary-neighbour product, random joint values
    anchors = [(1980, 1, 1, 0, 0, 0), (2107, 12, 31, 23, 59, 60), (2024, 2, 29, 12, 30, 31)]
    args = []
    for an in anchors:
        ys = range(0, 65536) if (tier == "thorough" or an == anchors[0]) else list(range(1970, 2120)) + [0, 65535, 32768]
        for y in ys:
            args.append((y,) + an[1:])
        for f in range(1, 6):
            for v in range(256):
                a = list(an)
                a[f] = v
                args.append(tuple(a))
    import itertools
    args += list(itertools.product((1979, 1980, 2107, 2108), (0, 1, 12, 13), (0, 1, 28, 31, 32), (0, 23, 24), (0, 59, 60), (0, 1, 59, 60, 61)))
    for _ in range(3000 if tier == "quick" else 60000):
        if rnd.random() < 0.5:
            args.append((rnd.randrange(1975, 2112), rnd.randrange(0, 15), rnd.randrange(0, 34), rnd.randrange(0, 26), rnd.randrange(0, 62), rnd.randrange(0, 63)))
        else:
            args.append((rnd.randrange(65536), rnd.randrange(256), rnd.randrange(256), rnd.randrange(256), rnd.randrange(256), rnd.randrange(256)))
    for i in range(0, len(args), 4000):
        cases.append({"sc": "ctor%04d" % (i // 4000), "kind": "ctor", "args": [list(a) for a in args[i:i + 4000]]})
    # words: every date word at boundary times (calendar validity incl. day 0/32-like words, month 0/13..15), random pairs
    times = [0, 0xFFFF, (23 << 11) | (59 << 5) | 29, (23 << 11) | (59 << 5) | 30, (24 << 11), (23 << 11) | (60 << 5), (12 << 11) | (30 << 5) | 15]
    words = []
    for d in range(65536):
        ts = times if tier == "thorough" else [times[(d * 7 + sd) % len(times)]]
        for t in ts:
            words.append((d, t))
    for t in range(0, 65536, 1 if tier == "thorough" else 5):
        words.append(((44 << 9) | (2 << 5) | 29, t))
    for _ in range(4000 if tier == "quick" else 100000):
        words.append((rnd.randrange(65536), rnd.randrange(65536)))
    for i in range(0, len(words), 4000):
        cases.append({"sc": "words%04d" % (i // 4000), "kind": "words", "w": [list(w) for w in words[i:i + 4000]]})
    # TryFrom: every calendar day 1979-01-01 .. 2108-12-31 (+ far outside), boundary seconds of day
    import datetime
    d0 = (datetime.date(1979, 1, 1) - datetime.date(1970, 1, 1)).days
    d1 = (datetime.date(2108, 12, 31) - datetime.date(1970, 1, 1)).days
    sods = [0, 1, 59, 60, 3599, 3600, 43200, 86398, 86399]
    zs = []
    for z in range(d0, d1 + 1):
        for sod in (sods if tier == "thorough" else [sods[(z + sd) % len(sods)]]):
            zs.append((z, sod))
    for y in (1, 1000, 1582, 1900, 1969, 1970, 2200, 9999):
        z = (datetime.date(y, 1, 1) - datetime.date(1970, 1, 1)).days
        zs += [(z, 0), (z + 58, 86399), (z + 364, 12345)]
    zs += [(-719468, 0), (-1, 86399), (0, 0)]
    for i in range(0, len(zs), 4000):
        cases.append({"sc": "tryfrom%04d" % (i // 4000), "kind": "tryfrom", "z": [list(z) for z in zs[i:i + 4000]]})
    # archive round trips: accepted constructor values, arbitrary words, a foreign archive with arbitrary words
    na = 40 if tier == "quick" else 1500
    for i in range(na):
        acc = [(rnd.randrange(1980, 2108), rnd.randrange(1, 13), rnd.randrange(1, 32), rnd.randrange(24), rnd.randrange(60), rnd.randrange(61)) for _ in range(24)]
        acc += [(1980, 1, 1, 0, 0, 0), (2107, 12, 31, 23, 59, 60), (2107, 12, 31, 23, 59, 59)]
        cases.append({"sc": "arc-ctor%04d" % i, "kind": "archive_ctor", "args": [list(a) for a in acc]})
        ws = [(rnd.randrange(65536), rnd.randrange(65536)) for _ in range(24)] + [(0, 0), (0xFFFF, 0xFFFF), (0x21, 0)]
        cases.append({"sc": "arc-words%04d" % i, "kind": "archive_words", "w": [list(w) for w in ws]})
        ents = [{"name": b"t%d" % k, "method": rnd.choice([0, 8]), "data": b"x" * k, "date": rnd.randrange(65536), "time": rnd.randrange(65536),
                 "system": rnd.choice([3, 3, 0, 7]), "eattr": rnd.choice([0o100644 << 16, 0, 0x20, 0o40755 << 16]),
                 # (a more precise timestamp in an extra field does not change what the DOS words say)
                 "cextra": [(0x5455, b"\x01" + (946684800 + 86400 * k + 3600 * 5).to_bytes(4, "little"))] if k % 3 == 0 else [],
                 "lextra": [(0x5455, b"\x03" + (946684800 + 86400 * k).to_bytes(4, "little") * 2)] if k % 3 == 0 else []} for k in range(12)]
        b, v = refzip.build({"entries": ents})
        cases.append({"sc": "foreign%04d" % i, "kind": "foreign", "hex": b.hex()})
    progs = os.path.join(wd, "dostime-cases.ndjson")
    trace = os.path.join(wd, "dostime-trace.ndjson")
    vlib.write_ndjson(progs, cases)
    vlib.run_harness(["texec", progs, trace])
    run_trace(rep, wd, "Trace_DosTime", trace, "dostime", {c["sc"]: {"sc": c["sc"], "kind": c["kind"]} for c in cases})
    evs = vlib.read_ndjson(trace)
    sw = next(e for e in evs if e.get("ev") == "TSweep")
    rep.notes["sweep"] = {k: sw[k] for k in ("dwords", "twords", "tstep", "mismatches", "panics", "to_time_checked_k", "to_time_ok_k")}
    rep.evaluations += sw["dwords"] * sw["twords"] + len(args) + len(words) + len(zs)
    for a in args:
        rep.distinct.add(("c",) + a)
    for w in words:
        rep.distinct.add(("w",) + w)
    for z in zs:
        rep.distinct.add(("z",) + z)
    rep.samples.append(next(e for e in evs if e.get("ev") == "TCtor" and e.get("r") == "ok"))
    rep.samples.append(next(e for e in evs if e.get("ev") == "TArchive"))
    # binding demonstration: perturb one logged field in each family
    for evn, fld in (("TCtor", "tp"), ("TWords", "days"), ("TArchive", "lt")):
        seg = [{"ev": "Reset", "sc": "neg"}] + [dict(e, sc="neg") for e in evs if e.get("ev") == evn and e.get("r", "ok") == "ok" and e.get("tt", "ok") in ("ok",) or (e.get("ev") == evn == "TCtor" and e.get("r") == "ok")][:5]

        def mutate(es, fld=fld, evn=evn):
            es[-1][fld] = es[-1][fld] + 1
            return "%s.%s off by one" % (evn, fld)
        nc = vlib.corrupt_and_expect_reject("Trace_DosTime.tla", "Trace_DosTime.cfg", seg, wd, mutate, tag="dostime-neg")
        rep.neg_controls.append(nc)
        if not nc["rejected"]:
            raise ToolTrouble("negative control did not fire: " + nc["mutation"])
    return rep.finish("model_checking",
                      "MC_DosTime: pack/unpack identities for all 2^16 date and 2^16 time words, constructor range vs calendar, two independent "
                      "day-count formulations + inverse for every day 1979..2108 (spec mutants month3/sec_raw/leap100 found); spec -> impl: the tables "
                      "TLC computes from DosTime.tla are swept against from_msdos + six accessors + datepart/timepart + to_time + TryFrom for ALL "
                      "2^32 (date, time) pairs; impl -> spec: constructor with each field exhaustive over its machine type + boundary product + random "
                      "joints, every date word at boundary times, TryFrom on every day 1979-01-01..2108-12-31 and far outside, archive round trips "
                      "(accepted values; arbitrary words; foreign archives; re-writing what was read, via writer and raw copy) with the words lexed "
                      "independently from the bytes - all validated against DosTime.tla by Trace_DosTime",
                      assumptions=["the `time` crate's OffsetDateTime <-> unix timestamp mapping is the calendar referee's trusted base only in the sense that its results must equal the spec's day count",
                                   "UTC offsets only (DateTime has no zone)"])



def extract_archives(rnd, n, sbx_abs):
    """entry lists for extraction: trees (safe + mutually consistent), decorated names ('.', '..' detours,
    doubled separators, backslashes, non-ASCII), conflicts, and attacks ('..' chains, absolute names aimed
    at the canary, NUL)"""
    import refzip
    out = []
    comps = [b"a", b"b", b"sub dir", "ünï".encode(), b"x.txt", b"a\\b", b"...", b"C", b".hidden", b"l2"]

    def rel(depth):
        return [rnd.choice(comps) for _ in range(depth)]

    def decorate(cs):
        o = []
        for c in cs:
            r = rnd.random()
            if r < 0.08:
                o += [b".", c]
            elif r < 0.16:
                o += [c, b"..", c]             # down, up, down again
            elif r < 0.2:
                o += [b"", c]                  # doubled separator
            else:
                o.append(c)
        return o
    attacks = [b"../C/x", b"../../pwn", b"../../../pwn3", b"a/../../C/x", b"a/b/../../../C/x", sbx_abs.encode() + b"/C/x", b"/zv_abs_canary",
               b"..", b"../", b"a\x00b", b"\x00", b"a/../..", b"./../C/x", b"a/./../../C/new", b"..\\C\\x", b"/", b"C/../../C/x"]
    for i in range(n):
        kind = rnd.choice(["tree", "tree", "tree", "decorated", "conflict", "attack", "attack", "mixed"])
        ents = []
        k = rnd.randint(1, 6)
        for j in range(k):
            cs = rel(rnd.randint(1, 3))
            if kind in ("decorated", "mixed"):
                cs = decorate(cs)
            isdir = rnd.random() < 0.3
            name = b"/".join(cs) + (b"/" if isdir else b"")
            if kind == "conflict" and j > 0 and rnd.random() < 0.6:
                prev = ents[rnd.randrange(len(ents))]["name"]
                name = rnd.choice([prev, prev.rstrip(b"/") + b"/", prev.rstrip(b"/") + b"/child", prev.rstrip(b"/")])
            if kind in ("attack", "mixed") and rnd.random() < (0.5 if kind == "attack" else 0.15):
                name = rnd.choice(attacks)
                if rnd.random() < 0.3:
                    name = rnd.choice([b"a/", b"b/c/"]) + name.lstrip(b"/") if not name.startswith(b"/") else name
            isdir = name.endswith(b"/")
            m = rnd.random()
            system, eattr, mode = 3, 0, -1
            if m < 0.55:
                perm = rnd.choice([0o644, 0o600, 0o755, 0o444, 0o000, 0o777, 0o640, rnd.randrange(512)])
                if isdir:
                    perm |= 0o700
                typ = 0o040000 if isdir else rnd.choice([0o100000, 0o100000, 0o120000, 0])
                mode = typ | perm
                eattr = mode << 16
                if mode == 0:
                    mode = -1
            elif m < 0.7:
                system = 0                      # made by DOS: mode derived from the attribute byte
                ro = rnd.random() < 0.4 and not isdir
                eattr = (0x10 if isdir else 0x20) | (1 if ro else 0)
                mode = (0o40775 if isdir else 0o100664)
                if ro:
                    mode &= 0o555
            data = b"" if isdir else bytes(rnd.randrange(256) for _ in range(rnd.choice([0, 1, 5, 300])))
            # (directory entries and empty files may be "compressed" too - Java and Go writers deflate them: size 0, a few stored bytes)
            ents.append({"name": name, "utf8": True, "method": rnd.choice([0, 0, 8, 12]) if (isdir or not data) else rnd.choice([0, 8]), "data": data,
                         "system": system, "eattr": eattr, "_mode": mode})
        try:
            for e in ents:
                e["name"].decode("utf-8")
        except UnicodeDecodeError:
            continue
        # the name in the local header may differ from the central one (a front-to-back reader writes files under the
        # local names and applies modes under the central names; the seekable extractor only sees the central names)
        if rnd.random() < 0.2:
            for e in ents:
                if rnd.random() < 0.6:
                    e["lname"] = rnd.choice([b"/".join(rel(rnd.randint(1, 2))) + (b"/" if e["name"].endswith(b"/") else b""), rnd.choice(attacks)])
                    if rnd.random() < 0.5:       # safe local name, hostile central name with a mode to apply
                        e["lname"], e["name"] = (b"/".join(rel(2)) + (b"/" if e["name"].endswith(b"/") else b"")), rnd.choice(attacks[:7])
                    try:
                        e["lname"].decode("utf-8"), e["name"].decode("utf-8")
                    except UnicodeDecodeError:
                        e.pop("lname")
            kind = "diverge"
        if i % 9 == 4:
            # a symlink-typed entry whose content names a place outside the target (or the target itself), followed by entries whose
            # names pass THROUGH it: whatever an extractor does with link entries, nothing may be written outside
            tgt = rnd.choice([b"../C", sbx_abs.encode() + b"/C", b"..", b"/", b"../../", b"."])
            lname = rnd.choice([b"link", b"a/link", b"docs"])
            ents = ents[:2] + [{"name": lname, "utf8": True, "method": 0, "data": tgt, "system": 3, "eattr": (0o120777 << 16), "_mode": 0o120777},
                               {"name": lname + b"/pwn.txt", "utf8": True, "method": rnd.choice([0, 8]), "data": b"written through the link", "system": 3,
                                "eattr": (0o100644 << 16), "_mode": 0o100644},
                               {"name": lname + b"/sub/", "utf8": True, "method": 0, "data": b"", "system": 3, "eattr": (0o40755 << 16), "_mode": 0o40755}]
            kind = "symlink"
        elif i % 9 == 7:
            # an entry far larger than any internal buffer (compressed data > 32 KiB, not extremely compressible): it must come out whole
            blob = bytes(rnd.randrange(256) if (j_ // 64) % 3 else 65 for j_ in range(rnd.choice([70000, 200000, 300001])))
            ents = ents[:2] + [{"name": b"big/blob-%d.bin" % i, "utf8": True, "method": rnd.choice([8, 12, 0]), "data": blob, "system": 3,
                                "eattr": (0o100600 << 16), "_mode": 0o100600}] + ents[2:3]
            kind = "big"
        b, v = refzip.build({"entries": [{k2: v2 for k2, v2 in e.items() if not k2.startswith("_")} for e in ents]})
        out.append((kind, b, [{"raw": list(e["name"]), "lraw": list(e.get("lname", e["name"])), "mode": e["_mode"], "data": [len(e["data"]), crc_hex(e["data"])]} for e in ents]))
    return out


def c07(tier):
    rep = Report("C07", tier)
    wd = vlib.workdir("C07", tier)
    vlib.build_harness()
    for cfg in (["MC_Extract.cfg", "MC_Extract3.cfg", "MC_Extract_div.cfg"] if tier == "quick" else ["MC_Extract.cfg", "MC_Extract3.cfg", "MC_Extract_div.cfg", "MC_Extract_full.cfg"]):
        r = vlib.tlc_mc("MC_Extract.tla", cfg, wd, timeout=1800, tag="mc-" + cfg[:-4])
        rep.add_mc(r, cfg)
        if r["error"]:
            rep.spec_violation(r, cfg)
    for bug, inv in (("raw_name", "OutsideUntouched"), ("no_modes", "TreeExact"), ("meta_unchecked", "OutsideUntouched")):
        r = vlib.tlc_mc("MC_Extract.tla", "MC_Extract_%s.cfg" % bug, wd, timeout=300, tag="mc-" + bug)
        found = bool(r["error"]) and inv in r["error"]
        rep.neg_controls.append({"spec_mutant": bug, "expected_violation": inv, "found": found})
        if not found:
            raise ToolTrouble("spec mutant %s not detected" % bug)
    sd = vlib.seed()
    rnd = random.Random(sd * 7717 + 7)
    sbx = os.path.join(wd, "sbx")
    inner = os.path.join(sbx, "l1", "l2")
    n = 500 if tier == "quick" else 12000
    scs = []
    kinds = {}
    for i, (kind, b, ents) in enumerate(extract_archives(rnd, n, inner)):
        kinds[kind] = kinds.get(kind, 0) + 1
        scs.append({"sc": "x%05d-%s" % (i, kind), "hex": b.hex(), "sbx": sbx, "via": ["seek", "stream"], "entries": ents, "abs_canary": "/zv_abs_canary"})
    # the model's own name set, two entries each (spec -> impl on the shapes TLC enumerated)
    import refzip
    mcnames = [b"a", b"a/", b"a/C", b"a/../C", b"C/", b"../C/x", b"/C/x", b"a/./", b"C", b"a/C/", b"./a", b"a//C", b"a\\C", b".", b"./", b"a/.", b"a/.."]
    for i, n1 in enumerate(mcnames):
        for j, n2 in enumerate(mcnames):
            if tier == "quick" and (i * 17 + j + sd) % 3:
                continue
            ents = []
            for nm, md, dt in ((n1, 0o100600, b"one"), (n2, -1, b"two!")):
                isdir = nm.endswith(b"/")
                mode = (0o40755 if isdir else md) if md != -1 else -1
                ents.append({"name": nm, "utf8": True, "method": 0, "data": b"" if isdir else dt, "system": 3, "eattr": (mode << 16) if mode != -1 else 0, "_mode": mode})
            b, v = refzip.build({"entries": [{k2: v2 for k2, v2 in e.items() if not k2.startswith("_")} for e in ents]})
            scs.append({"sc": "m%02d-%02d" % (i, j), "hex": b.hex(), "sbx": sbx, "via": ["seek", "stream"], "abs_canary": "/zv_abs_canary",
                        "entries": [{"raw": list(e["name"]), "lraw": list(e["name"]), "mode": e["_mode"], "data": [len(e["data"]), crc_hex(e["data"])]} for e in ents]})
    # local name safe, central name aimed at the canary (with a mode, so the permission phase has something to do), and vice versa
    for i, (ln, cn) in enumerate([(b"a", b"../C/x"), (b"a", inner.encode() + b"/C/x"), (b"a/b", b"../C"), (b"../C/x", b"a"), (b"a", b"C"), (b"d/", b"../C/"), (b"a", b"a/../../C/x"),
                                  (b"a", b"b"), (b"x/y", b"x/y")]):
        for md in (0o100777, 0o100000, -1):
            isdir = cn.endswith(b"/")
            mode = (0o40777 if isdir else md) if md != -1 else -1
            e = {"name": cn, "lname": ln, "utf8": True, "method": 0, "data": b"" if isdir else b"payload", "system": 3, "eattr": (mode << 16) if mode != -1 else 0}
            other = {"name": b"other.txt", "utf8": True, "method": 8, "data": b"other " * 20, "system": 3, "eattr": 0o100644 << 16}
            b, v = refzip.build({"entries": [other, e]})
            scs.append({"sc": "dv%02d-%o" % (i, md & 0o7777 if md != -1 else 0), "hex": b.hex(), "sbx": sbx, "via": ["seek", "stream"], "abs_canary": "/zv_abs_canary",
                        "entries": [{"raw": list(other["name"]), "lraw": list(other["name"]), "mode": 0o100644, "data": [len(other["data"]), crc_hex(other["data"])]},
                                    {"raw": list(cn), "lraw": list(ln), "mode": mode, "data": [len(e["data"]), crc_hex(e["data"])]}]})
    rep.notes["archive_kinds"] = kinds
    progs = os.path.join(wd, "extract-scenarios.ndjson")
    trace = os.path.join(wd, "extract-trace.ndjson")
    vlib.write_ndjson(progs, scs)
    old = os.umask(0o022)
    try:
        vlib.run_harness(["xexec", progs, trace])
    finally:
        os.umask(old)
    run_trace(rep, wd, "Trace_Extract", trace, "extract", {s["sc"]: {"sc": s["sc"], "hex": s["hex"], "entries": s["entries"]} for s in scs})
    evs = vlib.read_ndjson(trace)
    runs = [e for e in evs if e.get("ev") == "XRun"]
    rep.evaluations += len(runs)
    for e in runs:
        rep.distinct.add(vlib.digest([e["via"], e["entries"]]))
    oc = {}
    for e in runs:
        k = "%s:%s" % (e["via"], e["r"])
        oc[k] = oc.get(k, 0) + 1
    rep.notes["run_outcomes"] = oc
    ex = next(e for e in runs if e["r"] == "ok" and e["ntree"] >= 3)
    rep.samples.append({"names": [bytes(x["raw"]).decode("utf-8", "replace") for x in ex["entries"]], "via": ex["via"], "r": ex["r"],
                        "tree": [["/".join(bytes(c).decode("utf-8", "replace") for c in t["p"]), t["kind"], oct(t["perm"])] for t in ex["tree"]]})
    # binding demonstration: one permission bit / a claimed change outside must be rejected
    seg = [{"ev": "Reset", "sc": "neg"}, dict(ex, sc="neg")]
    for what in ("perm", "outside"):
        def mutate(es, what=what):
            if what == "perm":
                es[1]["tree"][-1]["perm"] ^= 0o100
                return "one permission bit of the extracted tree flipped"
            es[1]["outside_changed"] = True
            return "a change outside the target directory reported"
        nc = vlib.corrupt_and_expect_reject("Trace_Extract.tla", "Trace_Extract.cfg", seg, wd, mutate, tag="extract-neg")
        rep.neg_controls.append(nc)
        if not nc["rejected"]:
            raise ToolTrouble("negative control did not fire: " + nc["mutation"])
    return rep.finish("model_checking",
                      "Extract.tla: operational extraction loops (seekable: mode at once; streaming: modes from the central records afterwards) over an "
                      "abstract file system with the OS resolving '.'/'..' physically, against the declarative tree of the lexically normalised names: "
                      "OutsideUntouched, UnsafeFails, TreeExact, ExtractorsAgree for every list of <= 2 entries over all names of <= 2 (thorough 3) components "
                      "from {a, C, ., ..} with leading/trailing '/', NUL, backslash, doubled separators (and <= 3 entries over a reduced name set), both "
                      "extractors; raw_name and no_modes spec mutants found. Binding: seeded trees, decorated names, conflicts and attacks ('..' chains, absolute "
                      "paths at a canary, NUL) built by the independent builder are extracted by both real extractors into a sandbox whose surroundings are "
                      "snapshotted before/after; result class, confinement and the exact tree (kinds, contents, permission bits) must equal Extract!Run",
                      assumptions=["runs as root with umask 022; directories keep owner rwx", "the target directory initially contains no symbolic links",
                                   "names that conflict with each other leave the tree unspecified (only confinement and no-panic are required)"])



def _fnv64(b):
    h = 0xcbf29ce484222325
    for x in b:
        h ^= x
        h = (h * 0x100000001b3) & 0xFFFFFFFFFFFFFFFF
    return "%016x" % h


def _big(v):
    return [v >> 24, v & 0xFFFFFF]


class ZeroCrc:
    """CRC-32 of head + zeros + tail payloads, computed with zlib (independent of the crate), incrementally"""

    def __init__(self):
        import zlib
        self.z = zlib
        self.cache = {}
        self.block = bytes(1 << 24)

    def crc(self, n, head=b"", tail=b""):
        k = (n, head, tail)
        if k not in self.cache:
            c = self.z.crc32(head)
            left = n - len(head) - len(tail)
            while left > 0:
                m = min(left, len(self.block))
                c = self.z.crc32(self.block[:m] if m < len(self.block) else self.block, c)
                left -= m
            c = self.z.crc32(tail, c)
            self.cache[k] = "%08x" % (c & 0xFFFFFFFF)
        return self.cache[k]


def zip64_scenarios(tier, rnd):
    import zlib
    zc = ZeroCrc()
    T = 1 << 32
    scs = []

    def names_digest(names):
        return "%08x" % (zlib.crc32("".join(_fnv64(n.encode()) for n in names).encode()) & 0xFFFFFFFF)

    def writer_sc(sc, ops, select=None, read=None):
        names, sizes, cur = [], [], None
        for o in ops:
            if o["op"] in ("start", "start_aligned", "start_extra"):
                names.append(o["name"])
            elif o["op"] == "dir":
                names.append(o["name"] + "/")
            elif o["op"] == "bulk":
                for i in range(o["count"]):
                    dirs = o.get("dirs_every", 0)
                    names.append("%s%d" % (o["prefix"], i) + ("/" if dirs and i % dirs == 0 else ""))
        return {"sc": sc, "kind": "write", "ops": ops, "select": select or [1, -1], "read": read or [],
                "expect": {"producer": "writer", "n": len(names), "names_digest": names_digest(names), "sizes": []}}

    def big_entry(sc, size, large, then_small=True, comment=None, extra_first=None):
        """one entry of `size` zero-ish bytes (head/tail markers), optionally followed by a small one"""
        head, tail = b"\xaa\xbb", b"\xcc\xdd\xee"
        ops = []
        if extra_first:
            ops += [{"op": "start", "name": "first", "large": False, "method": 0}, {"op": "data", "data": {"len": extra_first, "seed": 3, "kind": "rand"}}]
        ops += [{"op": "start", "name": "big", "large": large, "method": 0},
                {"op": "zeros", "n": size, "head": head.hex(), "tail": tail.hex()}]
        if then_small:
            ops += [{"op": "start", "name": "after", "large": False, "method": 8}, {"op": "data", "data": "small entry after the big one"},
                    {"op": "dir", "name": "d"}]
        if comment:
            ops.append({"op": "comment", "c": comment})
        ops.append({"op": "finish"})
        k = 2 if extra_first else 1
        s = writer_sc(sc, ops, select=[1, 2, 3, -1], read=[])
        fits = large or size <= T - 1
        if fits:
            s["read"] = [{"i": k, "head": len(head), "tail": len(tail), "expect": {"len": _big(size), "head": head.hex(), "tail": tail.hex()}}]
            s["expect"]["sizes"] = [{"i": k, "usize": _big(size), "crc": zc.crc(size, head, tail)}]
        return s
    # entry sizes at the 32-bit limit, with and without large_file
    sizes = [T - 1, T, T + 1] if tier == "quick" else [T - 2, T - 1, T, T + 1, 5 * (1 << 30)]
    for sz in sizes:
        for large in (False, True):
            if tier == "quick" and (sz, large) in ((T - 1, True), (T + 1, False), (T + 1, True), (T, True)):      # (two-big covers large entries)
                continue
            scs.append(big_entry("size-%d-%s" % (sz, "large" if large else "plain"), sz, large, comment="zip64" if sz % 2 else None))
    # the declaration counts whichever call starts the entry, and it is per entry: a large entry started through the alignment /
    # extra-data calls takes more than 4 GiB; an entry NOT declared large that follows a large one is still refused at the limit
    for how in (("start_aligned", "start_extra") if tier == "thorough" else ("start_aligned",)):
        head, tail = b"\x77", b"\x88"
        ops = [{"op": "start", "name": "small-first", "large": False, "method": 0}, {"op": "data", "data": "a small entry first"},
               {"op": how, "name": "big", "large": True, "method": 0, "align": 4096}, {"op": "zeros", "n": T + 1, "head": head.hex(), "tail": tail.hex()}, {"op": "finish"}]
        s = writer_sc("declared-large-%s" % how, ops, select=[1, 2])
        s["read"] = [{"i": 2, "head": 1, "tail": 1, "expect": {"len": _big(T + 1), "head": head.hex(), "tail": tail.hex()}}]
        s["expect"]["sizes"] = [{"i": 2, "usize": _big(T + 1), "crc": zc.crc(T + 1, head, tail)}]
        scs.append(s)
        ops = [{"op": "start", "name": "large-first", "large": True, "method": 0}, {"op": "data", "data": "declared large, but small"},
               {"op": how, "name": "undeclared", "large": False, "method": 93, "align": 512}, {"op": "zeros", "n": T + 1, "head": "", "tail": ""}, {"op": "finish"}]
        scs.append(writer_sc("undeclared-after-large-%s" % how, ops, select=[1]))
    # the same limit for a compressing method (the compressed size stays tiny, so only the write-side rule can refuse it)
    for sz in ([] if tier == "quick" else [T - 1, T, T + 1]):      # (quick: undeclared-after-large-* above is the compressing-method case)
        ops = [{"op": "start", "name": "z", "large": False, "method": 93}, {"op": "zeros", "n": sz, "head": "", "tail": ""}, {"op": "finish"}]
        s = writer_sc("size-%d-plain-zstd" % sz, ops, select=[1])
        if sz <= T - 1:
            s["expect"]["sizes"] = [{"i": 1, "usize": _big(sz), "crc": zc.crc(sz)}]
        scs.append(s)
    # header offset of the following entry / start of the directory exactly at the limit and either side:
    # local header of "big" = 30 + 3 (+20 if large); data ends at hdr + size
    offs = [T - 1, T] if tier == "quick" else [T - 2, T - 1, T, T + 1]
    for target in offs:
        # next header offset = 53 + size  (large entry "big")
        scs.append(big_entry("hdroff-%d" % target, target - 53, True))
        # directory offset = target: big (large) only, no following entry: cd_start = 53 + size
        if tier == "thorough" or target == T:
            scs.append(big_entry("cdoff-%d" % target, target - 53, True, then_small=False))
    if tier == "thorough":
        scs.append(big_entry("first-then-big", T + 7, True, extra_first=1000))
    # entry counts at the 16-bit limit
    counts = [65535, 65536] if tier == "quick" else [65534, 65535, 65536, 65537, 70000]
    for n in counts:
        ops = [{"op": "bulk", "count": n, "prefix": "e", "data": "" if n % 2 else "x", "dirs_every": 0 if n % 3 else 1000}]
        if n % 2 == 0:
            ops.append({"op": "comment", "c": "count %d" % n})
        ops.append({"op": "finish"})
        s = writer_sc("count-%d" % n, ops, select=[1, 2, 65534, 65535, 65536, 65537, -1])
        scs.append(s)
    # a central DIRECTORY larger than 4 GiB with fewer than 65 536 entries (65 535 records of 65 552 bytes: a 65 500-byte central-only
    # extra record each): the ZIP64 end records are needed for the directory's size alone
    if tier == "thorough":
        ops = [{"op": "bulk", "count": 65535, "prefix": "x", "data": "d", "dirs_every": 0, "cextra": 65500}, {"op": "finish"}]
        scs.append(writer_sc("cdsize-4g", ops, select=[1, 2, 65534, 65535]))
    # append rounds across the limits (C13): the old entries stay, the new ones follow, the end records are re-emitted
    for base, more in ([(65535, 2)] if tier == "quick" else [(65534, 1), (65535, 2), (65536, 5), (65535, 0)]):
        ops = [{"op": "bulk", "count": base, "prefix": "e", "data": "", "dirs_every": 0}, {"op": "finish"}, {"op": "append"},
               {"op": "bulk", "count": more, "prefix": "appended", "data": "new", "dirs_every": 0}, {"op": "finish"}]
        scs.append(writer_sc("append-count-%d+%d" % (base, more), ops, select=[1, 65535, 65536, 65537, -1]))
    if True:
        head, tail = b"\x33", b"\x44"
        sz = T + 1
        ops = [{"op": "start", "name": "big", "large": True, "method": 0}, {"op": "zeros", "n": sz, "head": head.hex(), "tail": tail.hex()},
               {"op": "start", "name": "second", "large": False, "method": 8}, {"op": "data", "data": "second entry"}, {"op": "finish"}, {"op": "append"},
               {"op": "start", "name": "appended", "large": False, "method": 0}, {"op": "data", "data": "appended beyond 4 GiB"}, {"op": "finish"}]
        s = writer_sc("append-after-4g", ops, select=[1, 2, 3])
        s["expect"]["sizes"] = [{"i": 1, "usize": _big(sz), "crc": zc.crc(sz, head, tail)}]
        s["read"] = [{"i": 3, "head": 21, "tail": 0, "expect": {"len": _big(21), "head": b"appended beyond 4 GiB".hex(), "tail": ""}}]
        scs.append(s)
    # an append whose rewritten directory is SHORTER (a 60 000-byte comment dropped) is moved up to end where the old archive ended;
    # here that move carries the directory start across 4 GiB, so the ZIP64 end records become necessary only after the move
    for delta in ((100,) if tier == "quick" else (100, 59000, 60100)):
        head, tail = b"\x55", b"\x66"
        sz = T - delta - 53
        ops = [{"op": "start", "name": "big", "large": True, "method": 0}, {"op": "zeros", "n": sz, "head": head.hex(), "tail": tail.hex()},
               {"op": "comment", "c": "k" * 60000}, {"op": "finish"}, {"op": "append"}, {"op": "comment", "c": ""}, {"op": "finish"}]
        s = writer_sc("append-shrink-across-4g-%d" % delta, ops, select=[1])
        s["expect"]["sizes"] = [{"i": 1, "usize": _big(sz), "crc": zc.crc(sz, head, tail)}]
        scs.append(s)
    # a foreign producer at real sizes: sparse archive, ZIP64 fields in the layouts the specification allows
    import struct
    def foreign(sc, usize, force, z64end, prefix=0):
        head = b"\x01\x02\x03"
        crc = int(zc.crc(usize, head, b""), 16)
        name = b"foreign-big"
        segs = []
        pos = prefix
        lz = struct.pack("<HHQQ", 1, 16, usize, usize)
        lfh = struct.pack("<IHHHHHIIIHH", 0x04034b50, 45, 0, 0, 0x6000, 0x5821, crc, 0xFFFFFFFF, 0xFFFFFFFF, len(name), len(lz)) + name + lz
        segs.append([pos, (lfh + head).hex()])
        hdr1 = pos - prefix
        pos += len(lfh) + usize
        name2 = b"tail.txt"
        data2 = b"after the big one"
        crc2 = zlib.crc32(data2) & 0xFFFFFFFF
        lfh2 = struct.pack("<IHHHHHIIIHH", 0x04034b50, 20, 0, 0, 0x6000, 0x5821, crc2, len(data2), len(data2), len(name2), 0) + name2
        segs.append([pos, (lfh2 + data2).hex()])
        hdr2 = pos - prefix
        pos += len(lfh2) + len(data2)
        cd_start = pos - prefix
        cd = b""
        for (nm, c, us, hd) in ((name, crc, usize, hdr1), (name2, crc2, len(data2), hdr2)):
            z = b""
            f_us, f_cs, f_off = us, us, hd
            if us > 0xFFFFFFFF or "usize" in force:
                z += struct.pack("<Q", us)
                f_us = 0xFFFFFFFF
            if us > 0xFFFFFFFF or "csize" in force:
                z += struct.pack("<Q", us)
                f_cs = 0xFFFFFFFF
            if hd > 0xFFFFFFFF or "off" in force:
                z += struct.pack("<Q", hd)
                f_off = 0xFFFFFFFF
            x = (struct.pack("<HH", 1, len(z)) + z) if z else b""
            other = struct.pack("<HH", 0xcafe, 3) + b"abc"
            x = (other + x) if "z64_last" in force else (x + other)
            cd += struct.pack("<IHHHHHHIIIHHHHHII", 0x02014b50, 0x032d, 45, 0, 0, 0x6000, 0x5821, c, f_cs, f_us, len(nm), len(x), 0, 0, 0, 0o100644 << 16, f_off) + nm + x
        segs.append([pos, cd.hex()])
        pos += len(cd)
        cd_size = len(cd)
        tailb = b""
        if z64end or cd_start > 0xFFFFFFFF:
            z64pos = pos - prefix
            tailb += struct.pack("<IQHHIIQQQQ", 0x06064b50, 44, 45, 45, 0, 0, 2, 2, cd_size, cd_start)
            tailb += struct.pack("<IIQI", 0x07064b50, 0, z64pos, 1)
            tailb += struct.pack("<IHHHHIIH", 0x06054b50, 0, 0, 2, 2, min(cd_size, 0xFFFFFFFF), 0xFFFFFFFF, 7) + b"foreign"
        else:
            tailb += struct.pack("<IHHHHIIH", 0x06054b50, 0, 0, 2, 2, cd_size, cd_start, 7) + b"foreign"
        segs.append([pos, tailb.hex()])
        pos += len(tailb)
        if prefix:
            segs.append([0, (b"PREFIX" * 3).hex()])
        return {"sc": sc, "kind": "foreign", "segments": segs, "len": pos, "select": [1, 2], "allow_trailing": False,
                "read": [{"i": 1, "head": 3, "tail": 0, "expect": {"len": _big(usize), "head": head.hex(), "tail": ""}}],
                "expect": {"producer": "foreign", "n": 2, "names_digest": names_digest([name.decode(), name2.decode()]),
                           "sizes": [{"i": 1, "usize": _big(usize), "crc": "%08x" % crc}]}}
    scs.append(foreign("foreign-T+5", T + 5, set(), True))
    # both sizes carried by ZIP64 with compressed != uncompressed (the record's order matters): small deflated entries with
    # forced fields in every subset that contains both sizes, from the independent builder
    import refzip
    for k, force in enumerate(({"usize", "csize"}, {"usize", "csize", "off"})):
        ents = [{"name": b"defl-%d" % k, "method": 8, "data": b"compressible " * 300, "z64": force, "lz64": True, "z64_last": bool(k)},
                {"name": b"stored", "method": 0, "data": b"xyz", "z64": {"off"}}]
        fb, fv = refzip.build({"entries": ents, "z64end": True})
        scs.append({"sc": "foreign-both-sizes-%d" % k, "kind": "foreign", "segments": [[0, fb.hex()]], "len": len(fb), "select": [1, 2], "allow_trailing": False, "read": [],
                    "expect": {"producer": "foreign", "n": 2, "names_digest": names_digest([e["name"].decode() for e in ents]),
                               "sizes": [{"i": 1, "usize": _big(len(ents[0]["data"])), "crc": "%08x" % (zlib.crc32(ents[0]["data"]) & 0xFFFFFFFF)}]}})
    # two entries beyond 4 GiB: the second one needs all three ZIP64 values in its central record
    if True:
        head, tail = b"\x11", b"\x22"
        s1, s2 = T + 1, T + 2
        ops = [{"op": "start", "name": "big1", "large": True, "method": 0}, {"op": "zeros", "n": s1, "head": head.hex(), "tail": tail.hex()},
               {"op": "start", "name": "big2", "large": True, "method": 0}, {"op": "zeros", "n": s2, "head": head.hex(), "tail": tail.hex()},
               {"op": "start", "name": "small", "large": False, "method": 8}, {"op": "data", "data": "tail entry"}, {"op": "finish"}]
        s = writer_sc("two-big", ops, select=[1, 2, 3])
        s["read"] = [{"i": 2, "head": 1, "tail": 1, "expect": {"len": _big(s2), "head": head.hex(), "tail": tail.hex()}}]
        s["expect"]["sizes"] = [{"i": 1, "usize": _big(s1), "crc": zc.crc(s1, head, tail)}, {"i": 2, "usize": _big(s2), "crc": zc.crc(s2, head, tail)}]
        if tier == "thorough":      # (quick: exact-after-big-0 below has the same shape - all three values of the second entry in its ZIP64 record)
            scs.append(s)
    # a value EXACTLY at 0xFFFFFFFF next to a value that needs ZIP64: the 32-bit field then equals the sentinel, so the value must
    # travel in the ZIP64 record too or every reader takes the record's first value for it (D17: size 2^32-1 at a header offset > 4 GiB)
    for k, (large2, s2) in enumerate([(True, T - 1)] if tier == "quick" else [(True, T - 1), (False, T - 1), (True, T - 2)]):
        head, tail = b"\x55", b"\x66"
        s1 = T + 1
        ops = [{"op": "start", "name": "big1", "large": True, "method": 0}, {"op": "zeros", "n": s1, "head": head.hex(), "tail": tail.hex()},
               {"op": "start", "name": "exact", "large": large2, "method": 0}, {"op": "zeros", "n": s2, "head": head.hex(), "tail": tail.hex()},
               {"op": "start", "name": "small", "large": False, "method": 8}, {"op": "data", "data": "tail entry"}, {"op": "finish"}]
        s = writer_sc("exact-after-big-%d" % k, ops, select=[1, 2, 3])
        s["read"] = [{"i": 2, "head": 1, "tail": 1, "expect": {"len": _big(s2), "head": head.hex(), "tail": tail.hex()}}]
        s["expect"]["sizes"] = [{"i": 1, "usize": _big(s1), "crc": zc.crc(s1, head, tail)}, {"i": 2, "usize": _big(s2), "crc": zc.crc(s2, head, tail)}]
        scs.append(s)
    # raw copy of a source entry whose uncompressed size needs ZIP64 while its compressed size does not (and the other way round is
    # impossible): the copy's local header must carry the ZIP64 record; neighbours written normally before and after
    def lying_source(usize, csize):
        name = b"declared-big"
        comp = bytes((i * 37 + 11) & 0xFF for i in range(csize))
        crc = 0x12345678
        lz = struct.pack("<HHQQ", 1, 16, usize, csize)
        lfh = struct.pack("<IHHHHHIIIHH", 0x04034b50, 45, 0, 8, 0x6000, 0x5821, crc, 0xFFFFFFFF, 0xFFFFFFFF, len(name), len(lz)) + name + lz
        body = lfh + comp
        z = struct.pack("<HHQ", 1, 8, usize)
        cd = struct.pack("<IHHHHHHIIIHHHHHII", 0x02014b50, 0x032d, 45, 0, 8, 0x6000, 0x5821, crc, csize, 0xFFFFFFFF, len(name), len(z), 0, 0, 0, 0o100640 << 16, 0) + name + z
        eocd = struct.pack("<IHHHHIIH", 0x06054b50, 0, 0, 1, 1, len(cd), len(body), 0)
        b = body + cd + eocd
        return {"segments": [[0, b.hex()]], "len": len(b)}, name.decode()
    for k, (us, cs) in enumerate(((T + 100, 200), (T - 1, 300)) if tier == "quick" else ((T + 100, 200), (T - 1, 300), (T, 100), (5 * T, 1000))):
        src, nm = lying_source(us, cs)
        ops = [{"op": "start", "name": "before", "large": False, "method": 8}, {"op": "data", "data": "written before the copy"},
               {"op": "rawcopy", "src": src, "idx": 0},
               {"op": "start", "name": "after", "large": False, "method": 0}, {"op": "data", "data": "written after the copy"}, {"op": "finish"}]
        s = writer_sc("rawcopy-%d" % k, ops, select=[1, 2, 3])
        s["expect"]["n"] = 3
        s["expect"]["names_digest"] = names_digest(["before", nm, "after"])
        s["expect"]["sizes"] = [{"i": 2, "usize": _big(us), "crc": "12345678"}]
        scs.append(s)
    if tier == "thorough":
        scs.append(foreign("foreign-T-1-forced", T - 1, {"usize", "csize", "off", "z64_last"}, True, prefix=77))
        scs.append(foreign("foreign-small-forced", 1000, {"usize", "off"}, True))
        scs.append(foreign("foreign-5g", 5 * (1 << 30) + 1, {"off"}, True, prefix=1 << 16))
    return scs


def run_zip64_subset(rep, wd, tier, prefixes, label):
    """the scenarios of C08's real-limit family whose names start with one of `prefixes`, for the check that owns the behaviour
    (append rounds: C13; raw copies: C14), validated by Trace_Zip64"""
    scs = [s for s in zip64_scenarios(tier, random.Random(vlib.seed() * 6469 + 8)) if any(s["sc"].startswith(p) for p in prefixes)]
    if not scs:
        raise ToolTrouble("no ZIP64 scenario matches %r" % (prefixes,))
    progs = os.path.join(wd, label + "-scenarios.ndjson")
    trace = os.path.join(wd, label + "-trace.ndjson")
    vlib.write_ndjson(progs, scs)
    vlib.run_harness(["zexec", progs, trace], timeout=7200)
    run_trace(rep, wd, "Trace_Zip64", trace, label, {s["sc"]: {k: v for k, v in s.items() if k != "segments"} for s in scs})
    rep.evaluations += len(scs)
    rep.notes[label + "_scenarios"] = [s["sc"] for s in scs]


def c08(tier):
    rep = Report("C08", tier)
    wd = vlib.workdir("C08", tier)
    vlib.build_harness()
    r = vlib.tlc_mc("MC_Zip64.tla", "MC_Zip64.cfg", wd, timeout=600, tag="mc-zip64")
    rep.add_mc(r, "MC_Zip64.cfg")
    if r["error"]:
        rep.spec_violation(r, "MC_Zip64.cfg")
    for bug in ("need_ge", "count_ge", "central_gt"):
        r = vlib.tlc_mc("MC_Zip64.tla", "MC_Zip64_%s.cfg" % bug, wd, timeout=300, tag="mc-" + bug)
        found = bool(r["error"]) and "Rules" in r["error"]
        rep.neg_controls.append({"spec_mutant": bug, "expected_violation": "Rules", "found": found})
        if not found:
            raise ToolTrouble("spec mutant %s not detected" % bug)
    # D17 at model level: with the central ZIP64 record carrying only values ABOVE the sentinel (the defect), a size exactly at the
    # limit next to an offset beyond it makes the required layout undecodable (ZipFormat!ParseZ64) - TLC must find that
    r = vlib.tlc_mc("MC_Writer.tla", "MC_Writer_central_gt.cfg", wd, timeout=300, tag="mc-central-gt")
    found = bool(r["error"]) and "LayoutWellFormed" in r["error"]
    rep.neg_controls.append({"spec_mutant": "central_gt (NeedZ64C <- NeedZ64 in MC_Writer)", "expected_violation": "LayoutWellFormed", "found": found})
    if not found:
        raise ToolTrouble("spec mutant central_gt not detected by MC_Writer")
    # the two-limb arithmetic itself, for unbounded naturals at the real base 2^24 (Apalache/SMT): Init => Laws
    if tier == "thorough":
        ok, tail = apalache("BigProof.tla", ["--init=AnyInit", "--inv=Laws", "--length=0"], wd, "bigproof")
        if not ok:
            log(tail)
            raise ToolTrouble("Apalache did not discharge BigProof!Laws")
        # the central ZIP64 record for unbounded values: decoding inverts emission for ALL naturals and forced subsets; under the rule
        # of defect D17 (values ABOVE the sentinel only) Apalache must produce a counterexample
        ok, tail = apalache("Zip64Proof.tla", ["--init=AnyInit", "--inv=DecodeInvertsEmit", "--length=0"], wd, "zip64proof")
        if not ok:
            log(tail)
            raise ToolTrouble("Apalache did not discharge Zip64Proof!DecodeInvertsEmit")
        bad, tail = apalache("Zip64Proof.tla", ["--init=OldInit", "--inv=DecodeInvertsEmit", "--length=0"], wd, "zip64proof-old")
        if bad or "Checker has found an error" not in tail:
            log(tail)
            raise ToolTrouble("Apalache did not refute the pre-D17 rule")
        rep.neg_controls.append({"spec_mutant": "Zip64Proof with the pre-D17 rule (OldInit)", "expected_violation": "DecodeInvertsEmit", "found": True})
        rep.notes["apalache_obligations"] = {"obligations": 2, "discharged": 2, "spec": "BigProof.tla (Laws: limb split, add, sub, <, <= agree with integer arithmetic for all naturals, base 2^24); "
                                             "Zip64Proof.tla (DecodeInvertsEmit: sentinel-keyed decoding of the central ZIP64 record returns usize, csize, offset for ALL naturals and every forced subset)"}
    # the reader side at model level: every ZIP64 layout an independent producer may emit is decoded exactly (Producer.tla)
    mc_producer(rep, wd, tier, mutants=("cs_first", "either_both", "always_all", "first_record_only"), one_entry_only=True)
    # ... and every realisable one-entry archive of that model that carries ZIP64 records is built by the independent builder and read
    # by the real reader (forced subsets x record positions x local record x data-descriptor styles), judged by Trace_Open
    pz = [A for A in producer_cases(wd, "MC_Producer1.cfg", "emit-p1") if any(any(c["forced"].values()) or c["lz64"] for c in A["ents"])]
    rep.notes["producer_zip64_cases"] = len(pz)
    run_reader_scenarios(rep, wd, [gen_reader.from_producer_case("z%05d" % i, A) for i, A in enumerate(pz)], "producer-zip64", neg_control=False)
    # the writer model at scaled thresholds (NoWrappedSizes, LayoutWellFormed around Thr16/ThrN/Thr32)
    mc_writer(rep, wd, "quick")
    sd = vlib.seed()
    rnd = random.Random(sd * 6469 + 8)
    scs = zip64_scenarios(tier, rnd)
    progs = os.path.join(wd, "zip64-scenarios.ndjson")
    trace = os.path.join(wd, "zip64-trace.ndjson")
    vlib.write_ndjson(progs, scs)
    vlib.run_harness(["zexec", progs, trace], timeout=7200)
    res = run_trace(rep, wd, "Trace_Zip64", trace, "zip64", {s["sc"]: {k: v for k, v in s.items() if k != "segments"} for s in scs})
    rejected_scs = {rj["sc"] for rj in (res or {}).get("rejections", [])}
    evs = vlib.read_ndjson(trace)
    rep.evaluations += len(scs)
    for s in scs:
        rep.distinct.add(s["sc"])
    outc = {}
    for e in evs:
        if e.get("ev") in ("ZWrite", "ZFinish", "ZRead"):
            k = "%s:%s" % (e["ev"], e.get("r"))
            outc[k] = outc.get(k, 0) + 1
    rep.notes["call_outcomes"] = outc
    rep.notes["scenarios"] = [s["sc"] for s in scs]
    a = next((e for e in evs if e.get("ev") == "ZArch" and e.get("z64") and e.get("sel") and e["sc"] not in rejected_scs), None)
    if a is None:
        if rep.violations:      # nothing accepted to sample from: report what was found
            return rep.finish("model_checking", "ZIP64 scenarios at the real limits (see the violations)")
        raise ToolTrouble("no accepted ZIP64 archive to sample")
    rep.samples.append({"scenario": a["sc"], "n": a["n"], "cd_start": a["cd_start"], "eocd": {k: a["eocd"][k] for k in ("n_total", "cd_size", "cd_offset")},
                        "z64": {k: a["z64"][0][k] for k in ("n_total", "cd_size", "cd_offset")},
                        "first_selected_central": {k: a["sel"][0]["c"][k] for k in ("usize32", "csize32", "off32", "usize", "csize", "off", "zcount")}})
    # binding demonstration
    seg = [e for e in evs if e.get("sc") == a["sc"]]
    ai = next(i for i, e in enumerate(seg) if e.get("ev") == "ZArch")

    def mutate(es, ai=ai):
        es[ai]["z64"][0]["n_total"][1] += 1
        return "ZIP64 end record entry count off by one"
    nc = vlib.corrupt_and_expect_reject("Trace_Zip64.tla", "Trace_Zip64.cfg", seg, wd, mutate, tag="zip64-neg")
    rep.neg_controls.append(nc)
    if not nc["rejected"]:
        raise ToolTrouble("negative control did not fire: " + nc["mutation"])
    return rep.finish("model_checking",
                      "MC_Zip64: the two-limb restatement of the ZIP64 rules (Zip64.tla) equals the integer rules of ZipFormat/ZipWriter for all values "
                      "around scaled limits (need_ge/count_ge spec mutants found); MC_Writer: NoWrappedSizes/LayoutWellFormed at scaled limits. Binding at the "
                      "REAL limits through a sparse store: entries of 2^32-1 / 2^32 / 2^32+1 (thorough: -2 and 5 GiB too) bytes with and without large_file "
                      "(oversize write must fail and poison the writer), following-entry header offsets and directory offsets at 2^32-1 / 2^32 (thorough +-2), "
                      "65535 / 65536 (thorough 65534..70000) entries, foreign sparse archives with >4 GiB entries and forced ZIP64 fields; the independently "
                      "lexed records (exact two-limb numbers) must satisfy Zip64!CentralOk/CentralWriter/LocalAgrees/LocalWriter/EndOk/EndWriter, the real reader "
                      "must report exactly the lexed values, entry counts/names in order (digest) and contents (length, markers, zero run, CRC from zlib) must match",
                      assumptions=["payloads are zero runs between markers (the sparse store keeps only non-zero pages)", "a central directory larger than 4 GiB is realised in the thorough tier only (65 535 records of 65 552 bytes; 14 GB of memory)",
                                   "per-entry records are validated for the selected boundary entries; all entries contribute to the count/name digest and lexer-level flags"])



LIE_VALS = {"zero": lambda h, w: 0, "one": lambda h, w: 1, "dec": lambda h, w: h - 1, "inc": lambda h, w: h + 1, "max": lambda h, w: (1 << (8 * w)) - 1,
            "t16m1": lambda h, w: 0xFFFE, "m99": lambda h, w: 99, "m8": lambda h, w: 8, "m12": lambda h, w: 12, "m93": lambda h, w: 93, "m14": lambda h, w: 14,
            "t16": lambda h, w: 0xFFFF, "t16p1": lambda h, w: 0x10000, "t32m1": lambda h, w: 0xFFFFFFFE, "half32": lambda h, w: 0x80000000,
            "t32": lambda h, w: 0xFFFFFFFF, "t32p1": lambda h, w: 0x100000000, "half64": lambda h, w: 1 << 63, "max64m1": lambda h, w: (1 << 64) - 2,
            "enc": lambda h, w: h | 1, "dd": lambda h, w: h | 8, "enc_dd": lambda h, w: h | 9, "utf8": lambda h, w: h ^ 0x800, "strong": lambda h, w: h | 0x41}


def locate_records(b, view):
    """absolute positions of the records the lies of Lies.tla refer to"""
    import struct
    pos = {"eocd": [], "z64rec": [], "z64loc": [], "central": [], "local": [], "cz64": [], "lz64": [], "aesx": []}
    e = b.rfind(b"PK\x05\x06")
    if e >= 0:
        pos["eocd"] = [e]
        if e >= 20 and b[e - 20:e - 16] == b"PK\x06\x07":
            pos["z64loc"] = [e - 20]
            if e >= 76 and b[e - 76:e - 72] == b"PK\x06\x06":
                pos["z64rec"] = [e - 76]

    def find_tlv(start, ln, want):
        o = start
        while o + 4 <= start + ln:
            i, n = struct.unpack("<HH", b[o:o + 4])
            if i == want:
                return o
            o += 4 + n
        return None
    for en in view["entries"]:
        c, h = en["chs"], en["hdr"]
        pos["central"].append(c)
        pos["local"].append(h)
        nlen, xlen = struct.unpack("<HH", b[c + 28:c + 32])
        pos["cz64"].append(find_tlv(c + 46 + nlen, xlen, 1))
        pos["aesx"].append(find_tlv(c + 46 + nlen, xlen, 0x9901))
        lnlen, lxlen = struct.unpack("<HH", b[h + 26:h + 30])
        pos["lz64"].append(find_tlv(h + 30 + lnlen, lxlen, 1))
    return pos


def lie_patch(b, pos, lie):
    """a lie descriptor (from TLC) -> ["set", position, bytes] on seed b, or None when the record is absent"""
    lst = pos.get(lie["rec"], [])
    k = lie["ent"] - 1
    if k >= len(lst) or lst[k] is None:
        return None
    at = lst[k] + lie["off"]
    w = lie["w"]
    if at + w > len(b):
        return None
    honest = int.from_bytes(b[at:at + w], "little")
    v = LIE_VALS[lie["v"]](honest, w) % (1 << (8 * w))
    if v == honest:
        return None
    return ["set", at, list(v.to_bytes(w, "little"))]


def tlc_lies(wd, pairs):
    r = vlib.tlc_run("MC_Lies.tla", "MC_Lies_pairs.cfg" if pairs else "MC_Lies.cfg", wd, workers=1, timeout=900, tag="lies")
    out = []
    for m in re.finditer(r'<<"LIE", "(.*)">>', r["out"]):
        out.append(json.loads(json.loads('"' + m.group(1) + '"')))
    if not out or r["error"]:
        raise ToolTrouble("MC_Lies produced no lies: %s" % r["error"])
    if not pairs:
        inj, seen = [], set()
        for m in re.finditer(r'<<"INJ", "(.*)">>', r["out"]):
            if m.group(1) not in seen:
                seen.add(m.group(1))
                inj.append(json.loads(json.loads('"' + m.group(1) + '"')))
        if not inj:
            raise ToolTrouble("MC_Lies printed no injections")
        r["injections"] = inj
    return out, r


def injected_archive(I, txt):
    """an honest one-entry archive plus the record Lies!Injections describes (built by the independent builder)"""
    import refzip, struct
    e = {"name": b"inj.txt", "data": txt, "method": 8}
    muts = []
    if I["kind"] == "aes":
        rec = (0x9901, struct.pack("<H2sBH", I["ver"], b"AE", I["strength"], I["inner"]))
        e["method"] = I["outer"]
        if I["outer"] == 99:
            e["raw"] = txt
        if I["enc"]:
            e["flags_extra"] = 1
    else:
        rec = (1, b"".join(struct.pack("<Q", 5 + 3 * k) for k in range(I["nvals"])))
    if I["where"] in ("local", "both"):
        e["lextra"] = [rec]
    if I["where"] in ("central", "both"):
        e["cextra"] = [rec]
    b, v = refzip.build({"entries": [e, {"name": b"next", "method": 0, "data": b"following entry"}]})
    b = bytearray(b)
    if I["kind"] == "z64":
        pos = locate_records(bytes(b), v)
        for flag, fld in ((I["sus"], "usize"), (I["scs"], "csize"), (I["soff"], "off")):
            for rec_name in (["central"] if fld == "off" else (["central"] if I["where"] == "central" else ["local", "central"] if I["where"] == "both" else ["local"])):
                if flag:
                    p = lie_patch(bytes(b), pos, {"rec": rec_name, "f": fld, "off": {"central": {"csize": 20, "usize": 24, "off": 42}, "local": {"csize": 18, "usize": 22}}[rec_name][fld],
                                                  "w": 4, "v": "max", "ent": 1})
                    if p:
                        b[p[1]:p[1] + len(p[2])] = bytes(p[2])
    return bytes(b)


def c05(tier):
    import refzip
    rep = Report("C05", tier)
    wd = vlib.workdir("C05", tier)
    vlib.build_harness()
    sd = vlib.seed()
    rnd = random.Random(sd * 4099 + 5)
    singles, r1 = tlc_lies(wd, False)
    rep.add_mc(r1, "MC_Lies.cfg")
    pairs, r2 = tlc_lies(wd, True)
    rep.add_mc(r2, "MC_Lies_pairs.cfg")
    rep.notes["lies"] = {"single": len(singles), "cooperating_pairs": len(pairs)}
    # ---- seeds
    seeds = []       # (name, bytes, view or None, passwords)
    txt = b"The quick brown fox jumps over the lazy dog. " * 3
    rb = bytes(rnd.randrange(256) for _ in range(50))
    defs = {
        "plain": ({"comment": b"seed", "entries": [{"name": b"a.txt", "method": 8, "data": txt, "fcomment": b"fc"}, {"name": b"dir/", "method": 0, "data": b""},
                                                    {"name": "ü.bin".encode(), "utf8": True, "method": 0, "data": rb, "lextra": [(0xcafe, b"xy")], "cextra": [(0xbeef, b"z")]}]}, []),
        # names no well-behaved producer writes: NUL after a CP437 high byte, NUL inside ill-formed "UTF-8", only separators and dots
        "names": ({"entries": [{"name": b"\x80\x00b", "method": 0, "data": b"n1"}, {"name": b"caf\x82\x00/\xe1", "method": 8, "data": txt},
                               {"name": b"\xff\xfe\x00\xc3", "utf8": True, "method": 0, "data": b"n3"}, {"name": "é\x00ü/../x".encode(), "utf8": True, "method": 0, "data": b"n4"},
                               {"name": b"\x00", "method": 0, "data": b""}, {"name": b"/../\\..\\", "method": 0, "data": b"n6", "fcomment": b"\x00\x9b"}]}, []),
        "z64": ({"z64end": True, "entries": [{"name": b"z1", "method": 8, "data": txt, "z64": {"usize", "csize", "off"}, "lz64": True},
                                             {"name": b"z2", "method": 0, "data": rb, "z64": {"off"}}]}, []),
        "dd": ({"entries": [{"name": b"d1", "method": 8, "data": txt, "dd": "sig32"}, {"name": b"d2", "method": 0, "data": rb, "dd": "nosig64", "lz64": True}]}, []),
        "zc": ({"entries": [{"name": b"c1", "method": 8, "data": txt, "enc": ("zc", b"pw")}, {"name": b"c2", "method": 0, "data": rb, "enc": ("zc", b"pw"), "dd": "sig32", "time": 0x7b21}]}, [b"pw", b"wrong"]),
        "aes": ({"entries": [{"name": b"a1", "method": 8, "data": txt, "enc": ("aes", 2, 3, b"pw")}, {"name": b"a2", "method": 0, "data": rb[:17], "enc": ("aes", 1, 1, b"pw")},
                             {"name": b"a3", "method": 0, "data": b"", "enc": ("aes", 2, 2, b"pw")}]}, [b"pw", b"wrong"]),
        "methods": ({"prefix": b"MZ-prefix-junk", "entries": [{"name": b"b.bz2", "method": 12, "data": txt}, {"name": b"u.lzma", "method": 14, "data": rb},
                                                                   {"name": b"e", "method": 0, "data": b""}], "comment": b"c" * 40}, []),
    }
    for nm, (d, pws) in defs.items():
        b, v = refzip.build(d)
        seeds.append((nm, b, v, pws))
    cb, _, _ = crate_seeds(wd, rnd)
    seeds.append(("crate", cb, None, [b"pw2"]))
    import glob
    for f in sorted(glob.glob("/repo/tests/data/*.zip")):
        b = open(f, "rb").read()
        if len(b) <= 20000:
            seeds.append(("fx-" + os.path.basename(f)[:-4], b, None, [b"helloworld", b"test"]))
    cases = []
    lines = [{"seed_def": nm, "hex": b.hex(), "pws": [p.hex() for p in pws]} for nm, b, v, pws in seeds]
    quick = tier == "quick"

    def add(seed, cls, mut):
        cases.append({"id": "%s#%d" % (cls, len(cases)), "sc": "p%03d" % (len(cases) // 2000), "cls": cls, "seed": seed, "mut": mut})
    for nm, b, v, pws in seeds:
        # every truncation point (an interrupted write or download)
        step = 1 if (len(b) <= 1500 or not quick) else max(1, len(b) // 700)
        for n in range(0, len(b), step):
            add(nm, "trunc", [["trunc", n]])
        # structural regions: everything that is not entry data
        if v is not None:
            data = set()
            for en in v["entries"]:
                data.update(range(en["dstart"], en["dstart"] + en["csize"]))
            struct_pos = [i for i in range(len(b)) if i not in data]
        else:
            struct_pos = list(range(len(b)))
        subs = [(pos, val) for pos in struct_pos for val in range(256) if val != b[pos]]
        budget = 2500 if quick else (len(subs) if len(b) <= 1200 else 60000)
        for pos, val in (subs if budget >= len(subs) else rnd.sample(subs, budget)):
            add(nm, "subst", [["set", pos, [val]]])
        for _ in range(400 if quick else 6000):
            m = []
            for _ in range(rnd.randint(2, 5)):
                c = rnd.random()
                pos = rnd.choice(struct_pos)
                if c < 0.6:
                    m.append(["set", pos, [rnd.choice([0, 1, 0xFF, 0x7F, 0x80, rnd.randrange(256)]) for _ in range(rnd.choice([1, 2, 4, 8]))]])
                elif c < 0.75:
                    m.append(["ins", pos, [rnd.randrange(256) for _ in range(rnd.randint(1, 9))]])
                elif c < 0.9:
                    m.append(["del", pos, rnd.randint(1, 9)])
                else:
                    m.append(["trunc", rnd.randrange(len(b))])
            add(nm, "multi", m)
        # the structure-aware lies enumerated by TLC
        if v is not None:
            pos = locate_records(b, v)
            for lie in singles:
                p = lie_patch(b, pos, lie[0])
                if p:
                    add(nm, "lie", [p])
            pr = pairs if not quick else rnd.sample(pairs, 1500)
            if quick and nm == "z64":
                # every cooperating pair inside the archive trailer (end record, ZIP64 end record, locator): counts, sizes and
                # offsets that lie together are what the pre-allocation and offset arithmetic of the open paths must survive
                trailer = {"eocd", "z64rec", "z64loc"}
                pr = pr + [lp for lp in pairs if all(x["rec"] in trailer for x in lp)]
            if not quick and nm not in ("z64", "aes", "plain"):
                pr = rnd.sample(pairs, 20000)
            for lp in pr:
                ps = [lie_patch(b, pos, x) for x in lp]
                if all(ps):
                    add(nm, "lie2", ps)
    # records ADDED to honest entries (Lies!Injections, enumerated by TLC): AES records naming any inner method with/without the
    # encryption flag under supported/unsupported outer methods; ZIP64 records of 0..4 values against any subset of sentinels
    for I in r1["injections"]:
        add("aes", "inject", [["raw", injected_archive(I, txt).hex()]])
    rep.notes["injections"] = len(r1["injections"])
    # arbitrary bytes, with record signatures sprinkled in
    for i in range(1500 if quick else 40000):
        n = rnd.choice([0, 1, 21, 22, 23, 46, 64, 100, 300, 1000])
        x = bytearray(rnd.randrange(256) for _ in range(n))
        for _ in range(rnd.randint(0, 4)):
            if n >= 4:
                at = rnd.randrange(n - 3)
                x[at:at + 4] = rnd.choice([b"PK\x05\x06", b"PK\x01\x02", b"PK\x03\x04", b"PK\x06\x06", b"PK\x06\x07", b"PK\x07\x08"])
        add(seeds[0][0], "arbitrary", [["raw", bytes(x).hex()]])
    # tiny inputs around the end record: an end record at offsets 0..24 with a comment and trailing bytes such that the
    # position probed for the ZIP64 locator (counted from the END of the input) holds a locator signature
    import struct
    for at in range(0, 25, 1 if not quick else 2):
        for clen in (0, 1, 7):
            for trailing in range(0, 70, 1 if not quick else 3):
                body = bytearray(bytes(at) + struct.pack("<IHHHHIIH", 0x06054b50, 0, 0, 0, 0, 0, 0, clen) + b"c" * clen + bytes(trailing))
                probe = len(body) - (42 + clen)
                if probe < 0:
                    continue
                loc = struct.pack("<IIQI", 0x07064b50, 0, rnd.choice([0, 1, at, len(body), 1 << 40, (1 << 64) - 1]), 1)
                body[probe:probe + 20] = loc[:max(0, min(20, len(body) - probe))]
                if len(body) - probe < 20:
                    body = body[:probe] + loc[:len(body) - probe]
                add(seeds[0][0], "tail-trick", [["raw", bytes(body).hex()]])
    rep.notes["cases_by_class"] = {}
    for c in cases:
        rep.notes["cases_by_class"][c["cls"]] = rep.notes["cases_by_class"].get(c["cls"], 0) + 1
    # the cases are sharded over supervised worker processes; every shard's trace is validated by its own TLC run
    # (segments of 2000 cases inside a shard, so one rejection never hides the rest)
    import concurrent.futures
    shard_size = min(60000, max(4000, len(cases) // 12 + 1))
    shards = [cases[i:i + shard_size] for i in range(0, len(cases), shard_size)]

    def run_shard(k):
        progs = os.path.join(wd, "robust-cases-%03d.ndjson" % k)
        trace = os.path.join(wd, "robust-trace-%03d.ndjson" % k)
        vlib.write_ndjson(progs, lines + shards[k])
        vlib.run_harness(["pexec", progs, trace, "90"], timeout=7200)
        ev = vlib.read_ndjson(trace)
        # (a shard ends early after three crashed or stalled cases - each of them is in the trace as a hang/abort event)
        crashed = sum(1 for e in ev if e.get("hang") or e.get("abort"))
        if len(ev) != len(shards[k]) and crashed < 3:
            raise ToolTrouble("pexec produced %d events for %d cases" % (len(ev), len(shards[k])))
        out, last = [], None
        for e in ev:
            if e["sc"] != last:
                out.append({"ev": "Reset", "sc": e["sc"]})
                last = e["sc"]
            out.append(e)
        vlib.write_ndjson(trace, out)
        os.unlink(progs)
        return trace, ev
    with concurrent.futures.ThreadPoolExecutor(max_workers=min(12, vlib.NCPU)) as pool:
        done = list(pool.map(run_shard, range(len(shards))))
    evs = [e for _, ev in done for e in ev]
    byid = {c["id"]: c for c in cases}
    res = {"segments": 0, "accepted_segments": 0, "rejections": [], "states": 0, "events": 0, "rounds": 0}
    for k, (trace, _) in enumerate(done):
        r1 = vlib.validate_segments("Trace_Robust.tla", "Trace_Robust.cfg", trace, wd, tag="robust%03d" % k, max_rejections=6)
        for key in ("segments", "states", "events", "rounds"):
            res[key] += r1[key]
        res["rejections"] += r1["rejections"]
        if len(res["rejections"]) >= 6:
            break
    trace = done[0][0]
    # a rejected segment names one input: the replay holds that case (seed + mutation), not 2000
    for rj in res["rejections"]:
        e = rj["event"] if isinstance(rj["event"], dict) else {}
        c = byid.get(e.get("id"), {})
        seedhex = next((l["hex"] for l in lines if l["seed_def"] == c.get("seed")), "")
        rj["segment"] = [e]
        rj["sc"] = e.get("id", rj["sc"])
        byid[rj["sc"]] = {"case": c, "seed_hex": seedhex}
    rep.add_tv(res, byid, "robust")
    rep.evaluations += len(cases)
    for c in cases:
        rep.distinct.add(vlib.digest([c["seed"], c["mut"]]))
    stats = {}
    peak_ratio = 0
    ncalls = 0
    for e in evs:
        ncalls += e.get("calls", 0)
        for a, c in e.get("classes", []):
            stats[c] = stats.get(c, 0) + 1
        if e.get("len"):
            peak_ratio = max(peak_ratio, e["peak"] / e["len"])
    rep.notes["result_classes"] = stats
    rep.notes["api_calls"] = ncalls
    rep.notes["max_peak_bytes_per_input_byte"] = round(peak_ratio, 1)
    rep.notes["spec_counters"] = dict(vlib.LAST_STATS)
    rep.samples.append({"case": cases[len(cases) // 2], "event": {k: evs[len(cases) // 2][k] for k in ("cls", "len", "calls", "classes", "peak")}})
    # binding demonstration: a panic class / an excessive peak must be rejected
    good = next(e for e in evs if e.get("classes"))
    for what in ("panic", "peak"):
        def mutate(es, what=what):
            if what == "panic":
                es[1]["classes"].append(["by_index", "panic"])
                return "a panic result class injected"
            es[1]["peak"] = 1048576 + 512 * es[1]["len"] + 1
            return "peak allocation one byte over the bound"
        nc = vlib.corrupt_and_expect_reject("Trace_Robust.tla", "Trace_Robust.cfg", [{"ev": "Reset", "sc": "neg"}, dict(good, sc="neg")], wd, mutate, tag="robust-neg")
        rep.neg_controls.append(nc)
        if not nc["rejected"]:
            raise ToolTrouble("negative control did not fire: " + nc["mutation"])
    return rep.finish("exploration",
                      "inputs = seed archives (independent builder: plain/ZIP64/data-descriptor/ZipCrypto/AE-1+AE-2/odd methods+prefix; the crate's own writer; the "
                      "repository's fixtures) x {every truncation point, single-byte substitutions in all structural bytes (quick: sampled), multi-site mutations "
                      "(set/insert/delete/truncate), the structure-aware single lies and cooperating pairs of lies enumerated by TLC from Lies.tla (field x boundary value)} "
                      "+ arbitrary bytes with record signatures; each input runs the whole reader surface (open, by_index/by_index_raw/by_index_decrypt/by_name(+decrypt), "
                      "reads, all accessors, clone, streaming reader full and partial, visitor, new_append) in a supervised worker process under a counting "
                      "allocator; Trace_Robust requires every result class to be a value or an error, no crash/stall, and peak heap growth while opening <= 1 MiB + 512 x len; "
                      "distinct = distinct (seed, mutation)",
                      assumptions=["exploration: the space of byte strings is sampled, exhaustive only over truncation points and (thorough) substitutions of small seeds and the enumerated lies",
                                   "reads are capped at 4 MiB per entry (inputs are small)"])


CHECKS = {"C05": c05, "C08": c08, "C07": c07, "C18": c18, "C06": c06, "C11": c11, "C20": c20, "C10": c10, "C04": c04, "C15": c15, "C16": c16, "C09": c09, "C19": c19, "C03": c03, "C13": c13, "C14": c14, "C01": c01, "C02": c02, "C12": c12, "C17": c17}



REPLAY = {  # check label -> (harness executor, trace specification, event filter)
    "model": ("wexec", "Trace_Writer", None), "random": ("wexec", "Trace_Writer", None), "roundtrip": ("wexec", "Trace_Writer", None),
    "valid": ("wexec", "Trace_Writer", None), "align": ("wexec", "Trace_Writer", None), "rawcopy": ("wexec", "Trace_Writer", None),
    "append": ("wexec", "Trace_Writer", None), "writer-names": ("wexec", "Trace_Writer", None), "shortwrite": ("wexec", "Trace_Writer", None),
    "crate-encrypts": ("wexec", "Trace_Writer", None),
    "tails": ("rexec", "Trace_Open", None), "producer": ("rexec", "Trace_Open", None), "decode": ("rexec", "Trace_Open", None),
    "table": ("rexec", "Trace_Open", None), "aes-open": ("rexec", "Trace_Open", None),
    "sched": ("eexec", "Trace_EntryRead", None), "damage": ("eexec", "Trace_EntryRead", None), "zc-reads": ("eexec", "Trace_EntryRead", None),
    "aes-reads": ("eexec", "Trace_EntryRead", None), "stream": ("sexec", "Trace_Stream", None), "clones": ("cexec", "Trace_Clones", None),
    "extract": ("xexec", "Trace_Extract", None), "zip64": ("zexec", "Trace_Zip64", None),
}


def replay(pid, path):
    """re-run ONE recorded case on the current tree and judge it again with the same trace specification:
    exit 1 + VIOLATION when it is rejected again, exit 0 when the specification now accepts it"""
    r = json.load(open(path))
    wd = vlib.workdir(pid, "replay")
    vlib.build_harness()
    label = r.get("check", "")
    sc = r.get("scenario")
    trace = os.path.join(wd, "replay-trace.ndjson")
    how = None
    if r.get("kind") == "model-level violation":
        res = vlib.tlc_mc(r["config"].replace(".cfg", ".tla") if r["config"].startswith("MC_") and os.path.exists(os.path.join(vlib.SPEC, r["config"].replace(".cfg", ".tla"))) else "MC_Writer.tla",
                          r["config"], wd, timeout=1800)
        bad = bool(res["error"])
        print(("VIOLATION property=%s replay=%s" % (pid, path)) if bad else "model-level violation no longer reproduces")
        return 1 if bad else 0
    if str(r.get("kind", "")).startswith("the harness process was killed"):
        # re-run the executor on the recorded scenario file: the violation is the process dying again
        inp = r.get("scenarios")
        if not inp or not os.path.isfile(inp):
            raise ToolTrouble("the scenario file of this crash was not kept")
        try:
            vlib.run_harness([r["executor"], inp, os.path.join(wd, "replay-crash-trace.ndjson")] + (["90"] if r["executor"] == "pexec" else []))
        except vlib.HarnessCrash:
            print("VIOLATION property=%s replay=%s" % (pid, path))
            return 1
        log("the executor now survives the recorded scenarios")
        return 0
    if str(r.get("kind", "")).startswith("ExtraWalk!Accepts disagrees"):
        progs = os.path.join(wd, "replay-scenario.ndjson")
        vlib.write_ndjson(progs, [r["program"]])
        vlib.run_harness(["wexec", progs, trace])
        got = next((e.get("r") for e in vlib.read_ndjson(trace) if e.get("ev") == "EndExtra"), None)
        bad = (got == "ok") != bool(r["model_accepts"])
        print(("VIOLATION property=%s replay=%s" % (pid, path)) if bad else "end_extra_data() now answers as the model does")
        return 1 if bad else 0
    if label in REPLAY and isinstance(sc, dict) and (sc.get("ops") or sc.get("hex") or sc.get("segments") or sc.get("steps") is not None):
        ex, mod, _ = REPLAY[label]
        if sc.get("hex") == "(omitted)":
            sc = None
        else:
            if ex == "xexec":
                sc = dict(sc, sbx=os.path.join(wd, "sbx"), via=["seek", "stream"], abs_canary="/zv_abs_canary")
            progs = os.path.join(wd, "replay-scenario.ndjson")
            vlib.write_ndjson(progs, [sc])
            old = os.umask(0o022)
            try:
                vlib.run_harness([ex, progs, trace])
            finally:
                os.umask(old)
            how = "re-executed with %s" % ex
    elif label == "robust" and isinstance(sc, dict) and sc.get("case"):
        mod = "Trace_Robust"
        progs = os.path.join(wd, "replay-cases.ndjson")
        c = sc["case"]
        vlib.write_ndjson(progs, [{"seed_def": c["seed"], "hex": sc.get("seed_hex", ""), "pws": ["7077", "70773"]}, c])
        vlib.run_harness(["pexec", progs, trace, "90"])
        evs = [{"ev": "Reset", "sc": "replay"}] + vlib.read_ndjson(trace)
        vlib.write_ndjson(trace, evs)
        how = "re-executed with pexec"
    if how is None:
        # no executor input was recorded for this kind of case: judge the recorded observations again
        mod = {"faults": "Trace_Fault", "dostime": "Trace_DosTime", "paths": "Trace_Path", "spaths": "Trace_Path", "robust": "Trace_Robust"}.get(label) or (REPLAY.get(label) or (None, "Trace_Writer"))[1]
        seg = r.get("trace_segment") or []
        if seg and seg[0].get("ev") != "Reset":
            seg = [{"ev": "Reset", "sc": seg[0].get("sc", "replay")}] + seg
        vlib.write_ndjson(trace, seg)
        how = "recorded observations re-validated"
    ok, st, idx, ev, inv = vlib.tlc_trace(mod + ".tla", mod + ".cfg", trace, wd, tag="replay")
    log("replay (%s) against %s: %s" % (how, mod, "accepted" if ok else "rejected at event %s %s" % (idx, inv or "")))
    if not ok:
        print("VIOLATION property=%s replay=%s" % (pid, path))
        return 1
    return 0


def setup():
    vlib.build_harness()
    # parse every specification module
    bad = 0
    for f in sorted(os.listdir(vlib.SPEC)):
        if not f.endswith(".tla"):
            continue
        tmp = os.path.join(vlib.ROOT, "work", "sany")
        os.makedirs(tmp, exist_ok=True)
        p = subprocess.run(["java", "-Djava.io.tmpdir=" + tmp, "-cp", vlib.TLA_CP, "tla2sany.SANY", f], cwd=vlib.SPEC,
                           stdout=subprocess.PIPE, stderr=subprocess.STDOUT, text=True)
        if p.returncode != 0 or "error" in p.stdout.lower():
            log("SANY: %s\n%s" % (f, p.stdout[-1500:]))
            bad += 1
    return 2 if bad else 0


def main():
    a = sys.argv[1:]
    if a and a[0] == "--setup":
        sys.exit(setup())
    if len(a) < 2:
        print(__doc__)
        sys.exit(2)
    pid = a[0]
    # the tier named on the command line wins; VERIF_TIER only fills in when none is given
    tier = a[1] if a[1] in ("quick", "thorough") else (os.environ.get("VERIF_TIER") or "quick")
    if a[1] == "--replay":
        try:
            sys.exit(replay(pid, a[2]))
        except ToolTrouble as e:
            log("TOOL TROUBLE: %s" % e)
            sys.exit(2)
    if pid not in CHECKS:
        log("no check for " + pid)
        sys.exit(2)
    try:
        sys.exit(CHECKS[pid](tier))
    except vlib.HarnessCrash as e:
        # the code under test brought the whole harness process down (abort / stack overflow): a crash is what the property forbids
        rep = Report.CURRENT
        inp = next((a for a in e.hargs[1:] if os.path.isfile(a)), None)
        payload = {"kind": "the harness process was killed by signal %d while driving the crate" % -e.rc, "executor": e.hargs[0],
                   "how_to_replay": "harness/target/release/zipconf " + " ".join(e.hargs), "stderr_tail": e.stderr[-1500:]}
        if inp and os.path.getsize(inp) < 30_000_000:
            keep = os.path.join(vlib.OUTROOT, "replays", "%s-crash-%s" % (pid, os.path.basename(inp)))
            os.makedirs(os.path.dirname(keep), exist_ok=True)
            shutil.copy(inp, keep)
            payload["scenarios"] = keep
        path = vlib.save_replay(pid, "harness-crash-" + e.hargs[0], payload)
        if rep is None:
            rep = Report(pid, tier)
        rep.violations.append((path, "process abort while running %s" % e.hargs[0]))
        sys.exit(rep.finish("model_checking", "(the run ended when the code under test aborted the harness process)"))
    except ToolTrouble as e:
        log("TOOL TROUBLE: %s" % e)
        rep = Report.CURRENT
        if rep is not None and rep.violations:
            sys.exit(rep.finish("model_checking", "(tool trouble after these violations were recorded: %s)" % e))
        sys.exit(2)
    except SystemExit:
        raise
    except BaseException:      # a bug of the machinery is never reported as a violation (exit 1 is reserved for VIOLATION lines)
        import traceback
        traceback.print_exc()
        rep = Report.CURRENT
        if rep is not None and rep.violations:
            # violations recorded before the crash are real observations: report them (the crash itself is logged above)
            sys.exit(rep.finish("model_checking", "(the check's own post-processing crashed after these violations were recorded)"))
        log("TOOL TROUBLE: unexpected exception in the check")
        sys.exit(2)


if __name__ == "__main__":
    main()
