#!/usr/bin/env python3
"""prints the markdown table of section 14.2 of DESIGN.md from the committed evidence files"""
import glob, json, os
ROOT = os.path.dirname(os.path.dirname(os.path.abspath(__file__)))
print("| check | level | model checking runs (config: distinct states) | traces validated | evaluations | distinct | negative controls | wall |")
print("|---|---|---|---|---|---|---|---|")
for f in sorted(glob.glob(os.path.join(ROOT, "evidence", "C*.json"))):
    e = json.load(open(f))
    c = e["coverage"]
    mc = "; ".join("%s: %s" % (m["config"].replace(".cfg", ""), format(m["distinct"], ",")) for m in c.get("model_checking_runs", []))
    neg = c.get("negative_controls", [])
    nn = "%d spec mutants found, %d trace corruptions rejected" % (sum(1 for n in neg if n.get("found")), sum(1 for n in neg if n.get("rejected")))
    print("| %s | %s | %s | %s | %s | %s | %s | %d s |" % (e["property_id"], e["level"], mc, format(c.get("traces_validated_against_impl", 0), ","),
                                                   format(c.get("evaluations", 0), ","), format(c.get("distinct_nontrivial", 0), ","), nn, round(e["wall_s"])))
