#!/bin/sh
# try_mutant.sh <patch> [-R] <ID> [tier]  : apply a patch to /repo, run one check, always restore /repo
P="$1"; shift
REV=""
if [ "$1" = "-R" ]; then REV="-R"; shift; fi
ID="$1"; TIER="${2:-quick}"
cd /repo || exit 2
git diff --quiet || { echo "/repo not clean"; exit 2; }
git apply $REV "$P" || { echo "patch does not apply"; exit 2; }
trap 'git -C /repo checkout -- . ' EXIT INT TERM
cd /verif && rm -rf /verif/replays && VERIF_DEV_SKIP_MC=1 timeout -s KILL 1500 bin/check "$ID" "$TIER" 2>&1 | grep -E "VIOLATION|KNOWN|violations,|TOOL TROUBLE|rejected at" | head -8
echo "exit=$?"
