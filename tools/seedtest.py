#!/usr/bin/env python3
"""Development tool for seeded changes (never part of a registered check).

  seedtest.py confirm <src-dir> <n> <name> <property>
      src-dir holds patch<n>.diff, demo<n>.rs, meta<n>.json written by a sub-agent.  In a scratch
      worktree: the patch applies, the crate builds, the repository's own suite passes, the
      demonstration fails with the patch and passes without it.  On success the change is stored as
      /verif/seeded/<name>/{patch.diff, demo.rs, meta.json}.
  seedtest.py detect <name> [check ids...]
      runs the named checks (default: the property the change breaks) in quick tier against a scratch
      worktree with the change applied (VERIF_ALT), records exit codes in seeded/<name>/meta.json.
  seedtest.py detect-in-repo <name> [check ids...]
      the prescribed way: git -C /repo apply, run the checks from /verif, git -C /repo checkout -- .
"""
import json
import os
import shutil
import subprocess
import sys
import time

ROOT = os.path.dirname(os.path.dirname(os.path.abspath(__file__)))
SEEDED = os.path.join(ROOT, "seeded")
SCR = "/tmp/zv-seed"


def sh(cmd, cwd=None, env=None, timeout=3600):
    e = dict(os.environ, CARGO_NET_OFFLINE="true")
    if env:
        e.update(env)
    p = subprocess.run(cmd, cwd=cwd, env=e, stdout=subprocess.PIPE, stderr=subprocess.STDOUT, text=True, timeout=timeout)
    return p.returncode, p.stdout


def worktree(tag):
    d = os.path.join(SCR, tag, "repo")
    if os.path.exists(d):
        sh(["git", "-C", "/repo", "worktree", "remove", "--force", d])
        shutil.rmtree(os.path.dirname(d), ignore_errors=True)
    os.makedirs(os.path.dirname(d), exist_ok=True)
    rc, out = sh(["git", "-C", "/repo", "worktree", "add", "--detach", d, "HEAD"])
    if rc:
        raise SystemExit("worktree: " + out)
    return d


def drop(tag):
    d = os.path.join(SCR, tag, "repo")
    sh(["git", "-C", "/repo", "worktree", "remove", "--force", d])
    shutil.rmtree(os.path.join(SCR, tag), ignore_errors=True)


def confirm(src, n, name, prop):
    patch = os.path.join(src, "patch%s.diff" % n)
    demo = os.path.join(src, "demo%s.rs" % n)
    meta = json.load(open(os.path.join(src, "meta%s.json" % n)))
    wt = worktree("confirm-" + name)
    tgt = os.path.join(SCR, "target-tests")          # shared build cache across confirmations
    env = {"CARGO_TARGET_DIR": tgt}
    ran = []
    try:
        rc, out = sh(["git", "-C", wt, "apply", patch])
        if rc:      # the base moved on since the change was written: three-way
            rc, out = sh(["git", "-C", wt, "apply", "--3way", patch])
            if rc == 0:
                sh(["git", "-C", wt, "reset", "-q"])
                rc2, d = sh(["git", "-C", wt, "diff"])
                open(patch, "w").write(d)
        ran.append("git apply: rc=%d" % rc)
        if rc:
            raise SystemExit("patch does not apply: " + out)
        rc, out = sh(["cargo", "test", "--workspace", "--no-fail-fast", "--offline", "-j", "8"], cwd=wt, env=env)
        okline = [l for l in out.splitlines() if l.startswith("test result:")]
        ran.append("existing suite with patch: rc=%d; %s" % (rc, " | ".join(okline)[:600]))
        if rc:
            raise SystemExit("existing suite fails with the patch:\n" + out[-3000:])
        shutil.copy(demo, os.path.join(wt, "tests", "seed_demo.rs"))
        rc1, out1 = sh(["cargo", "test", "--offline", "-j", "8", "--test", "seed_demo"], cwd=wt, env=env)
        ran.append("demo with patch: rc=%d" % rc1)
        if rc1 == 0:
            raise SystemExit("demo passes WITH the patch")
        if "error[" in out1 or "could not compile" in out1:
            raise SystemExit("demo does not compile:\n" + out1[-3000:])
        sh(["git", "-C", wt, "checkout", "--", "src"])
        rc2, out2 = sh(["cargo", "test", "--offline", "-j", "8", "--test", "seed_demo"], cwd=wt, env=env)
        ran.append("demo without patch: rc=%d" % rc2)
        if rc2 != 0:
            raise SystemExit("demo fails WITHOUT the patch:\n" + out2[-3000:])
    finally:
        drop("confirm-" + name)
    d = os.path.join(SEEDED, name)
    os.makedirs(d, exist_ok=True)
    shutil.copy(patch, os.path.join(d, "patch.diff"))
    shutil.copy(demo, os.path.join(d, "demo.rs"))
    m = {"name": name, "breaks_property": prop, "summary": meta.get("summary"), "how_it_breaks": meta.get("breaks"),
         "needs_to_manifest": meta.get("needs"), "files": meta.get("files"), "origin": "sub-agent given only the property text and a scratch worktree",
         "confirmed_by_me": ran, "base_commit": sh(["git", "-C", "/repo", "rev-parse", "--short", "HEAD"])[1].strip(), "detection": {}}
    json.dump(m, open(os.path.join(d, "meta.json"), "w"), indent=1)
    print("confirmed", name, ran)


def run_checks(ids, env, cwd):
    res = {}
    for cid in ids:
        t0 = time.time()
        rc, out = sh(["python3", os.path.join(ROOT, "tools", "check.py"), cid, "quick"], cwd=cwd, env=env, timeout=5400)
        viol = [l for l in out.splitlines() if l.startswith("VIOLATION")]
        tail = [l for l in out.splitlines() if l.strip()][-6:]
        res[cid] = {"exit": rc, "violations": len(viol), "first": viol[:2], "wall_s": round(time.time() - t0), "tail": tail if rc not in (0, 1) else tail[-2:]}
        print(cid, "exit", rc, "violations", len(viol), "%.0fs" % (time.time() - t0), flush=True)
    return res


def detect(name, ids, in_repo=False):
    d = os.path.join(SEEDED, name)
    m = json.load(open(os.path.join(d, "meta.json")))
    ids = ids or [m["breaks_property"]]
    if in_repo:
        rc, out = sh(["git", "-C", "/repo", "status", "--porcelain", "--untracked-files=no"])
        if out.strip():
            raise SystemExit("/repo is not clean")
        rc, out = sh(["git", "-C", "/repo", "apply", os.path.join(d, "patch.diff")])
        if rc:
            raise SystemExit("apply: " + out)
        try:
            res = run_checks(ids, {}, ROOT)
        finally:
            sh(["git", "-C", "/repo", "checkout", "--", "."])
        key = "in_repo"
    else:
        tag = "alt-" + name
        wt = worktree(tag)
        alt = os.path.join(SCR, tag)
        try:
            rc, out = sh(["git", "-C", wt, "apply", os.path.join(d, "patch.diff")])
            if rc:
                raise SystemExit("apply: " + out)
            h = os.path.join(alt, "harness")
            shutil.copytree(os.path.join(ROOT, "harness"), h, ignore=shutil.ignore_patterns("target"))
            ct = open(os.path.join(h, "Cargo.toml")).read().replace('path = "/repo"', 'path = "%s"' % wt)
            open(os.path.join(h, "Cargo.toml"), "w").write(ct)
            # reuse an already built dependency cache when there is one
            cache = os.path.join(SCR, "harness-target-cache")
            if os.path.isdir(cache):
                shutil.copytree(cache, os.path.join(h, "target"), symlinks=True)
            res = run_checks(ids, {"VERIF_ALT": alt}, ROOT)
            if not os.path.isdir(cache) and os.path.isdir(os.path.join(h, "target")):
                shutil.copytree(os.path.join(h, "target"), cache, symlinks=True)
        finally:
            drop(tag)
        key = "scratch_worktree"
    m.setdefault("detection", {}).setdefault(key, {}).update(res)
    m["detection"]["verif_commit"] = sh(["git", "-C", ROOT, "rev-parse", "--short", "HEAD"])[1].strip()
    json.dump(m, open(os.path.join(d, "meta.json"), "w"), indent=1)


if __name__ == "__main__":
    a = sys.argv[1:]
    if a[0] == "confirm":
        confirm(a[1], a[2], a[3], a[4])
    elif a[0] == "detect":
        detect(a[1], a[2:])
    elif a[0] == "detect-in-repo":
        detect(a[1], a[2:], in_repo=True)
