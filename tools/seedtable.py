#!/usr/bin/env python3
"""prints the markdown table of seeded changes and which checks catch them (from seeded/*/meta.json)"""
import glob, json, os
ROOT = os.path.dirname(os.path.dirname(os.path.abspath(__file__)))
rows = []
for f in sorted(glob.glob(os.path.join(ROOT, "seeded", "*", "meta.json"))):
    m = json.load(open(f))
    det = m.get("detection", {})
    caught, missed = [], []
    for where in ("scratch_worktree", "in_repo"):
        for cid, r in (det.get(where) or {}).items():
            tag = cid + ("*" if where == "in_repo" else "")
            if r.get("exit") == 1 and r.get("violations", 0) > 0:
                if tag not in caught:
                    caught.append(tag)
            elif r.get("exit") == 0:
                missed.append(tag)
    summ = (m.get("summary") or "").replace("|", "/").replace("\n", " ")
    if len(summ) > 170:
        summ = summ[:167] + "..."
    rows.append("| %s | %s | %s | %s | %s |" % (m["name"], m["breaks_property"], summ, ", ".join(caught) or "-", ", ".join(x for x in missed if x not in caught) or ""))
print("| change | breaks | what was changed | caught by (quick tier) | not caught by |")
print("|---|---|---|---|---|")
print("\n".join(rows))
