#!/usr/bin/env python3
"""diag.py <replay.json> [Trace module] [diag cfg]: re-validate one rejected segment with the
diagnostic specification and print the spec state in front of the rejected event."""
import json, os, re, subprocess, sys, tempfile, shutil
sys.path.insert(0, os.path.dirname(os.path.abspath(__file__)))
import vlib
r = json.load(open(sys.argv[1]))
mod = sys.argv[2] if len(sys.argv) > 2 else "Trace_Writer.tla"
cfg = sys.argv[3] if len(sys.argv) > 3 else mod.replace(".tla", "_diag.cfg")
wd = tempfile.mkdtemp(prefix="diag", dir=os.path.join(vlib.ROOT, "work"))
p = os.path.join(wd, "seg.ndjson")
vlib.write_ndjson(p, r["trace_segment"])
res = vlib.tlc_run(mod, cfg, wd, workers=1, env={"TRACE": p}, jvm=["-Dtlc2.tool.queue.IStateQueue=StateDeque"], timeout=300)
out = res["out"]
k = r["index_in_segment"]
print("scenario ops:", json.dumps([o.get("op") for o in (r.get("scenario") or {}).get("ops", [])]))
print("rejected event #%d:" % k, json.dumps(r["rejected_event"])[:1500])
# DIAG blocks are multi-line TLC values; join and split
txt = re.sub(r"\s+", " ", out)
blocks = re.findall(r'<< "DIAG[^"]*".*?(?=<< "DIAG|<<"REJECTED|Error:)', txt)
want = [b for b in blocks if b.startswith('<< "DIAG-STATE"') and (", %d," % (k + 1)) in b[:60]]
for b in (want[-1:] or blocks[-1:]):
    print(b[:3000])
for b in blocks:
    if b.startswith('<< "DIAG"') or (b.startswith('<< "DIAG-ENTRY"') and r["rejected_event"].get("ev") == "Entry"):
        print(b[:3500])
if res["error"]:
    print("TLC:", res["error"])
shutil.rmtree(wd, ignore_errors=True)
