//! Reader-side fault runs (C11): open + read-all over a source whose k-th I/O operation fails.
use crate::eexec::Chunked;
use crate::rexec::err_class;
use crate::util::*;
use serde_json::{json, Map, Value};
use std::io::Read;
use std::panic::{catch_unwind, AssertUnwindSafe};
use zip::ZipArchive;

fn read_all(f: &mut dyn Read, bufsize: usize) -> Result<(u64, u32), String> {
    if bufsize == 0 {
        // (scenario field buf = 0: the entry is read through read_to_end - an implementation may specialise it)
        let mut v = vec![];
        return match f.read_to_end(&mut v) {
            Ok(_) => {
                let mut c = Crc::new();
                c.update(&v);
                Ok((v.len() as u64, c.finish()))
            }
            Err(e) => Err(e.to_string()),
        };
    }
    let mut buf = vec![0u8; bufsize.max(1)];
    let (mut n, mut c) = (0u64, Crc::new());
    loop {
        match f.read(&mut buf) {
            Ok(0) => return Ok((n, c.finish())),
            Ok(k) => {
                n += k as u64;
                c.update(&buf[..k]);
            }
            Err(e) => return Err(e.to_string()),
        }
    }
}

pub fn run(sc: &Value) -> Vec<Value> {
    let id = sc["sc"].as_str().unwrap_or("?").to_string();
    let bytes = unhex(sc["hex"].as_str().unwrap_or(""));
    let epw: Vec<Option<Vec<u8>>> = sc.get("epw").and_then(|x| x.as_array()).map(|a| a.iter().map(|p| p.as_str().map(unhex)).collect()).unwrap_or_default();
    let via = sc["via"].as_str().unwrap_or("seek").to_string();
    let bufsize = sc.get("buf").and_then(|x| x.as_u64()).unwrap_or(4096) as usize;
    let mut out = vec![];
    for k in sc["faults"].as_array().cloned().unwrap_or_default() {
        let mut plan = sc.get("under").cloned().unwrap_or(json!({}));
        if !k.is_null() {
            plan["fault_at"] = k.clone();
        }
        let mut calls = 0u64;
        let mut anyerr = false;
        let mut outcome: Vec<Value> = vec![];
        let mut ops = 0u64;
        let mut faulted = json!(null);
        let mut first_err = String::new();
        let mut drop_panicked = false;
        let r = catch_unwind(AssertUnwindSafe(|| {
            if via == "seek" {
                let rd = Chunked::new(&bytes, &plan);
                calls += 1;
                match ZipArchive::new(rd) {
                    Err(e) => {
                        anyerr = true;
                        first_err = format!("open: {}", err_class(&e));
                    }
                    Ok(mut ar) => {
                        outcome.push(json!({"n": ar.len(), "comment": hid(ar.comment())}));
                        for i in 0..ar.len() {
                            calls += 1;
                            let fr = match epw.get(i).cloned().flatten() {
                                Some(pw) => ar.by_index_decrypt(i, &pw),
                                None => ar.by_index(i).map(Ok),
                            };
                            match fr {
                                Err(e) => {
                                    anyerr = true;
                                    if first_err.is_empty() {
                                        first_err = format!("by_index({}): {}", i, err_class(&e));
                                    }
                                }
                                Ok(Err(_)) => {
                                    anyerr = true;
                                    if first_err.is_empty() {
                                        first_err = format!("by_index({}): invalid password", i);
                                    }
                                }
                                Ok(Ok(mut f)) => {
                                    let nm = hid(f.name().as_bytes());
                                    // everything the entry reports belongs to the outcome: a fault-free-looking run must show the
                                    // same metadata (extra data, comment, sizes, offsets, time, method) as the fault-free run
                                    let lm = f.last_modified();
                                    let meta = json!({"rawname": hid(f.name_raw()), "comment": hid(f.comment().as_bytes()), "usize": f.size(), "csize": f.compressed_size(),
                                        "crc32": f.crc32(), "method": crate::wexec::code_of(f.compression()), "dt": [lm.datepart(), lm.timepart()],
                                        "extra": hid(f.extra_data()), "hdr": f.header_start(), "dstart": f.data_start(), "chs": f.central_header_start(),
                                        "made": [f.version_made_by().0, f.version_made_by().1], "dir": f.is_dir()});
                                    match read_all(&mut f, bufsize) {
                                        Ok((n, c)) => outcome.push(json!({"name": nm, "len": n, "crc": hex32(c), "mode": f.unix_mode(), "meta": meta})),
                                        Err(e) => {
                                            anyerr = true;
                                            // a caller may well read again after an error: that must not panic either
                                            let mut more = [0u8; 8];
                                            for _ in 0..3 {
                                                let _ = f.read(&mut more);
                                            }
                                            if first_err.is_empty() {
                                                first_err = format!("read({}): {}", i, e);
                                            }
                                        }
                                    }
                                }
                            }
                        }
                        let rd = ar.into_inner();
                        ops = rd.ops;
                        faulted = json!(rd.faulted.map(|(k, kind)| json!([k, kind])));
                    }
                }
            } else {
                let mut rd = Chunked::new(&bytes, &plan);
                loop {
                    calls += 1;
                    match zip::read::read_zipfile_from_stream(&mut rd) {
                        Err(e) => {
                            anyerr = true;
                            if first_err.is_empty() {
                                first_err = format!("next: {}", err_class(&e));
                            }
                            break;
                        }
                        Ok(None) => break,
                        Ok(Some(f)) => {
                            // (released under its own guard below: a destructor that panics while another panic unwinds aborts the process)
                            let mut f = std::mem::ManuallyDrop::new(f);
                            let lm = f.last_modified();
                            let nm = format!("{}|{}|{}|{}|{}|{}|{}|{}", hid(f.name().as_bytes()), hid(f.name_raw()), f.size(), f.compressed_size(), f.crc32(),
                                             crate::wexec::code_of(f.compression()), lm.datepart(), lm.timepart());
                            // read only half of every second entry: the drain on release does I/O too
                            let half = outcome.len() % 2 == 1;
                            if half {
                                let mut b = vec![0u8; (f.size() / 2) as usize];
                                if f.read_exact(&mut b).is_err() {
                                    anyerr = true;
                                }
                                outcome.push(json!({"name": nm, "half": hex32(crc32(&b))}));
                            } else {
                                match read_all(&mut *f, bufsize) {
                                    Ok((n, c)) => outcome.push(json!({"name": nm, "len": n, "crc": hex32(c)})),
                                    Err(e) => {
                                        anyerr = true;
                                        // reading again after an error, and releasing the entry, must not panic either
                                        let mut more = [0u8; 8];
                                        for _ in 0..2 {
                                            let _ = f.read(&mut more);
                                        }
                                        if first_err.is_empty() {
                                            first_err = format!("read: {}", e);
                                        }
                                    }
                                }
                            }
                            if catch_unwind(AssertUnwindSafe(|| unsafe { std::mem::ManuallyDrop::drop(&mut f) })).is_err() {
                                drop_panicked = true;
                            }
                        }
                    }
                }
                ops = rd.ops;
                faulted = json!(rd.faulted.map(|(k, kind)| json!([k, kind])));
            }
        }));
        let mut m = Map::new();
        m.insert("ev".into(), json!("FRun"));
        m.insert("sc".into(), json!(id));
        m.insert("side".into(), json!(format!("reader-{}", via)));
        m.insert("k".into(), if k.is_null() { json!(-1) } else { k.clone() });
        m.insert("calls".into(), json!(calls));
        m.insert("anyerr".into(), json!(anyerr));
        m.insert("first_err".into(), json!(first_err));
        m.insert("ops".into(), json!(ops));
        m.insert("faulted".into(), faulted);
        match r {
            Ok(()) => {
                m.insert("panic".into(), json!(drop_panicked));
                if drop_panicked {
                    m.insert("msg".into(), json!("releasing a streamed entry panicked"));
                }
            }
            Err(p) => {
                m.insert("panic".into(), json!(true));
                m.insert("msg".into(), json!(panic_msg(&p)));
            }
        }
        m.insert("outcome".into(), json!(hid(serde_json::to_string(&outcome).unwrap().as_bytes())));
        m.insert("finished".into(), json!(true));
        out.push(Value::Object(m));
    }
    out
}

pub fn main_fexec(args: &[String]) -> i32 {
    use std::io::Write;
    let inp = std::fs::read_to_string(&args[0]).expect("read scenarios");
    let mut out = std::io::BufWriter::new(std::fs::File::create(&args[1]).expect("create trace"));
    std::panic::set_hook(Box::new(|_| {}));
    for line in inp.lines() {
        if line.trim().is_empty() {
            continue;
        }
        let sc: Value = serde_json::from_str(line).expect("scenario json");
        for e in run(&sc) {
            writeln!(out, "{}", e).unwrap();
        }
    }
    0
}
