//! Independent strict structural ZIP parser (written from APPNOTE 6.3.9, shares no code with the
//! crate under test).  bytes -> record-level layout as JSON (DESIGN §4).  It only *reports*; the
//! TLA+ operator ZipFormat!WellFormed judges.
use crate::util::*;
use serde_json::{json, Map, Value};
use std::io::Read;

pub trait Src {
    fn len(&self) -> u64;
    /// exact read; None when out of range
    fn get(&self, off: u64, n: usize) -> Option<Vec<u8>>;
    fn crc_range(&self, off: u64, n: u64) -> Option<u32>;
}
pub struct Mem<'a>(pub &'a [u8]);
impl<'a> Src for Mem<'a> {
    fn len(&self) -> u64 {
        self.0.len() as u64
    }
    fn get(&self, off: u64, n: usize) -> Option<Vec<u8>> {
        let l = self.0.len() as u64;
        if off.checked_add(n as u64)? > l {
            return None;
        }
        Some(self.0[off as usize..off as usize + n].to_vec())
    }
    fn crc_range(&self, off: u64, n: u64) -> Option<u32> {
        let l = self.0.len() as u64;
        if off.checked_add(n)? > l {
            return None;
        }
        Some(crc32(&self.0[off as usize..(off + n) as usize]))
    }
}

fn u16le(b: &[u8], o: usize) -> u64 {
    u16::from_le_bytes([b[o], b[o + 1]]) as u64
}
fn u32le(b: &[u8], o: usize) -> u64 {
    u32::from_le_bytes([b[o], b[o + 1], b[o + 2], b[o + 3]]) as u64
}
fn u64le(b: &[u8], o: usize) -> u64 {
    let mut a = [0u8; 8];
    a.copy_from_slice(&b[o..o + 8]);
    u64::from_le_bytes(a)
}

pub const SIG_LFH: u64 = 0x04034b50;
pub const SIG_CDH: u64 = 0x02014b50;
pub const SIG_EOCD: u64 = 0x06054b50;
pub const SIG_Z64: u64 = 0x06064b50;
pub const SIG_LOC: u64 = 0x07064b50;
pub const SIG_DD: u64 = 0x08074b50;

/// TLV list of an extra field: [{id,len,h, z:[u64...] (id 1 only)}], plus `junk` = bytes that do
/// not form a complete record at the tail
pub fn parse_extra(x: &[u8]) -> (Vec<Value>, usize) {
    let mut out = vec![];
    let mut o = 0usize;
    while x.len() - o >= 4 {
        let id = u16le(x, o);
        let ln = u16le(x, o + 2) as usize;
        if o + 4 + ln > x.len() {
            break;
        }
        let body = &x[o + 4..o + 4 + ln];
        let mut r = Map::new();
        r.insert("id".into(), json!(id));
        r.insert("len".into(), json!(ln));
        r.insert("h".into(), json!(hid(body)));
        if id == 1 {
            let vals: Vec<Value> = (0..ln / 8).map(|i| json!(u64le(body, i * 8).min(S32))).collect();
            r.insert("z".into(), json!(vals));
            // exact values (the capped ones above are for the 32-bit integers of TLC)
            let exact: Vec<Value> = (0..ln / 8).map(|i| json!(format!("{:016x}", u64le(body, i * 8)))).collect();
            r.insert("zx".into(), json!(exact));
        } else {
            r.insert("z".into(), json!([]));
            r.insert("zx".into(), json!([]));
        }
        out.push(Value::Object(r));
        o += 4 + ln;
    }
    (out, x.len() - o)
}

pub struct LexOpts {
    /// candidate passwords for ZipCrypto entries (for the independent decode)
    pub passwords_any: Vec<Vec<u8>>,
    /// allow bytes after the EOCD comment (foreign archives with trailing garbage)
    pub allow_trailing: bool,
    /// do not decode payloads larger than this
    pub decode_limit: u64,
    /// emit exact two-limb numbers instead of capped 31-bit ones (C08)
    pub pair: bool,
}
impl Default for LexOpts {
    fn default() -> Self {
        LexOpts { passwords_any: vec![], allow_trailing: false, decode_limit: 64 << 20, pair: false }
    }
}

pub fn zipcrypto_decrypt(pw: &[u8], data: &[u8]) -> Vec<u8> {
    let t = crc_table();
    let (mut k0, mut k1, mut k2) = (0x12345678u32, 0x23456789u32, 0x34567890u32);
    let upd = |k0: &mut u32, k1: &mut u32, k2: &mut u32, c: u8| {
        *k0 = t[((*k0 ^ c as u32) & 0xff) as usize] ^ (*k0 >> 8);
        *k1 = (k1.wrapping_add(*k0 & 0xff)).wrapping_mul(134775813).wrapping_add(1);
        *k2 = t[((*k2 ^ (*k1 >> 24)) & 0xff) as usize] ^ (*k2 >> 8);
    };
    for &c in pw {
        upd(&mut k0, &mut k1, &mut k2, c);
    }
    let mut out = Vec::with_capacity(data.len());
    for &c in data {
        let tmp = (k2 | 2) & 0xffff;
        let ks = ((tmp.wrapping_mul(tmp ^ 1)) >> 8) as u8;
        let p = c ^ ks;
        upd(&mut k0, &mut k1, &mut k2, p);
        out.push(p);
    }
    out
}
pub fn zipcrypto_encrypt(pw: &[u8], data: &[u8]) -> Vec<u8> {
    let t = crc_table();
    let (mut k0, mut k1, mut k2) = (0x12345678u32, 0x23456789u32, 0x34567890u32);
    let upd = |k0: &mut u32, k1: &mut u32, k2: &mut u32, c: u8| {
        *k0 = t[((*k0 ^ c as u32) & 0xff) as usize] ^ (*k0 >> 8);
        *k1 = (k1.wrapping_add(*k0 & 0xff)).wrapping_mul(134775813).wrapping_add(1);
        *k2 = t[((*k2 ^ (*k1 >> 24)) & 0xff) as usize] ^ (*k2 >> 8);
    };
    for &c in pw {
        upd(&mut k0, &mut k1, &mut k2, c);
    }
    let mut out = Vec::with_capacity(data.len());
    for &p in data {
        let tmp = (k2 | 2) & 0xffff;
        let ks = ((tmp.wrapping_mul(tmp ^ 1)) >> 8) as u8;
        out.push(p ^ ks);
        upd(&mut k0, &mut k1, &mut k2, p);
    }
    out
}

/// decode `raw` with `method`; returns (ok, len, crc)
pub fn decode(method: u64, raw: &[u8]) -> (bool, u64, u32) {
    let mut out = Vec::new();
    let ok = match method {
        0 => {
            out.extend_from_slice(raw);
            true
        }
        8 => flate2::read::DeflateDecoder::new(raw).read_to_end(&mut out).is_ok(),
        12 => bzip2::read::BzDecoder::new(raw).read_to_end(&mut out).is_ok(),
        93 => match zstd::stream::read::Decoder::new(raw) {
            Ok(mut d) => d.read_to_end(&mut out).is_ok(),
            Err(_) => false,
        },
        _ => false,
    };
    (ok, out.len() as u64, crc32(&out))
}

/// TLC integers are 32-bit: values are emitted through these helpers.  A 32-bit field holding
/// the format's sentinel 0xFFFFFFFF is emitted as S32 (= Thr32 of the trace specifications);
/// anything else beyond i32::MAX is capped and its name recorded in `big` (which WellFormed of
/// the ordinary trace specifications refuses; real-threshold ZIP64 runs use `lex_classes`).
pub const S32: u64 = 2147483647;
pub struct Nums {
    pub big: Vec<String>,
    /// real-threshold mode (C08): every quantity is emitted exactly, as a two-limb number
    /// [v div 2^24, v mod 2^24] (TLC integers are 32-bit; spec module Big.tla)
    pub pair: bool,
}
pub fn big_pair(v: u64) -> Value {
    json!([v >> 24, v & 0xFF_FFFF])
}
impl Nums {
    pub fn f32(&mut self, v: u64, name: &str) -> Value {
        if self.pair {
            big_pair(v)
        } else if v == 0xFFFF_FFFF {
            json!(S32)
        } else {
            self.n(v, name)
        }
    }
    pub fn n(&mut self, v: u64, name: &str) -> Value {
        if self.pair {
            big_pair(v)
        } else if v >= S32 {
            self.big.push(name.to_string());
            json!(S32)
        } else {
            json!(v)
        }
    }
}

fn err(msg: &str) -> Value {
    json!({"ok": false, "why": msg})
}

pub fn lex(src: &dyn Src, opts: &LexOpts) -> Value {
    let flen = src.len();
    let mut nums = Nums { big: vec![], pair: opts.pair };
    if flen < 22 {
        return err("shorter than an end record");
    }
    // 1. end record: last position whose comment reaches exactly the end of the file
    let lo = flen.saturating_sub(22 + 65535);
    let mut eocd_pos = None;
    let mut p = flen - 22;
    loop {
        if let Some(b) = src.get(p, 22) {
            if u32le(&b, 0) == SIG_EOCD {
                let cl = u16le(&b, 20);
                if p + 22 + cl == flen || (opts.allow_trailing && p + 22 + cl <= flen) {
                    eocd_pos = Some(p);
                    break;
                }
            }
        }
        if p == lo {
            break;
        }
        p -= 1;
    }
    let p = match eocd_pos {
        Some(p) => p,
        None => return err("no end record whose comment ends the file"),
    };
    let b = src.get(p, 22).unwrap();
    let clen = u16le(&b, 20);
    let comment = src.get(p + 22, clen as usize).unwrap_or_default();
    let eocd = json!({"pos": nums.n(p, "eocd.pos"), "disk": u16le(&b,4), "cddisk": u16le(&b,6), "n_disk": u16le(&b,8),
        "n_total": u16le(&b,10), "cd_size": nums.f32(u32le(&b,12), "eocd.cd_size"),
        "cd_offset": nums.f32(u32le(&b,16), "eocd.cd_offset"), "clen": clen,
        "comment": abs_name(&comment), "trailing": nums.n(flen - (p + 22 + clen), "trailing")});
    // 2. ZIP64 locator directly in front of the end record, ZIP64 end record directly in front of it
    let mut z64 = json!([]);
    let (mut n, mut cd_size, mut cd_off) = (u16le(&b, 8), u32le(&b, 12), u32le(&b, 16));
    let mut tail_start = p; // where the trailer records start (for coverage)
    let mut have_z64 = false;
    let mut z64_rec_pos = 0u64;
    if p >= 20 {
        if let Some(l) = src.get(p - 20, 20) {
            if u32le(&l, 0) == SIG_LOC {
                let loc_off = u64le(&l, 8);
                // strict: the record must sit immediately before the locator; tolerate an
                // extensible data sector by trusting the record's own size field
                let mut found = None;
                if p >= 76 {
                    if let Some(r) = src.get(p - 76, 56) {
                        if u32le(&r, 0) == SIG_Z64 {
                            found = Some((p - 76, r));
                        }
                    }
                }
                match found {
                    None => return err("ZIP64 locator without an adjacent ZIP64 end record"),
                    Some((rp, r)) => {
                        have_z64 = true;
                        z64_rec_pos = rp;
                        tail_start = rp;
                        n = u64le(&r, 32);
                        cd_size = u64le(&r, 40);
                        cd_off = u64le(&r, 48);
                        z64 = json!([{"loc_pos": nums.n(p - 20, "z.loc_pos"), "loc_disk": nums.n(u32le(&l,4), "z.loc_disk"),
                            "loc_off": nums.n(loc_off, "z.loc_off"),
                            "loc_ndisks": nums.n(u32le(&l,16), "z.loc_ndisks"), "rec_pos": nums.n(rp, "z.rec_pos"),
                            "rec_size": nums.n(u64le(&r,4), "z.rec_size"),
                            "vmade": u16le(&r,12), "vneed": u16le(&r,14), "disk": nums.n(u32le(&r,16), "z.disk"),
                            "cddisk": nums.n(u32le(&r,20), "z.cddisk"), "n_disk": nums.n(u64le(&r,24), "z.n_disk"),
                            "n_total": nums.n(u64le(&r,32), "z.n_total"),
                            "cd_size": nums.n(cd_size, "z.cd_size"), "cd_offset": nums.n(cd_off, "z.cd_offset")}]);
                    }
                }
            }
        }
    }
    // 3. prefix (data prepended to the archive)
    let anchor = if have_z64 { z64_rec_pos } else { p };
    let prefix = match anchor.checked_sub(cd_size).and_then(|x| x.checked_sub(cd_off)) {
        Some(x) => x,
        None => return err("directory size/offset point before the start of the file"),
    };
    // 4. central records
    let mut cd = vec![];
    let mut lf = vec![];
    let mut regions: Vec<(u64, u64, String)> = vec![];
    let mut pos = prefix + cd_off;
    let cd_start = pos;
    if n > 200_000 {
        return err("entry count beyond lexer limit");
    }
    for i in 0..n {
        let h = match src.get(pos, 46) {
            Some(h) => h,
            None => return err("central record runs past the end"),
        };
        if u32le(&h, 0) != SIG_CDH {
            return err("central record signature missing");
        }
        let (nlen, xlen, klen) = (u16le(&h, 28), u16le(&h, 30), u16le(&h, 32));
        let var = match src.get(pos + 46, (nlen + xlen + klen) as usize) {
            Some(v) => v,
            None => return err("central record variable part runs past the end"),
        };
        let name = &var[..nlen as usize];
        let extra = &var[nlen as usize..(nlen + xlen) as usize];
        let fcomment = &var[(nlen + xlen) as usize..];
        let (tlv, junk) = parse_extra(extra);
        let (csize32, usize32, off32) = (u32le(&h, 20), u32le(&h, 24), u32le(&h, 42));
        // ZIP64 record: fields present exactly for sentinel-valued 32-bit fields, fixed order
        let mut z: Vec<u64> = vec![];
        let mut zcount = 0usize; // number of ZIP64 records
        for r in &tlv {
            if r["id"] == 1 {
                zcount += 1;
                if zcount == 1 {
                    z = r["zx"].as_array().unwrap().iter().map(|v| u64::from_str_radix(v.as_str().unwrap(), 16).unwrap()).collect();
                }
            }
        }
        let mut zi = 0usize;
        let mut take = |v32: u64, zi: &mut usize| -> (u64, bool) {
            if v32 == 0xFFFF_FFFF && zcount > 0 {
                if *zi < z.len() {
                    *zi += 1;
                    (z[*zi - 1], true)
                } else {
                    (v32, false)
                }
            } else {
                (v32, true)
            }
        };
        let (usize_, ok1) = take(usize32, &mut zi);
        let (csize, ok2) = take(csize32, &mut zi);
        let (off, ok3) = take(off32, &mut zi);
        // the record may additionally carry the 4-byte disk number; anything else is a mismatch
        let z64_exact = zcount == 0 || (ok1 && ok2 && ok3 && (zi == z.len()));
        let flags = u16le(&h, 8);
        let method = u16le(&h, 10);
        let rec_size = 46 + nlen + xlen + klen;
        let mut c = Map::new();
        for (k, v) in [
            ("pos", pos), ("size", rec_size), ("vmade", u16le(&h, 4)), ("vneed", u16le(&h, 6)),
            ("flags", flags), ("method", method), ("time", u16le(&h, 12)), ("date", u16le(&h, 14)),
            ("csize32", csize32), ("usize32", usize32), ("nlen", nlen), ("xlen", xlen), ("klen", klen),
            ("disk", u16le(&h, 34)), ("iattr", u16le(&h, 36)), ("eattr_hi", u32le(&h, 38) >> 16),
            ("eattr_lo", u32le(&h, 38) & 0xffff), ("off32", off32),
            ("usize", usize_), ("csize", csize), ("off", off), ("xjunk", junk as u64), ("zcount", zcount as u64),
        ] {
            let v = if k.ends_with("32") { nums.f32(v, k) } else { nums.n(v, k) };
            c.insert(k.into(), json!(v));
        }
        c.insert("crc".into(), json!(hex32(u32le(&h, 16) as u32)));
        c.insert("name".into(), abs_name(name));
        if name.len() <= 512 {
            c.insert("rawhex".into(), json!(hexs(name)));
        }
        if fcomment.len() <= 512 {
            c.insert("fchex".into(), json!(hexs(fcomment)));
        }
        // the name as a reader must present it (decoded by the flagged encoding), as UTF-8 bytes
        c.insert("dname".into(), abs_name(&crate::cp437::decode_name(name, flags & 0x800 != 0)));
        c.insert("fcomment".into(), abs_name(fcomment));
        c.insert("dfcomment".into(), abs_name(&crate::cp437::decode_name(fcomment, flags & 0x800 != 0)));
        // WinZip AES record (0x9901): version, vendor "AE", strength, real method
        let mut aes = vec![];
        {
            let mut o = 0usize;
            while extra.len() - o >= 4 {
                let id = u16le(extra, o);
                let ln = u16le(extra, o + 2) as usize;
                if o + 4 + ln > extra.len() {
                    break;
                }
                if id == 0x9901 && ln == 7 {
                    let b = &extra[o + 4..o + 11];
                    aes.push(json!({"ver": u16le(b, 0), "vendor_ok": &b[2..4] == b"AE", "strength": b[4], "inner": u16le(b, 5)}));
                }
                o += 4 + ln;
            }
        }
        c.insert("aes".into(), json!(aes));
        c.insert("extra".into(), json!(tlv));
        c.insert("z64_exact".into(), json!(z64_exact));
        cd.push(Value::Object(c));
        regions.push((pos, pos + rec_size, format!("cd{}", i + 1)));

        // 5. local header this record points at
        let lpos = prefix.checked_add(off);
        let lh = lpos.and_then(|lp| src.get(lp, 30));
        let mut l = Map::new();
        match (lpos, lh) {
            (Some(lp), Some(lh)) if u32le(&lh, 0) == SIG_LFH => {
                let (lnlen, lxlen) = (u16le(&lh, 26), u16le(&lh, 28));
                let lvar = src.get(lp + 30, (lnlen + lxlen) as usize);
                match lvar {
                    None => {
                        l.insert("ok".into(), json!(false));
                        l.insert("why".into(), json!("local header variable part runs past the end"));
                    }
                    Some(lvar) => {
                        let lname = &lvar[..lnlen as usize];
                        let lextra = &lvar[lnlen as usize..];
                        let (ltlv, ljunk) = parse_extra(lextra);
                        let (lcs32, lus32) = (u32le(&lh, 18), u32le(&lh, 22));
                        let mut lz: Vec<u64> = vec![];
                        let mut lzc = 0;
                        for r in &ltlv {
                            if r["id"] == 1 {
                                lzc += 1;
                                if lzc == 1 {
                                    lz = r["zx"].as_array().unwrap().iter().map(|v| u64::from_str_radix(v.as_str().unwrap(), 16).unwrap()).collect();
                                }
                            }
                        }
                        // local ZIP64 record: MUST hold both sizes when present and used
                        let (lus, lcs, lz_ok) = if lzc > 0 && (lus32 == 0xFFFF_FFFF || lcs32 == 0xFFFF_FFFF) {
                            if lz.len() >= 2 {
                                (lz[0], lz[1], lus32 == 0xFFFF_FFFF && lcs32 == 0xFFFF_FFFF)
                            } else {
                                (lus32, lcs32, false)
                            }
                        } else {
                            (lus32, lcs32, true)
                        };
                        let dstart = lp + 30 + lnlen + lxlen;
                        let lflags = u16le(&lh, 6);
                        for (k, v) in [
                            ("pos", lp), ("vneed", u16le(&lh, 4)), ("flags", lflags), ("method", u16le(&lh, 8)),
                            ("time", u16le(&lh, 10)), ("date", u16le(&lh, 12)), ("csize32", lcs32),
                            ("usize32", lus32), ("nlen", lnlen), ("xlen", lxlen), ("usize", lus), ("csize", lcs),
                            ("dstart", dstart), ("xjunk", ljunk as u64), ("zcount", lzc as u64),
                        ] {
                            let v = if k.ends_with("32") { nums.f32(v, k) } else { nums.n(v, k) };
                            l.insert(k.into(), json!(v));
                        }
                        l.insert("ok".into(), json!(true));
                        l.insert("crc".into(), json!(hex32(u32le(&lh, 14) as u32)));
                        l.insert("name".into(), abs_name(lname));
                        l.insert("extra".into(), json!(ltlv));
                        l.insert("z64_ok".into(), json!(lz_ok));
                        // data region = central compressed size
                        let dend = dstart.checked_add(csize);
                        let in_range = dend.map_or(false, |e| e <= flen);
                        l.insert("data_in_range".into(), json!(in_range));
                        let mut ddlen = 0u64;
                        let mut dd = json!([]);
                        if in_range {
                            let dend = dend.unwrap();
                            if csize <= opts.decode_limit || !opts.pair {
                                l.insert("rawcrc".into(), json!(hex32(src.crc_range(dstart, csize).unwrap())));
                            } else {
                                l.insert("rawcrc".into(), json!("--------"));
                            }
                            // data descriptor (flag bit 3): find the shape that matches the central values
                            if lflags & 8 != 0 {
                                let ccrc = u32le(&h, 16);
                                for (sig, wide) in [(true, false), (false, false), (true, true), (false, true)] {
                                    let need = (if sig { 4 } else { 0 }) + 4 + if wide { 16 } else { 8 };
                                    if let Some(d) = src.get(dend, need) {
                                        let mut o = 0;
                                        if sig {
                                            if u32le(&d, 0) != SIG_DD {
                                                continue;
                                            }
                                            o = 4;
                                        }
                                        let dcrc = u32le(&d, o);
                                        let (dcs, dus) = if wide {
                                            (u64le(&d, o + 4), u64le(&d, o + 12))
                                        } else {
                                            (u32le(&d, o + 4), u32le(&d, o + 8))
                                        };
                                        if dcrc == ccrc && dcs == csize && dus == usize_ {
                                            ddlen = need as u64;
                                            dd = json!([{"sig": sig, "wide": wide, "len": need}]);
                                            break;
                                        }
                                    }
                                }
                            }
                            // 6. independent decode
                            let enc = flags & 1 != 0;
                            let mut dec = json!({"tried": false, "ok": false, "len": 0, "crc": "00000000"});
                            if csize <= opts.decode_limit {
                                let raw = src.get(dstart, csize as usize).unwrap();
                                let mut cands: Vec<Vec<u8>> = vec![];
                                if !enc {
                                    cands.push(raw);
                                } else if method != 99 && raw.len() >= 12 {
                                    for pw in &opts.passwords_any {
                                        cands.push(zipcrypto_decrypt(pw, &raw)[12..].to_vec());
                                    }
                                }
                                if matches!(method, 0 | 8 | 12 | 93) {
                                    for plain in cands {
                                        let (ok, dl, dc) = decode(method, &plain);
                                        dec = json!({"tried": true, "ok": ok, "len": dl.min(S32), "crc": hex32(dc)});
                                        if ok && dc as u64 == u32le(&h, 16) {
                                            break;
                                        }
                                    }
                                }
                            }
                            l.insert("dec".into(), dec);
                            regions.push((lp, dend + ddlen, format!("lf{}", i + 1)));
                        } else {
                            l.insert("rawcrc".into(), json!("00000000"));
                            l.insert("dec".into(), json!({"tried": false, "ok": false, "len": 0, "crc": "00000000"}));
                        }
                        l.insert("dd".into(), dd);
                        l.insert("ddlen".into(), json!(ddlen));
                    }
                }
            }
            _ => {
                l.insert("ok".into(), json!(false));
                l.insert("why".into(), json!("no local header signature at the recorded offset"));
            }
        }
        lf.push(Value::Object(l));
        pos += rec_size;
    }
    let cd_end = pos;
    // trailer regions
    if have_z64 {
        regions.push((z64_rec_pos, z64_rec_pos + 56, "z64rec".into()));
        regions.push((p - 20, p, "z64loc".into()));
    }
    regions.push((p, p + 22 + clen, "eocd".into()));
    // 7. coverage: gaps and overlaps over [prefix, flen - trailing)
    regions.sort();
    let mut gaps = vec![];
    let mut overlaps = vec![];
    let mut cur = prefix;
    for (s, e, k) in &regions {
        if *s > cur {
            gaps.push(json!({"from": nums.n(cur, "gap"), "to": nums.n(*s, "gap"), "before": k}));
        } else if *s < cur {
            overlaps.push(json!({"at": nums.n(*s, "ovl"), "upto": nums.n(cur.min(*e), "ovl"), "with": k}));
        }
        if *e > cur {
            cur = *e;
        }
    }
    let _ = tail_start;
    json!({"ok": true, "len": nums.n(flen, "len"), "prefix": nums.n(prefix, "prefix"), "eocd": eocd, "z64": z64,
        "n": nums.n(n, "n"), "cd_start": nums.n(cd_start, "cd_start"), "cd_end": nums.n(cd_end, "cd_end"),
        "cd": cd, "lf": lf, "gaps": gaps, "overlaps": overlaps, "big": nums.big.clone(),
        "digest": if opts.pair { "-".to_string() } else { hid(&src.get(0, flen.min(1 << 30) as usize).unwrap_or_default()) }})
}
