//! Executor for entry-read scenarios (C04, C09, C15, C16, C10-part): reads entries of given bytes
//! through the seekable or the streaming reader under a prescribed schedule of caller buffer sizes
//! and underlying short reads, logging one event per read() call.
use crate::lexer::{lex, LexOpts, Mem};
use crate::rexec::err_class;
use crate::util::*;
use serde_json::{json, Map, Value};
use std::io::{Cursor, Read, Seek, SeekFrom};
use std::panic::{catch_unwind, AssertUnwindSafe};
use zip::ZipArchive;

/// underlying reader that splits reads: at most `max` bytes per read (0 = unlimited), one short read
/// at cumulative byte `at`, or a cyclic list of limits
/// I/O operations issued on all Chunked readers of this process (a driver reads the delta around one call)
pub static TOTAL_OPS: std::sync::atomic::AtomicU64 = std::sync::atomic::AtomicU64::new(0);
pub struct Chunked<'a> {
    pub cur: Cursor<&'a [u8]>,
    pub max: usize,
    pub at: Option<u64>,
    pub list: Vec<usize>,
    pub nread: u64,
    pub total: u64,
    pub short_hits: u64,
    pub armed: bool,
    /// fail the k-th I/O operation (read or seek) with a hard error
    pub fault_at: Option<u64>,
    pub ops: u64,
    pub faulted: Option<(u64, &'static str)>,
}
impl<'a> Chunked<'a> {
    pub fn new(b: &'a [u8], plan: &Value) -> Chunked<'a> {
        Chunked {
            cur: Cursor::new(b),
            max: plan.get("max").and_then(|x| x.as_u64()).unwrap_or(0) as usize,
            at: plan.get("at").and_then(|x| x.as_u64()),
            list: plan.get("list").and_then(|x| x.as_array()).map(|a| a.iter().map(|v| v.as_u64().unwrap_or(1) as usize).collect()).unwrap_or_default(),
            nread: 0,
            total: 0,
            short_hits: 0,
            armed: true,
            fault_at: plan.get("fault_at").and_then(|x| x.as_u64()),
            ops: 0,
            faulted: None,
        }
    }
}
impl<'a> Read for Chunked<'a> {
    fn read(&mut self, buf: &mut [u8]) -> std::io::Result<usize> {
        let k = self.ops;
        self.ops += 1;
        TOTAL_OPS.fetch_add(1, std::sync::atomic::Ordering::Relaxed);
        if self.fault_at == Some(k) {
            self.faulted = Some((k, "read"));
            return Err(std::io::Error::new(std::io::ErrorKind::Other, "injected fault"));
        }
        let mut want = buf.len();
        if self.armed {
            if self.max > 0 {
                want = want.min(self.max);
            }
            if !self.list.is_empty() {
                want = want.min(self.list[(self.nread as usize) % self.list.len()].max(1));
            }
            if let Some(j) = self.at {
                if self.total < j && self.total + want as u64 > j {
                    want = (j - self.total) as usize;
                }
            }
            if want < buf.len() {
                self.short_hits += 1;
            }
        }
        self.nread += 1;
        let n = self.cur.read(&mut buf[..want])?;
        self.total += n as u64;
        Ok(n)
    }
    /// a REAL vectored read (like BufReader's): one short-read decision for the whole call, the bytes spread over as many of the
    /// buffers as they reach - a caller that assumes "a short vectored read only touches the first buffer" is wrong about such readers
    fn read_vectored(&mut self, bufs: &mut [std::io::IoSliceMut<'_>]) -> std::io::Result<usize> {
        let total: usize = bufs.iter().map(|b| b.len()).sum();
        let mut tmp = vec![0u8; total];
        let n = self.read(&mut tmp)?;
        let mut off = 0;
        for b in bufs.iter_mut() {
            if off >= n {
                break;
            }
            let k = b.len().min(n - off);
            b[..k].copy_from_slice(&tmp[off..off + k]);
            off += k;
        }
        Ok(n)
    }
}
impl<'a> Seek for Chunked<'a> {
    fn seek(&mut self, p: SeekFrom) -> std::io::Result<u64> {
        let k = self.ops;
        self.ops += 1;
        TOTAL_OPS.fetch_add(1, std::sync::atomic::Ordering::Relaxed);
        if self.fault_at == Some(k) {
            self.faulted = Some((k, "seek"));
            return Err(std::io::Error::new(std::io::ErrorKind::Other, "injected fault"));
        }
        self.cur.seek(p)
    }
}

fn kind_of(c: &Value) -> &'static str {
    let enc = c["flags"].as_u64().unwrap_or(0) & 1 != 0;
    if let Some(a) = c["aes"].as_array().and_then(|a| a.first()) {
        if a["ver"].as_u64() == Some(2) {
            return "ae2";
        }
        return "ae1";
    }
    if enc {
        "zc"
    } else {
        "plain"
    }
}

/// drive one open entry with the caller schedule; push ERead events and the final EEnd
fn drive(f: &mut dyn Read, bufs: &[usize], log_reads: bool, push: &mut dyn FnMut(Map<String, Value>)) {
    let mut total = 0u64;
    let mut crc = Crc::new();
    let mut i = 0usize;
    let mut zeros_after_eof = 0;
    let mut nev = 0usize;
    let mut eof = false;
    let mut failed = false;
    let mut buf = vec![0u8; 1 << 16];
    loop {
        let n = if bufs.is_empty() { 4096 } else { bufs[i % bufs.len()] };
        i += 1;
        if n > buf.len() {
            buf.resize(n, 0);
        }
        let r = f.read(&mut buf[..n]);
        let mut m = Map::new();
        m.insert("ev".into(), json!("ERead"));
        m.insert("n".into(), json!(n));
        match r {
            Ok(k) => {
                m.insert("k".into(), json!(k));
                m.insert("r".into(), json!("ok"));
                total += k as u64;
                crc.update(&buf[..k]);
                if k == 0 && n > 0 {
                    eof = true;
                    zeros_after_eof += 1;
                }
            }
            Err(e) => {
                m.insert("k".into(), json!(0));
                m.insert("r".into(), json!("err"));
                m.insert("msg".into(), json!(e.to_string()));
                failed = true;
            }
        }
        // keep traces small: only the first reads of a long entry are logged individually, the
        // rest is summarised (the final state is still checked)
        if log_reads {
            push(m);
            nev += 1;
        }
        if failed || zeros_after_eof >= 3 || i > 2_000_000 {
            break;
        }
    }
    let mut m = Map::new();
    m.insert("ev".into(), json!("EEnd"));
    m.insert("total".into(), json!(total.min(2147483647)));
    m.insert("crc".into(), json!(hex32(crc.finish())));
    m.insert("eof".into(), json!(eof));
    m.insert("failed".into(), json!(failed));
    m.insert("summarised".into(), json!(!log_reads));
    let _ = nev;
    push(m);
}

/// the other ways std offers to read "to end-of-file": they must be covered by the integrity check as well
fn drive_api(f: &mut dyn Read, api: &str, size: usize, push: &mut dyn FnMut(Map<String, Value>)) {
    let mut v: Vec<u8> = if api == "read_to_end" { Vec::with_capacity(size) } else { Vec::new() };
    let r: std::io::Result<()> = match api {
        // a few bytes through read() first (a caller sniffing a magic number), the REST through a std convenience, and once more at
        // end-of-file: an implementation that specialises the convenience must agree with plain read() about what remains
        "sniff_read_to_end" | "sniff_copy" | "sniff_read_exact" => {
            let mut head = [0u8; 5];
            let mut got = 0usize;
            let mut res = Ok(());
            while got < head.len().min(size) {
                match f.read(&mut head[got..]) {
                    Ok(0) => break,
                    Ok(n) => got += n,
                    Err(e) => {
                        res = Err(e);
                        break;
                    }
                }
            }
            v.extend_from_slice(&head[..got]);
            if res.is_ok() {
                res = match api {
                    "sniff_read_to_end" => f.read_to_end(&mut v).map(|_| ()),
                    "sniff_copy" => std::io::copy(f, &mut v).map(|_| ()),
                    _ => {
                        let mut rest = vec![0u8; size.saturating_sub(got)];
                        let r = f.read_exact(&mut rest);
                        v.extend_from_slice(&rest);
                        r
                    }
                };
            }
            if res.is_ok() {
                // at end-of-file both ways of asking return nothing
                let mut again = vec![];
                res = f.read_to_end(&mut again).map(|_| ());
                v.extend(again);
            }
            res
        }
        // vectored reads into three buffers of different sizes
        "read_vectored" => {
            let mut res = Ok(());
            loop {
                let (mut a, mut b, mut c) = ([0u8; 3], [0u8; 17], [0u8; 64]);
                let n = {
                    let mut bufs = [std::io::IoSliceMut::new(&mut a), std::io::IoSliceMut::new(&mut b), std::io::IoSliceMut::new(&mut c)];
                    f.read_vectored(&mut bufs)
                };
                match n {
                    Ok(0) => break,
                    Ok(n) => {
                        let mut all = vec![];
                        all.extend_from_slice(&a);
                        all.extend_from_slice(&b);
                        all.extend_from_slice(&c);
                        v.extend_from_slice(&all[..n.min(all.len())]);
                    }
                    Err(e) => {
                        res = Err(e);
                        break;
                    }
                }
            }
            res
        }
        "read_to_end" | "read_to_end0" => f.read_to_end(&mut v).map(|_| ()),
        "read_to_string" => {
            let mut s = String::new();
            let r = f.read_to_string(&mut s);
            v = s.into_bytes();
            r.map(|_| ())
        }
        "copy" => std::io::copy(f, &mut v).map(|_| ()),
        "bytes" => {
            let mut res = Ok(());
            for b in f.bytes() {
                match b {
                    Ok(x) => v.push(x),
                    Err(e) => {
                        res = Err(e);
                        break;
                    }
                }
            }
            res
        }
        _ => {
            // read_exact of the declared size, then the read that must observe end-of-file
            v = vec![0u8; size];
            match f.read_exact(&mut v) {
                Ok(()) => {
                    let mut one = [0u8; 1];
                    match f.read(&mut one) {
                        Ok(0) => Ok(()),
                        Ok(_) => {
                            v.push(one[0]);
                            let mut rest = vec![];
                            let r = f.read_to_end(&mut rest).map(|_| ());
                            v.extend(rest);
                            r
                        }
                        Err(e) => Err(e),
                    }
                }
                Err(e) => {
                    v.clear();
                    Err(e)
                }
            }
        }
    };
    let mut m = Map::new();
    m.insert("ev".into(), json!("EEnd"));
    m.insert("total".into(), json!((v.len() as u64).min(2147483647)));
    m.insert("crc".into(), json!(hex32(crc32(&v))));
    m.insert("eof".into(), json!(r.is_ok()));
    m.insert("failed".into(), json!(r.is_err()));
    m.insert("summarised".into(), json!(true));
    m.insert("api".into(), json!(api));
    push(m);
}

pub fn run(sc: &Value) -> Vec<Value> {
    let id = sc["sc"].as_str().unwrap_or("?").to_string();
    let mut out: Vec<Value> = vec![];
    let mut push = |mut m: Map<String, Value>| {
        m.insert("sc".into(), json!(id));
        out.push(Value::Object(m));
    };
    let bytes = unhex(sc["hex"].as_str().unwrap_or(""));
    let mut m = Map::new();
    m.insert("ev".into(), json!("Reset"));
    push(m);
    let lopts = LexOpts { allow_trailing: true, ..Default::default() };
    let l = catch_unwind(AssertUnwindSafe(|| lex(&Mem(&bytes), &lopts))).unwrap_or_else(|_| json!({"ok": false}));
    let lcd = l.get("cd").and_then(|x| x.as_array()).cloned().unwrap_or_default();
    let llf = l.get("lf").and_then(|x| x.as_array()).cloned().unwrap_or_default();
    let dmg = sc.get("dmg").and_then(|x| x.as_str()).unwrap_or("none").to_string();
    let max_events = sc.get("max_events").and_then(|x| x.as_u64()).unwrap_or(300) as usize;
    for q in sc["reads"].as_array().cloned().unwrap_or_default() {
        let i = q["i"].as_u64().unwrap_or(0) as usize;
        let via = q["via"].as_str().unwrap_or("seek").to_string();
        let pwk = q.get("pwkind").and_then(|x| x.as_str()).unwrap_or("none").to_string();
        let pw = q.get("pw").and_then(|x| x.as_str()).map(unhex);
        let api = q.get("api").and_then(|x| x.as_str()).unwrap_or("read").to_string();
        let bufs: Vec<usize> = q["bufs"].as_array().map(|a| a.iter().map(|v| v.as_u64().unwrap_or(1) as usize).collect()).unwrap_or_default();
        let under = q.get("under").cloned().unwrap_or(json!({}));
        let mut m = Map::new();
        m.insert("ev".into(), json!("EOpen"));
        m.insert("i".into(), json!(i + 1));
        m.insert("via".into(), json!(via));
        m.insert("pwkind".into(), json!(pwk));
        let dmg = q.get("dmg").and_then(|x| x.as_str()).map(|s| s.to_string()).unwrap_or(dmg.clone());
        m.insert("dmg".into(), json!(dmg));
        m.insert("bufs".into(), json!(bufs.iter().take(8).collect::<Vec<_>>()));
        m.insert("under".into(), under.clone());
        if let Some(e) = q.get("exp") {
            m.insert("exp".into(), e.clone());
        } else {
            m.insert("exp".into(), json!({"len": -1, "crc": ""}));
        }
        let c = lcd.get(i).cloned().unwrap_or(json!({}));
        let lf = llf.get(i).cloned().unwrap_or(json!({}));
        // individual reads are logged when the entry needs few of them; long entries are summarised
        let minbuf = bufs.iter().filter(|&&b| b > 0).min().cloned().unwrap_or(4096);
        let umax = under.get("max").and_then(|x| x.as_u64()).unwrap_or(0) as usize;
        let ulist = under.get("list").and_then(|x| x.as_array()).map(|a| a.iter().map(|v| v.as_u64().unwrap_or(1) as usize).min().unwrap_or(1)).unwrap_or(0);
        let step = [minbuf, if umax > 0 { umax } else { usize::MAX }, if ulist > 0 { ulist } else { usize::MAX }].iter().min().cloned().unwrap_or(1).max(1);
        let est = c.get("usize").and_then(|x| x.as_u64()).unwrap_or(1 << 30) as usize / step + bufs.len() + 8;
        let log_reads = est <= max_events;
        m.insert("logged".into(), json!(log_reads));
        m.insert("lexed".into(), json!(l["ok"] == json!(true) && !c.is_null() && c.get("flags").is_some()));
        if c.get("flags").is_some() {
            m.insert("kind".into(), json!(kind_of(&c)));
            m.insert("lmethod".into(), c["method"].clone());
            m.insert("ldd".into(), json!(c["flags"].as_u64().unwrap_or(0) & 8 != 0));
            m.insert("ccrc".into(), c["crc"].clone());
            m.insert("lcrc".into(), lf.get("crc").cloned().unwrap_or(json!("")));
            m.insert("lusize".into(), c["usize"].clone());
            m.insert("lcsize".into(), c["csize"].clone());
        } else {
            m.insert("kind".into(), json!("plain"));
            m.insert("lmethod".into(), json!(-1));
            m.insert("ldd".into(), json!(false));
        }
        let res = catch_unwind(AssertUnwindSafe(|| {
            let mut evs: Vec<Map<String, Value>> = vec![];
            let mut open = Map::new();
            if via == "seek" {
                {
                    {
                        // (the archive is opened through the same short-reading source: metadata must
                        //  not depend on read fragmentation either)
                        let rd2 = Chunked::new(&bytes, &under);
                        match ZipArchive::new(rd2) {
                            Err(e) => {
                                open.insert("r".into(), json!(err_class(&e)));
                            }
                            Ok(mut ar) => {
                                let fr = match &pw {
                                    Some(p) => ar.by_index_decrypt(i, p),
                                    None => ar.by_index(i).map(Ok),
                                };
                                match fr {
                                    Err(e) => {
                                        open.insert("r".into(), json!(err_class(&e)));
                                    }
                                    Ok(Err(_)) => {
                                        open.insert("r".into(), json!("invalid_password"));
                                    }
                                    Ok(Ok(mut f)) => {
                                        open.insert("r".into(), json!("ok"));
                                        open.insert("declared".into(), json!(hex32(f.crc32())));
                                        open.insert("usize".into(), json!(f.size().min(2147483647)));
                                        open.insert("method".into(), json!(crate::wexec::code_of(f.compression())));
                                        if api == "read" {
                                            drive(&mut f, &bufs, log_reads, &mut |m| evs.push(m));
                                        } else {
                                            let sz = f.size().min(1 << 26) as usize;
                                            drive_api(&mut f, &api, sz, &mut |m| evs.push(m));
                                        }
                                    }
                                }
                            }
                        }
                    }
                }
            } else {
                // streaming: walk entries front to back; entries before i are skipped unread
                let mut rd = Chunked::new(&bytes, &under);
                let mut k = 0usize;
                loop {
                    match zip::read::read_zipfile_from_stream(&mut rd) {
                        Err(e) => {
                            open.insert("r".into(), json!(err_class(&e)));
                            break;
                        }
                        Ok(None) => {
                            open.insert("r".into(), json!("notfound"));
                            break;
                        }
                        Ok(Some(mut f)) => {
                            if k == i {
                                open.insert("r".into(), json!("ok"));
                                open.insert("declared".into(), json!(hex32(f.crc32())));
                                open.insert("usize".into(), json!(f.size().min(2147483647)));
                                open.insert("method".into(), json!(crate::wexec::code_of(f.compression())));
                                open.insert("sname".into(), abs_name(f.name().as_bytes()));
                                if api == "read" {
                                            drive(&mut f, &bufs, log_reads, &mut |m| evs.push(m));
                                        } else {
                                            let sz = f.size().min(1 << 26) as usize;
                                            drive_api(&mut f, &api, sz, &mut |m| evs.push(m));
                                        }
                                break;
                            }
                            k += 1;
                        }
                    }
                }
            }
            (open, evs)
        }));
        match res {
            Ok((open, evs)) => {
                for (k, v) in open {
                    m.insert(k, v);
                }
                push(m);
                for e in evs {
                    push(e);
                }
            }
            Err(p) => {
                m.insert("r".into(), json!("panic"));
                m.insert("msg".into(), json!(panic_msg(&p)));
                push(m);
            }
        }
    }
    out
}

pub fn main_eexec(args: &[String]) -> i32 {
    use std::io::Write;
    let inp = std::fs::read_to_string(&args[0]).expect("read scenarios");
    let mut out = std::io::BufWriter::new(std::fs::File::create(&args[1]).expect("create trace"));
    std::panic::set_hook(Box::new(|_| {}));
    let mut n = 0;
    for line in inp.lines() {
        if line.trim().is_empty() {
            continue;
        }
        let sc: Value = serde_json::from_str(line).expect("scenario json");
        for e in run(&sc) {
            writeln!(out, "{}", e).unwrap();
        }
        n += 1;
    }
    eprintln!("eexec: {} scenarios", n);
    0
}
