//! Small independent helpers: CRC-32 (own table), FNV-1a hash, deterministic PRNG,
//! payload / name generators driven by JSON descriptions, abstraction helpers (DESIGN §4).
use serde_json::{json, Value};

pub fn crc_table() -> &'static [u32; 256] {
    static mut T: [u32; 256] = [0; 256];
    static INIT: std::sync::Once = std::sync::Once::new();
    INIT.call_once(|| {
        for i in 0..256u32 {
            let mut c = i;
            for _ in 0..8 {
                c = if c & 1 != 0 { 0xEDB8_8320 ^ (c >> 1) } else { c >> 1 };
            }
            unsafe { T[i as usize] = c };
        }
    });
    unsafe { &*std::ptr::addr_of!(T) }
}

#[derive(Clone, Copy)]
pub struct Crc(pub u32);
impl Crc {
    pub fn new() -> Crc {
        Crc(0xFFFF_FFFF)
    }
    pub fn update(&mut self, data: &[u8]) {
        let t = crc_table();
        let mut c = self.0;
        for &b in data {
            c = t[((c ^ b as u32) & 0xff) as usize] ^ (c >> 8);
        }
        self.0 = c;
    }
    /// feed `n` zero bytes (for sparse regions)
    pub fn update_zeros(&mut self, n: u64) {
        let t = crc_table();
        let mut c = self.0;
        for _ in 0..n {
            c = t[(c & 0xff) as usize] ^ (c >> 8);
        }
        self.0 = c;
    }
    pub fn finish(&self) -> u32 {
        self.0 ^ 0xFFFF_FFFF
    }
}
pub fn crc32(data: &[u8]) -> u32 {
    let mut c = Crc::new();
    c.update(data);
    c.finish()
}
pub fn hex32(v: u32) -> String {
    format!("{:08x}", v)
}
pub fn fnv64(data: &[u8]) -> u64 {
    let mut h: u64 = 0xcbf29ce484222325;
    for &b in data {
        h ^= b as u64;
        h = h.wrapping_mul(0x100000001b3);
    }
    h
}
pub fn hid(data: &[u8]) -> String {
    format!("{:016x}", fnv64(data))
}

/// xorshift64* PRNG, deterministic from a seed
pub struct Rng(pub u64);
impl Rng {
    pub fn new(seed: u64) -> Rng {
        Rng(seed.wrapping_mul(0x9E3779B97F4A7C15) | 1)
    }
    pub fn next(&mut self) -> u64 {
        let mut x = self.0;
        x ^= x >> 12;
        x ^= x << 25;
        x ^= x >> 27;
        self.0 = x;
        x.wrapping_mul(0x2545F4914F6CDD1D)
    }
    pub fn below(&mut self, n: u64) -> u64 {
        if n == 0 {
            0
        } else {
            self.next() % n
        }
    }
}

/// Bytes from a JSON description:
///   {"len":N,"seed":S,"kind":"zero"|"rand"|"text"|"ramp"}  |  {"hex":"..."}  |  {"s":"literal"}
///   | {"rep":"ab","n":N,"suffix":"/"} (repeat the pattern up to exactly N bytes incl. suffix)
pub fn bytes_of(v: &Value) -> Vec<u8> {
    if let Some(s) = v.as_str() {
        return s.as_bytes().to_vec();
    }
    if let Some(h) = v.get("hex").and_then(|x| x.as_str()) {
        return unhex(h);
    }
    if let Some(s) = v.get("s").and_then(|x| x.as_str()) {
        return s.as_bytes().to_vec();
    }
    if let Some(p) = v.get("rep").and_then(|x| x.as_str()) {
        let n = v["n"].as_u64().unwrap_or(0) as usize;
        let suffix = v.get("suffix").and_then(|x| x.as_str()).unwrap_or("").as_bytes();
        let prefix = v.get("prefix").and_then(|x| x.as_str()).unwrap_or("").as_bytes();
        let mut out = Vec::with_capacity(n);
        out.extend_from_slice(prefix);
        let pb = p.as_bytes();
        // repeat whole pattern units only (keeps UTF-8 validity), pad with 'x'
        while !pb.is_empty() && out.len() + pb.len() + suffix.len() <= n {
            out.extend_from_slice(pb);
        }
        while out.len() + suffix.len() < n {
            out.push(b'x');
        }
        out.extend_from_slice(suffix);
        return out;
    }
    let n = v.get("len").and_then(|x| x.as_u64()).unwrap_or(0) as usize;
    let seed = v.get("seed").and_then(|x| x.as_u64()).unwrap_or(1);
    let kind = v.get("kind").and_then(|x| x.as_str()).unwrap_or("rand");
    let mut out = vec![0u8; n];
    match kind {
        "zero" => {}
        "ramp" => {
            for (i, b) in out.iter_mut().enumerate() {
                *b = (i as u64 + seed) as u8;
            }
        }
        "text" => {
            let words = [
                "zip ", "archive ", "entry ", "header ", "central ", "local ", "the ", "of ", "data\n",
            ];
            let mut r = Rng::new(seed);
            let mut i = 0;
            while i < n {
                let w = words[r.below(words.len() as u64) as usize].as_bytes();
                for &c in w {
                    if i < n {
                        out[i] = c;
                        i += 1;
                    }
                }
            }
        }
        _ => {
            let mut r = Rng::new(seed);
            let mut i = 0;
            while i < n {
                let x = r.next().to_le_bytes();
                for &c in x.iter() {
                    if i < n {
                        out[i] = c;
                        i += 1;
                    }
                }
            }
            // never embed a ZIP record signature by accident: break every "PK" pair
            for i in 1..n {
                if out[i - 1] == b'P' && out[i] == b'K' {
                    out[i] = b'k';
                }
            }
        }
    }
    out
}
pub fn unhex(h: &str) -> Vec<u8> {
    let b = h.as_bytes();
    (0..b.len() / 2)
        .map(|i| u8::from_str_radix(std::str::from_utf8(&b[2 * i..2 * i + 2]).unwrap(), 16).unwrap())
        .collect()
}
pub fn hexs(b: &[u8]) -> String {
    b.iter().map(|x| format!("{:02x}", x)).collect()
}

/// abstraction of a name / comment byte string (DESIGN §4)
pub fn abs_name(b: &[u8]) -> Value {
    let tail = match b.last() {
        Some(b'/') => "/",
        Some(b'\\') => "\\",
        _ => "",
    };
    json!({"id": hid(b), "len": b.len(), "ascii": b.is_ascii(), "tail": tail, "nul": b.contains(&0)})
}
pub fn abs_bytes(b: &[u8]) -> Value {
    json!({"len": b.len(), "crc": hex32(crc32(b))})
}

pub fn panic_msg(e: &Box<dyn std::any::Any + Send>) -> String {
    if let Some(s) = e.downcast_ref::<&str>() {
        s.to_string()
    } else if let Some(s) = e.downcast_ref::<String>() {
        s.clone()
    } else {
        "?".into()
    }
}
