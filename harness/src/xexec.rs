//! C07: ZipArchive::extract and ZipStreamReader::extract into a sandbox.
//! The sandbox <sbx>/ holds the target directory T/, a canary sibling C/ (with a file x) and a
//! scratch sibling S/; everything outside T/ is snapshotted before and after.  The harness only
//! reports (result class, whether anything outside changed, the tree below T); Trace_Extract
//! decides what the tree must be from the entry list.
use crate::rexec::err_class;
use crate::util::*;
use serde_json::{json, Value};
use std::collections::BTreeMap;
use std::fs;
use std::io::Cursor;
use std::os::unix::ffi::OsStrExt;
use std::os::unix::fs::{MetadataExt, PermissionsExt};
use std::panic::{catch_unwind, AssertUnwindSafe};
use std::path::{Path, PathBuf};
use zip::unstable::stream::ZipStreamReader;
use zip::ZipArchive;

/// (path components as byte vectors) -> (kind, perm, len, crc, ino, mtime_ns)
type Snap = BTreeMap<Vec<Vec<u8>>, (String, u32, u64, u32, u64, i128)>;

fn snap_into(root: &Path, rel: &mut Vec<Vec<u8>>, out: &mut Snap) {
    let rd = match fs::read_dir(root) {
        Ok(r) => r,
        Err(_) => return,
    };
    for e in rd.flatten() {
        let name = e.file_name().as_bytes().to_vec();
        let p = e.path();
        let md = match fs::symlink_metadata(&p) {
            Ok(m) => m,
            Err(_) => continue,
        };
        rel.push(name);
        let perm = md.permissions().mode() & 0o7777;
        let mt = md.mtime() as i128 * 1_000_000_000 + md.mtime_nsec() as i128;
        if md.file_type().is_dir() {
            out.insert(rel.clone(), ("dir".into(), perm, 0, 0, md.ino(), mt));
            snap_into(&p, rel, out);
        } else if md.file_type().is_symlink() {
            let t = fs::read_link(&p).map(|x| x.as_os_str().as_bytes().to_vec()).unwrap_or_default();
            out.insert(rel.clone(), ("symlink".into(), perm, t.len() as u64, crc32(&t), md.ino(), mt));
        } else {
            let b = fs::read(&p).unwrap_or_default();
            out.insert(rel.clone(), ("file".into(), perm, b.len() as u64, crc32(&b), md.ino(), mt));
        }
        rel.pop();
    }
}
fn snapshot(root: &Path) -> Snap {
    let mut s = Snap::new();
    snap_into(root, &mut vec![], &mut s);
    s
}

pub fn run(sc: &Value) -> Vec<Value> {
    let id = sc["sc"].as_str().unwrap_or("?").to_string();
    let bytes = unhex(sc["hex"].as_str().unwrap_or(""));
    // base/l1/l2/{T,C,S}: the snapshot covers base, so names climbing up to three levels are seen
    let base = PathBuf::from(sc["sbx"].as_str().expect("sbx"));
    let sbx = base.join("l1").join("l2");
    let tkey: Vec<Vec<u8>> = vec![b"l1".to_vec(), b"l2".to_vec(), b"T".to_vec()];
    let in_t = |k: &Vec<Vec<u8>>| k.len() >= 3 && k[..3] == tkey[..];
    let mut out = vec![json!({"ev": "Reset", "sc": id})];
    for via in sc["via"].as_array().cloned().unwrap_or_default() {
        let via = via.as_str().unwrap_or("seek").to_string();
        let _ = fs::remove_dir_all(&base);
        fs::create_dir_all(sbx.join("T")).expect("mk T");
        fs::create_dir_all(sbx.join("C")).expect("mk C");
        fs::create_dir_all(sbx.join("S")).expect("mk S");
        fs::write(sbx.join("C").join("x"), b"canary").expect("canary");
        fs::write(sbx.join("S").join("probe"), b"").expect("probe");
        fs::create_dir(sbx.join("S").join("probedir")).expect("probedir");
        let deffile = fs::metadata(sbx.join("S").join("probe")).map(|m| m.permissions().mode() & 0o7777).unwrap_or(0);
        let defdir = fs::metadata(sbx.join("S").join("probedir")).map(|m| m.permissions().mode() & 0o7777).unwrap_or(0);
        // an absolute canary outside the sandbox as well (names may point at it)
        let abs_canary = sc.get("abs_canary").and_then(|x| x.as_str()).map(PathBuf::from);
        let before: Snap = snapshot(&base).into_iter().filter(|(k, _)| !in_t(k)).collect();
        let target = sbx.join("T");
        let r = catch_unwind(AssertUnwindSafe(|| {
            if via == "seek" {
                match ZipArchive::new(Cursor::new(&bytes[..])) {
                    Err(e) => format!("openerr:{}", err_class(&e)),
                    Ok(mut ar) => match ar.extract(&target) {
                        Ok(()) => "ok".to_string(),
                        Err(_) => "err".to_string(),
                    },
                }
            } else {
                match ZipStreamReader::new(Cursor::new(&bytes[..])).extract(&target) {
                    Ok(()) => "ok".to_string(),
                    Err(_) => "err".to_string(),
                }
            }
        }));
        let res = r.unwrap_or_else(|_| "panic".to_string());
        let after_all = snapshot(&base);
        let after: Snap = after_all.iter().filter(|(k, _)| !in_t(k)).map(|(k, v)| (k.clone(), v.clone())).collect();
        let mut outside_changed = before != after;
        if let Some(c) = &abs_canary {
            if fs::symlink_metadata(c).is_ok() {
                outside_changed = true;
                let _ = fs::remove_file(c);
                let _ = fs::remove_dir_all(c);
            }
        }
        let tmeta = fs::symlink_metadata(&target);
        let target_is_dir = tmeta.map(|m| m.file_type().is_dir()).unwrap_or(false);
        let mut tree = vec![];
        for (k, v) in after_all.iter() {
            if !in_t(k) || k.len() < 4 {
                continue;
            }
            let p: Vec<Value> = k[3..].iter().map(|c| json!(c)).collect();
            let data = if v.0 == "dir" { json!([0, "-"]) } else { json!([v.2, hex32(v.3)]) };
            tree.push(json!({"p": p, "kind": v.0, "perm": v.1, "data": data}));
        }
        let entries: Vec<Value> = sc["entries"].as_array().cloned().unwrap_or_default();
        out.push(json!({"ev": "XRun", "sc": id, "via": via, "r": res, "outside_changed": outside_changed, "target_is_dir": target_is_dir,
                        "deffile": deffile, "defdir": defdir, "entries": entries, "tree": tree, "ntree": tree.len()}));
        let _ = fs::remove_dir_all(&base);
    }
    out
}

pub fn main_xexec(args: &[String]) -> i32 {
    use std::io::Write;
    let inp = std::fs::read_to_string(&args[0]).expect("read scenarios");
    let mut out = std::io::BufWriter::new(std::fs::File::create(&args[1]).expect("create trace"));
    std::panic::set_hook(Box::new(|_| {}));
    for line in inp.lines() {
        if line.trim().is_empty() {
            continue;
        }
        let sc: Value = serde_json::from_str(line).expect("scenario json");
        for e in run(&sc) {
            writeln!(out, "{}", e).unwrap();
        }
    }
    0
}
