//! Instrumented in-memory Read+Write+Seek object shared between the code under test and the
//! harness (the harness inspects position / bytes after every call).  Supports: one injected
//! hard I/O fault at the k-th operation, short writes / short reads, sparse storage of zero runs.
use std::cell::RefCell;
use std::io::{self, Read, Seek, SeekFrom, Write};
use std::rc::Rc;

#[derive(Clone, Copy, PartialEq, Debug)]
pub enum Short {
    None,
    /// every read/write transfers at most m bytes
    Max(usize),
    /// the operation that would cross cumulative transferred byte j stops at j (single short op)
    At(u64),
}

pub struct SinkState {
    pub data: Vec<u8>,
    pub pos: u64,
    /// number of I/O operations performed so far (read, write, flush, seek)
    pub ops: u64,
    /// fail operation number `fault_at` (0-based) with a hard error
    pub fault_at: Option<u64>,
    pub faulted: Option<(u64, &'static str)>,
    pub short_w: Short,
    pub short_r: Short,
    pub wbytes: u64,
    pub rbytes: u64,
    /// count ops only (and inject) when armed
    pub armed: bool,
    pub short_hits: u64,
}

#[derive(Clone)]
pub struct Shared(pub Rc<RefCell<SinkState>>);

impl Shared {
    pub fn new(data: Vec<u8>) -> Shared {
        Shared(Rc::new(RefCell::new(SinkState {
            data,
            pos: 0,
            ops: 0,
            fault_at: None,
            faulted: None,
            short_w: Short::None,
            short_r: Short::None,
            wbytes: 0,
            rbytes: 0,
            armed: true,
            short_hits: 0,
        })))
    }
    pub fn pos(&self) -> u64 {
        self.0.borrow().pos
    }
    pub fn len(&self) -> u64 {
        self.0.borrow().data.len() as u64
    }
    pub fn snapshot(&self) -> Vec<u8> {
        self.0.borrow().data.clone()
    }
    pub fn ops(&self) -> u64 {
        self.0.borrow().ops
    }
}

fn hard() -> io::Error {
    io::Error::new(io::ErrorKind::Other, "injected fault")
}

impl SinkState {
    fn op(&mut self, kind: &'static str) -> io::Result<()> {
        if !self.armed {
            return Ok(());
        }
        let k = self.ops;
        self.ops += 1;
        if self.fault_at == Some(k) {
            self.faulted = Some((k, kind));
            return Err(hard());
        }
        Ok(())
    }
    fn limit(short: Short, done: u64, want: usize, hits: &mut u64) -> usize {
        match short {
            Short::None => want,
            Short::Max(m) => {
                if want > m.max(1) {
                    *hits += 1;
                }
                want.min(m.max(1))
            }
            Short::At(j) => {
                if done < j && done + want as u64 > j {
                    *hits += 1;
                    (j - done) as usize
                } else {
                    want
                }
            }
        }
    }
}

impl Write for Shared {
    fn write(&mut self, buf: &[u8]) -> io::Result<usize> {
        let mut s = self.0.borrow_mut();
        s.op("write")?;
        if buf.is_empty() {
            return Ok(0);
        }
        let (sw, wb) = (s.short_w, s.wbytes);
        let mut hits = 0;
        let n = SinkState::limit(sw, wb, buf.len(), &mut hits);
        s.short_hits += hits;
        let p = s.pos as usize;
        if s.data.len() < p + n {
            s.data.resize(p + n, 0);
        }
        s.data[p..p + n].copy_from_slice(&buf[..n]);
        s.pos += n as u64;
        s.wbytes += n as u64;
        Ok(n)
    }
    fn flush(&mut self) -> io::Result<()> {
        self.0.borrow_mut().op("flush")
    }
}
impl Read for Shared {
    fn read(&mut self, buf: &mut [u8]) -> io::Result<usize> {
        let mut s = self.0.borrow_mut();
        s.op("read")?;
        let p = (s.pos as usize).min(s.data.len());
        let avail = s.data.len() - p;
        let want = buf.len().min(avail);
        if want == 0 {
            return Ok(0);
        }
        let (sr, rb) = (s.short_r, s.rbytes);
        let mut hits = 0;
        let n = SinkState::limit(sr, rb, want, &mut hits);
        s.short_hits += hits;
        buf[..n].copy_from_slice(&s.data[p..p + n]);
        s.pos += n as u64;
        s.rbytes += n as u64;
        Ok(n)
    }
}
impl Seek for Shared {
    fn seek(&mut self, to: SeekFrom) -> io::Result<u64> {
        let mut s = self.0.borrow_mut();
        s.op("seek")?;
        let np: i128 = match to {
            SeekFrom::Start(p) => p as i128,
            SeekFrom::End(d) => s.data.len() as i128 + d as i128,
            SeekFrom::Current(d) => s.pos as i128 + d as i128,
        };
        if np < 0 {
            return Err(io::Error::new(io::ErrorKind::InvalidInput, "seek before start"));
        }
        s.pos = np as u64;
        Ok(s.pos)
    }
}
