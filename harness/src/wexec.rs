//! Executor for writer programs (family A: C01, C02, C12, C13, C14, C17 ...).
//! Reads one JSON scenario per line, drives the real `ZipWriter` / `ZipArchive`, and logs one
//! ndjson event per public call at the call's return, followed by observation events (lexed
//! layout, reopen, per-entry view).  It never judges: the TLA+ trace specification does.
use crate::lexer::{lex, LexOpts, Mem};
use crate::sink::{Shared, Short};
use crate::util::*;
use serde_json::{json, Map, Value};
use std::io::{Cursor, Read, Write};
use std::mem::ManuallyDrop;
use std::panic::{catch_unwind, AssertUnwindSafe};
use zip::unstable::write::FileOptionsExt;
use zip::write::FileOptions;
use zip::{CompressionMethod, DateTime, ZipArchive, ZipWriter};

#[allow(deprecated)]
pub fn method_of(code: u64) -> CompressionMethod {
    CompressionMethod::from_u16(code as u16)
}
#[allow(deprecated)]
pub fn code_of(m: CompressionMethod) -> u64 {
    m.to_u16() as u64
}

pub fn res_json<T, E: std::fmt::Display>(r: &std::thread::Result<Result<T, E>>) -> (Value, String) {
    match r {
        Ok(Ok(_)) => (json!("ok"), String::new()),
        Ok(Err(e)) => (json!("err"), e.to_string()),
        Err(p) => (json!("panic"), panic_msg(p)),
    }
}

fn opts_of(o: &Value) -> (FileOptions, Value) {
    let mut fo = FileOptions::default();
    let method = o.get("method").and_then(|x| x.as_u64()).unwrap_or(8);
    fo = fo.compression_method(method_of(method));
    let level = o.get("level").and_then(|x| x.as_i64());
    fo = fo.compression_level(level.map(|x| x as i32));
    let large = o.get("large").and_then(|x| x.as_bool()).unwrap_or(false);
    fo = fo.large_file(large);
    let perm = o.get("perm").and_then(|x| x.as_u64());
    if let Some(p) = perm {
        fo = fo.unix_permissions(p as u32);
    }
    let (date, time) = (
        o.get("date").and_then(|x| x.as_u64()).unwrap_or(33),
        o.get("time").and_then(|x| x.as_u64()).unwrap_or(0),
    );
    fo = fo.last_modified_time(DateTime::from_msdos(date as u16, time as u16));
    let mut enc = false;
    if let Some(pw) = o.get("enc") {
        if !pw.is_null() {
            fo = fo.with_deprecated_encryption(&bytes_of(pw));
            enc = true;
        }
    }
    let abs = json!({"method": method, "level": level.unwrap_or(-1000), "large": large,
        "perm": perm.map(|x| x as i64).unwrap_or(-1), "dt": [date, time], "enc": enc});
    (fo, abs)
}

fn name_string(v: &Value) -> String {
    String::from_utf8(bytes_of(v)).expect("generator must produce UTF-8 names")
}

pub struct Exec {
    pub out: Vec<Value>,
    pub sc: String,
    pub dump: Option<String>,
    pub ndump: usize,
}

impl Exec {
    fn ev(&mut self, mut m: Map<String, Value>) {
        m.insert("sc".into(), json!(self.sc));
        self.out.push(Value::Object(m));
    }
}

fn base_event(name: &str, r: &Value, msg: &str, sink: &Shared) -> Map<String, Value> {
    let mut m = Map::new();
    m.insert("ev".into(), json!(name));
    m.insert("r".into(), r.clone());
    if !msg.is_empty() {
        m.insert("msg".into(), json!(msg));
    }
    m.insert("ops".into(), json!(sink.ops()));
    m.insert("pos".into(), json!(sink.pos().min(2147483647)));
    m.insert("len".into(), json!(sink.len().min(2147483647)));
    m
}

/// the reader's view of one entry (used for Entry events and RawCopy sources)
pub fn entry_view(bytes: &[u8], i: usize, pws: &[Vec<u8>], read_content: bool) -> Map<String, Value> {
    let mut m = Map::new();
    m.insert("i".into(), json!(i + 1));
    let mut ar = match ZipArchive::new(Cursor::new(bytes)) {
        Ok(a) => a,
        Err(e) => {
            m.insert("r".into(), json!("err"));
            m.insert("msg".into(), json!(e.to_string()));
            return m;
        }
    };
    // raw bytes first (independent of decoding)
    let mut rawlen = 0u64;
    let mut rawcrc = Crc::new();
    let rr = catch_unwind(AssertUnwindSafe(|| -> Result<(), String> {
        let mut f = ar.by_index_raw(i).map_err(|e| e.to_string())?;
        let mut buf = vec![0u8; 1 << 16];
        loop {
            let n = f.read(&mut buf).map_err(|e| e.to_string())?;
            if n == 0 {
                break;
            }
            rawlen += n as u64;
            rawcrc.update(&buf[..n]);
        }
        Ok(())
    }));
    let (rraw, _) = res_json(&rr);
    m.insert("rraw".into(), rraw);
    m.insert("rawlen".into(), json!(rawlen.min(2147483647)));
    m.insert("rawcrc".into(), json!(hex32(rawcrc.finish())));
    // metadata through by_index_raw (works for every method / encrypted entries)
    let meta = catch_unwind(AssertUnwindSafe(|| -> Result<Map<String, Value>, String> {
        let f = ar.by_index_raw(i).map_err(|e| e.to_string())?;
        let mut e = Map::new();
        e.insert("name".into(), abs_name(f.name().as_bytes()));
        e.insert("rawname".into(), abs_name(f.name_raw()));
        e.insert("fcomment".into(), abs_name(f.comment().as_bytes()));
        e.insert("method".into(), json!(code_of(f.compression())));
        let lm = f.last_modified();
        e.insert("date".into(), json!(lm.datepart()));
        e.insert("time".into(), json!(lm.timepart()));
        e.insert("mode".into(), json!(f.unix_mode().map(|x| x as i64).unwrap_or(-1)));
        e.insert("usize".into(), json!(f.size().min(2147483647)));
        e.insert("csize".into(), json!(f.compressed_size().min(2147483647)));
        e.insert("crc".into(), json!(hex32(f.crc32())));
        e.insert("hdr".into(), json!(f.header_start().min(2147483647)));
        e.insert("dstart".into(), json!(f.data_start().min(2147483647)));
        e.insert("chs".into(), json!(f.central_header_start().min(2147483647)));
        e.insert("is_dir".into(), json!(f.is_dir()));
        let (tlv, junk) = crate::lexer::parse_extra(f.extra_data());
        e.insert("extra".into(), json!(tlv));
        e.insert("xjunk".into(), json!(junk));
        Ok(e)
    }));
    match meta {
        Ok(Ok(e)) => {
            m.insert("r".into(), json!("ok"));
            for (k, v) in e {
                m.insert(k, v);
            }
        }
        Ok(Err(e)) => {
            m.insert("r".into(), json!("err"));
            m.insert("msg".into(), json!(e));
        }
        Err(p) => {
            m.insert("r".into(), json!("panic"));
            m.insert("msg".into(), json!(panic_msg(&p)));
        }
    }
    if read_content {
        // decoded content: plain, or with each known password
        let mut clen = 0u64;
        let mut ccrc = Crc::new();
        let mut how = "plain";
        let rc = catch_unwind(AssertUnwindSafe(|| -> Result<(), String> {
            let mut buf = vec![0u8; 1 << 16];
            let first = ar.by_index(i).map(|_| ());
            match first {
                Ok(()) => {
                    let mut f = ar.by_index(i).map_err(|e| e.to_string())?;
                    // (small entries: every third one is read by a few bytes through read() and the rest through read_to_end(),
                    //  then read_to_end() once more at end-of-file - the conveniences must agree with the read loop)
                    if f.size() < (1 << 20) && i % 3 == 1 {
                        let mut v = vec![];
                        let mut head = [0u8; 4];
                        let k = f.read(&mut head).map_err(|e| e.to_string())?;
                        v.extend_from_slice(&head[..k]);
                        f.read_to_end(&mut v).map_err(|e| e.to_string())?;
                        f.read_to_end(&mut v).map_err(|e| e.to_string())?;
                        clen = v.len() as u64;
                        ccrc.update(&v);
                        return Ok(());
                    }
                    loop {
                        let n = f.read(&mut buf).map_err(|e| e.to_string())?;
                        if n == 0 {
                            break;
                        }
                        clen += n as u64;
                        ccrc.update(&buf[..n]);
                    }
                    Ok(())
                }
                Err(e) => {
                    let es = e.to_string();
                    if !es.contains("Password required") {
                        return Err(es);
                    }
                    how = "password";
                    for pw in pws {
                        if let Ok(Ok(mut f)) = ar.by_index_decrypt(i, pw) {
                            let mut ok = true;
                            let (mut l2, mut c2) = (0u64, Crc::new());
                            loop {
                                match f.read(&mut buf) {
                                    Ok(0) => break,
                                    Ok(n) => {
                                        l2 += n as u64;
                                        c2.update(&buf[..n]);
                                    }
                                    Err(_) => {
                                        ok = false;
                                        break;
                                    }
                                }
                            }
                            if ok {
                                clen = l2;
                                ccrc = c2;
                                return Ok(());
                            }
                        }
                    }
                    Err("no known password decrypts the entry".into())
                }
            }
        }));
        let (rcj, rmsg) = res_json(&rc);
        m.insert("rc".into(), rcj);
        if !rmsg.is_empty() {
            m.insert("rcmsg".into(), json!(rmsg));
        }
        m.insert("how".into(), json!(how));
        m.insert("content".into(), json!({"len": clen.min(2147483647), "crc": hex32(ccrc.finish())}));
    }
    m
}

/// observation events after a finished archive: Layout, Open, Entry*
pub fn observe(ex: &mut Exec, bytes: &[u8], pws: &[Vec<u8>], max_entries: usize) {
    if let Some(d) = ex.dump.clone() {
        if bytes.len() <= (4 << 20) {
            let p = format!("{}/{}-{}.zip", d, ex.sc, ex.ndump);
            let _ = std::fs::write(&p, bytes);
            let mut m = Map::new();
            m.insert("ev".into(), json!("Dumped"));
            m.insert("path".into(), json!(p));
            m.insert("pws".into(), json!(pws.iter().map(|p| hexs(p)).collect::<Vec<_>>()));
            ex.ev(m);
        }
        ex.ndump += 1;
    }
    let lopts = LexOpts { passwords_any: pws.to_vec(), ..Default::default() };
    let l = catch_unwind(AssertUnwindSafe(|| lex(&Mem(bytes), &lopts)));
    let mut m = Map::new();
    m.insert("ev".into(), json!("Layout"));
    m.insert("L".into(), l.unwrap_or_else(|p| json!({"ok": false, "why": format!("lexer panic {}", panic_msg(&p))})));
    ex.ev(m);
    // the archive is reopened through a reader that, for three scenarios out of four, returns short reads (the plan depends
    // on the scenario's name only): nothing the reader reports - entries, comment, offsets - may depend on it
    let hsc = ex.sc.bytes().fold(0xcbf29ce484222325u64, |h, b| (h ^ b as u64).wrapping_mul(0x100000001b3));
    let plan = match hsc % 4 { 1 => json!({"max": 3}), 2 => json!({"list": [4096, 1]}), 3 => json!({"max": 100}), _ => json!({}) };
    let r = catch_unwind(AssertUnwindSafe(|| ZipArchive::new(crate::eexec::Chunked::new(bytes, &plan))));
    let mut m = Map::new();
    m.insert("ev".into(), json!("Open"));
    let mut n = 0usize;
    match &r {
        Ok(Ok(a)) => {
            n = a.len();
            m.insert("r".into(), json!("ok"));
            m.insert("n".into(), json!(n));
            m.insert("offset".into(), json!(a.offset().min(2147483647)));
            m.insert("comment".into(), abs_name(a.comment()));
            let mut names: Vec<String> = a.file_names().map(|s| hid(s.as_bytes())).collect();
            names.sort();
            names.dedup();
            m.insert("nnames".into(), json!(names.len()));
        }
        Ok(Err(e)) => {
            m.insert("r".into(), json!("err"));
            m.insert("msg".into(), json!(e.to_string()));
        }
        Err(p) => {
            m.insert("r".into(), json!("panic"));
            m.insert("msg".into(), json!(panic_msg(p)));
        }
    }
    ex.ev(m);
    for i in 0..n {
        if n > max_entries && i >= max_entries / 2 && i < n - max_entries / 2 {
            continue;
        }
        let mut e = entry_view(bytes, i, pws, true);
        e.insert("ev".into(), json!("Entry"));
        ex.ev(e);
    }
}

/// the extra-data records formed by `b` (canonical TLV walk; the last token may be truncated);
/// buffers beyond what any extra field can hold are presented as one over-long token
fn tokens_of(b: &[u8], total: u64) -> Value {
    if total > 70_000 || b.len() as u64 != total {
        return json!([{"id": 0, "dsz": 0, "asz": (total.min(2147483000)) - 4, "hl": 4, "h": "huge"}]);
    }
    let mut out = vec![];
    let mut o = 0usize;
    while o < b.len() {
        let left = b.len() - o;
        if left < 4 {
            out.push(json!({"id": 0, "dsz": 0, "asz": 0, "hl": left, "h": hid(&b[o..])}));
            break;
        }
        let id = u16::from_le_bytes([b[o], b[o + 1]]) as u64;
        let dsz = u16::from_le_bytes([b[o + 2], b[o + 3]]) as usize;
        let asz = dsz.min(left - 4);
        out.push(json!({"id": id, "dsz": dsz, "asz": asz, "hl": 4, "h": hid(&b[o + 4..o + 4 + asz])}));
        o += 4 + asz;
        if out.len() > 200 {
            // (the generators never build more than a few dozen records; ordinary payload bytes
            //  written in data mode do not need a faithful record view)
            return json!([{"id": 0, "dsz": 0, "asz": (total.min(2147483000)) - 4, "hl": 4, "h": "huge"}]);
        }
    }
    json!(out)
}

fn extra_bytes(recs: &Value) -> (Vec<u8>, Vec<Value>) {
    let mut out = vec![];
    let mut toks = vec![];
    for r in recs.as_array().map(|a| a.as_slice()).unwrap_or(&[]) {
        let id = r["id"].as_u64().unwrap_or(0xbeef);
        let dsz = r["dsz"].as_u64().unwrap_or(0);
        let asz = r.get("asz").and_then(|x| x.as_u64()).unwrap_or(dsz);
        let hl = r.get("hl").and_then(|x| x.as_u64()).unwrap_or(4) as usize;
        let mut h = vec![];
        h.extend_from_slice(&(id as u16).to_le_bytes());
        h.extend_from_slice(&(dsz as u16).to_le_bytes());
        out.extend_from_slice(&h[..hl.min(4)]);
        let body: Vec<u8> = (0..asz).map(|i| (i as u8).wrapping_mul(7).wrapping_add(id as u8)).collect();
        out.extend_from_slice(&body);
        toks.push(json!({"id": id, "dsz": dsz, "asz": asz, "hl": hl.min(4), "h": hid(&body)}));
    }
    (out, toks)
}

pub fn run_scenario(sc: &Value) -> Vec<Value> {
    let mut ex = Exec { out: vec![], sc: sc["sc"].as_str().unwrap_or("?").to_string(),
                        dump: sc.get("dump").and_then(|x| x.as_str()).map(|s| s.to_string()), ndump: 0 };
    let mut m = Map::new();
    m.insert("ev".into(), json!("Reset"));
    m.insert("class".into(), sc.get("class").cloned().unwrap_or(json!("writer")));
    ex.ev(m);
    let mut archives: Vec<Vec<u8>> = vec![];
    let mut pws: Vec<Vec<u8>> = vec![];
    let mut sink = Shared::new(vec![]);
    let mut writer: Option<ManuallyDrop<ZipWriter<Shared>>> = None;
    // per-entry accumulator of accepted bytes (harness side, independent CRC)
    let mut acc_len = 0u64;
    let mut acc_crc = Crc::new();
    // the same bytes kept (up to a cap) so that they can be presented as extra-data records
    let mut acc_bytes: Vec<u8> = vec![];
    let max_entries = sc.get("max_entries").and_then(|x| x.as_u64()).unwrap_or(40) as usize;
    if let Some(s) = sc.get("short_w") {
        let _ = s;
    }
    let ops = sc["ops"].as_array().cloned().unwrap_or_default();
    for op in ops.iter() {
        let name = op["op"].as_str().unwrap_or("");
        match name {
            "New" => {
                sink = Shared::new(vec![]);
                apply_sink_opts(&sink, sc);
                apply_sink_opts(&sink, op);       // per-writer sink behaviour (short writes)
                writer = Some(ManuallyDrop::new(ZipWriter::new(sink.clone())));
                let m = base_event("New", &json!("ok"), "", &sink);
                ex.ev(m);
            }
            "Load" => {
                let b = unhex(op["hex"].as_str().unwrap_or(""));
                let mut m = Map::new();
                m.insert("ev".into(), json!("Load"));
                m.insert("len".into(), json!(b.len()));
                m.insert("arch".into(), json!(archives.len()));
                // (passwords of the loaded archive's encrypted entries, so that their content can be compared after append rounds)
                if let Some(a) = op.get("pws").and_then(|x| x.as_array()) {
                    for p in a {
                        pws.push(unhex(p.as_str().unwrap_or("")));
                    }
                }
                archives.push(b);
                ex.ev(m);
            }
            "Compare" => {
                let (a, b) = (op["a"].as_u64().unwrap_or(0) as usize, op["b"].as_u64().unwrap_or(1) as usize);
                let mut m = Map::new();
                m.insert("ev".into(), json!("Compare"));
                let eq = match (archives.get(a), archives.get(b)) {
                    (Some(x), Some(y)) => x == y,
                    _ => false,
                };
                m.insert("eq".into(), json!(eq));
                // (when one of the two runs did not complete - a program that is not valid after all - there is nothing to compare)
                m.insert("both".into(), json!(archives.get(a).is_some() && archives.get(b).is_some()));
                m.insert("have".into(), json!(archives.len()));
                ex.ev(m);
            }
            "NewAppend" => {
                let j = op["arch"].as_u64().unwrap_or(0) as usize;
                let base = archives.get(j).cloned().unwrap_or_default();
                sink = Shared::new(base.clone());
                apply_sink_opts(&sink, sc);
                apply_sink_opts(&sink, op);
                let r = catch_unwind(AssertUnwindSafe(|| ZipWriter::new_append(sink.clone())));
                let (rj, msg) = res_json(&r);
                let mut m = base_event("NewAppend", &rj, &msg, &sink);
                // the base as the independent lexer sees it
                let lopts = LexOpts { passwords_any: pws.clone(), allow_trailing: true, ..Default::default() };
                m.insert("L".into(), lex(&Mem(&base[..]), &lopts));
                if let Ok(Ok(w)) = r {
                    writer = Some(ManuallyDrop::new(w));
                } else {
                    writer = None;
                }
                ex.ev(m);
            }
            _ => {
                let pos_before = sink.pos();
                let w = match writer.as_mut() {
                    Some(w) => w,
                    None => {
                        let mut m = Map::new();
                        m.insert("ev".into(), json!("NoWriter"));
                        m.insert("op".into(), json!(name));
                        ex.ev(m);
                        continue;
                    }
                };
                match name {
                    "SetComment" => {
                        let c = bytes_of(&op["c"]);
                        let cc = c.clone();
                        let r = catch_unwind(AssertUnwindSafe(|| -> Result<(), String> {
                            w.set_raw_comment(cc);
                            Ok(())
                        }));
                        let (rj, msg) = res_json(&r);
                        let mut m = base_event("SetComment", &rj, &msg, &sink);
                        m.insert("c".into(), abs_name(&c));
                        ex.ev(m);
                    }
                    "StartFile" | "StartFileExtra" | "StartFileAligned" => {
                        let nm = name_string(&op["name"]);
                        let (fo, oabs) = opts_of(op);
                        if let Some(pw) = op.get("enc") {
                            if !pw.is_null() {
                                pws.push(bytes_of(pw));
                            }
                        }
                        let align = op.get("align").and_then(|x| x.as_u64()).unwrap_or(0);
                        let mut ret = 0u64;
                        let nmc = nm.clone();
                        let r = catch_unwind(AssertUnwindSafe(|| -> Result<(), String> {
                            match name {
                                "StartFile" => w.start_file(nmc, fo).map_err(|e| e.to_string()),
                                "StartFileExtra" => {
                                    ret = w.start_file_with_extra_data(nmc, fo).map_err(|e| e.to_string())?;
                                    Ok(())
                                }
                                _ => {
                                    ret = w.start_file_aligned(nmc, fo, align as u16).map_err(|e| e.to_string())?;
                                    Ok(())
                                }
                            }
                        }));
                        let (rj, msg) = res_json(&r);
                        if rj == json!("ok") || sink.pos() != pos_before {
                            acc_len = 0;
                            acc_crc = Crc::new();
                            acc_bytes.clear();
                        }
                        let mut m = base_event(name, &rj, &msg, &sink);
                        m.insert("name".into(), abs_name(nm.as_bytes()));
                        m.insert("o".into(), oabs);
                        m.insert("align".into(), json!(align));
                        m.insert("ret".into(), json!(ret.min(2147483647)));
                        let padh = if ret >= 4 { hid(&vec![0u8; (ret - 4) as usize]) } else { String::new() };
                        m.insert("padh".into(), json!(padh));
                        // hash of a pad body of every possible length is the hash of zeros: log the
                        // one the spec needs (pad length is computed by the spec; harness offers a table)
                        ex.ev(m);
                    }
                    "Write" => {
                        let data = bytes_of(&op["data"]);
                        let split = op.get("split").and_then(|x| x.as_u64()).unwrap_or(0) as usize;
                        let vec_io = op.get("vec").and_then(|x| x.as_bool()).unwrap_or(false);
                        let mut k = 0usize;
                        let mut calls = 0u64;
                        let m_xacc;
                        let r = catch_unwind(AssertUnwindSafe(|| -> Result<(), String> {
                            if data.is_empty() {
                                calls += 1;
                                w.write(&data).map_err(|e| e.to_string())?;
                            }
                            while k < data.len() {
                                let end = if split > 0 { (k + split).min(data.len()) } else { data.len() };
                                calls += 1;
                                // (op.vec: the same bytes offered as three slices through write_vectored - whatever an
                                //  implementation does with vectored writes must agree with write)
                                let n = if vec_io {
                                    let piece = &data[k..end];
                                    let (a, rest) = piece.split_at(piece.len() / 3);
                                    let (b, c) = rest.split_at(rest.len() / 2);
                                    w.write_vectored(&[std::io::IoSlice::new(a), std::io::IoSlice::new(b), std::io::IoSlice::new(c)])
                                } else {
                                    w.write(&data[k..end])
                                }
                                .map_err(|e| e.to_string())?;
                                if n == 0 {
                                    return Err("write returned 0".into());
                                }
                                k += n;
                            }
                            Ok(())
                        }));
                        let (rj, msg) = res_json(&r);
                        // accepted bytes: on error, the failing call's bytes may or may not have been
                        // absorbed; the spec only needs the count of bytes whose writes returned Ok
                        acc_len += k as u64;
                        acc_crc.update(&data[..k]);
                        if acc_bytes.len() < 200_000 {
                            acc_bytes.extend_from_slice(&data[..k.min(200_000)]);
                        }
                        m_xacc = tokens_of(&acc_bytes, acc_len);
                        let mut m = base_event("Write", &rj, &msg, &sink);
                        m.insert("n".into(), json!(data.len()));
                        m.insert("k".into(), json!(k));
                        m.insert("calls".into(), json!(calls));
                        m.insert("xacc".into(), m_xacc);
                        m.insert("acc".into(), json!({"len": acc_len.min(2147483647), "crc": hex32(acc_crc.finish())}));
                        ex.ev(m);
                    }
                    "WriteExtra" => {
                        let (bytes, toks) = extra_bytes(&op["recs"]);
                        let vec_io = op.get("vec").and_then(|x| x.as_bool()).unwrap_or(false);
                        let r = catch_unwind(AssertUnwindSafe(|| {
                            if bytes.is_empty() {
                                w.write(&bytes).map(|_| ())
                            } else if vec_io {
                                // the records offered as slices through write_vectored until everything is taken
                                let mut k = 0usize;
                                let mut res = Ok(());
                                while k < bytes.len() {
                                    let piece = &bytes[k..];
                                    let (a, b) = piece.split_at(piece.len().min(4));
                                    match w.write_vectored(&[std::io::IoSlice::new(a), std::io::IoSlice::new(b)]) {
                                        Ok(0) => {
                                            res = Err(std::io::Error::new(std::io::ErrorKind::WriteZero, "write_vectored returned 0"));
                                            break;
                                        }
                                        Ok(n) => k += n,
                                        Err(e) => {
                                            res = Err(e);
                                            break;
                                        }
                                    }
                                }
                                res
                            } else {
                                w.write_all(&bytes)
                            }
                            .map_err(|e| e.to_string())
                        }));
                        let (rj, msg) = res_json(&r);
                        if rj == json!("ok") {
                            acc_len += bytes.len() as u64;
                            acc_crc.update(&bytes);
                            if acc_bytes.len() < 200_000 {
                                acc_bytes.extend_from_slice(&bytes);
                            }
                        }
                        let _ = toks;
                        let toks = tokens_of(&acc_bytes, acc_len);
                        let mut m = base_event("WriteExtra", &rj, &msg, &sink);
                        m.insert("xacc".into(), toks);
                        m.insert("n".into(), json!(bytes.len()));
                        m.insert("k".into(), json!(if rj == json!("ok") { bytes.len() } else { 0 }));
                        m.insert("acc".into(), json!({"len": acc_len.min(2147483647), "crc": hex32(acc_crc.finish())}));
                        ex.ev(m);
                    }
                    "EndExtra" | "EndLocalStartCentral" => {
                        let mut ret = 0u64;
                        let r = catch_unwind(AssertUnwindSafe(|| -> Result<(), String> {
                            ret = if name == "EndExtra" { w.end_extra_data() } else { w.end_local_start_central_extra_data() }
                                .map_err(|e| e.to_string())?;
                            Ok(())
                        }));
                        let (rj, msg) = res_json(&r);
                        if rj == json!("ok") {
                            acc_len = 0;
                            acc_crc = Crc::new();
                            acc_bytes.clear();
                        }
                        let mut m = base_event(name, &rj, &msg, &sink);
                        m.insert("ret".into(), json!(ret.min(2147483647)));
                        ex.ev(m);
                    }
                    "AddDir" | "AddSymlink" => {
                        let nm = name_string(&op["name"]);
                        let (fo, oabs) = opts_of(op);
                        let tgt = if name == "AddSymlink" { name_string(&op["target"]) } else { String::new() };
                        if let Some(pw) = op.get("enc") {
                            if !pw.is_null() {
                                pws.push(bytes_of(pw));
                            }
                        }
                        let (nmc, tgc) = (nm.clone(), tgt.clone());
                        let r = catch_unwind(AssertUnwindSafe(|| {
                            if name == "AddDir" { w.add_directory(nmc, fo) } else { w.add_symlink(nmc, tgc, fo) }
                                .map_err(|e| e.to_string())
                        }));
                        let (rj, msg) = res_json(&r);
                        if rj == json!("ok") || sink.pos() != pos_before {
                            acc_len = 0;
                            acc_crc = Crc::new();
                            acc_bytes.clear();
                        }
                        let mut m = base_event(name, &rj, &msg, &sink);
                        m.insert("name".into(), abs_name(nm.as_bytes()));
                        let mut dn = nm.clone().into_bytes();
                        if !(dn.last() == Some(&b'/') || dn.last() == Some(&b'\\')) {
                            dn.push(b'/');
                        }
                        m.insert("dname".into(), abs_name(&dn));
                        m.insert("target".into(), abs_bytes(tgt.as_bytes()));
                        m.insert("o".into(), oabs);
                        ex.ev(m);
                    }
                    "RawCopy" => {
                        let j = op["arch"].as_u64().unwrap_or(0) as usize;
                        let idx = op["idx"].as_u64().unwrap_or(0) as usize;
                        let src_bytes = archives.get(j).cloned().unwrap_or_default();
                        let rename: Option<String> = op.get("rename").filter(|x| !x.is_null()).map(name_string);
                        let view = entry_view(&src_bytes, idx, &pws, false);
                        let via_raw = op.get("via").and_then(|x| x.as_str()) == Some("raw");
                        let rn = rename.clone();
                        let src_ops0 = crate::eexec::TOTAL_OPS.load(std::sync::atomic::Ordering::Relaxed);
                        let r = catch_unwind(AssertUnwindSafe(|| -> Result<(), String> {
                            // the source archive may sit on a reader that returns short reads (op.src_under = a Chunked plan)
                            let plan = op.get("src_under").cloned().unwrap_or(json!({}));
                            let mut ar = ZipArchive::new(crate::eexec::Chunked::new(&src_bytes[..], &plan)).map_err(|e| format!("src: {}", e))?;
                            let use_raw = via_raw || ar.by_index(idx).is_err();
                            let f = if use_raw { ar.by_index_raw(idx) } else { ar.by_index(idx) }
                                .map_err(|e| format!("src: {}", e))?;
                            match rn {
                                Some(n) => w.raw_copy_file_rename(f, n),
                                None => w.raw_copy_file(f),
                            }
                            .map_err(|e| e.to_string())
                        }));
                        let (rj, msg) = res_json(&r);
                        if rj == json!("ok") || sink.pos() != pos_before {
                            acc_len = 0;
                            acc_crc = Crc::new();
                            acc_bytes.clear();
                        }
                        let mut m = base_event("RawCopy", &rj, &msg, &sink);
                        m.insert("src".into(), Value::Object(view));
                        // I/O operations this call issued on the SOURCE archive's reader (fault enumeration over them: C11)
                        m.insert("src_ops".into(), json!(crate::eexec::TOTAL_OPS.load(std::sync::atomic::Ordering::Relaxed) - src_ops0));
                        let has = rename.is_some();
                        m.insert("rename".into(), json!(has));
                        m.insert("name".into(), abs_name(rename.unwrap_or_default().as_bytes()));
                        ex.ev(m);
                    }
                    "Flush" => {
                        let r = catch_unwind(AssertUnwindSafe(|| w.flush().map_err(|e| e.to_string())));
                        let (rj, msg) = res_json(&r);
                        let m = base_event("Flush", &rj, &msg, &sink);
                        ex.ev(m);
                    }
                    "Finish" => {
                        let r = catch_unwind(AssertUnwindSafe(|| w.finish().map(|_| ()).map_err(|e| e.to_string())));
                        let (rj, msg) = res_json(&r);
                        let ok = rj == json!("ok");
                        let m = base_event("Finish", &rj, &msg, &sink);
                        ex.ev(m);
                        if ok {
                            let b = sink.snapshot();
                            observe(&mut ex, &b, &pws, max_entries);
                            archives.push(b);
                        }
                    }
                    "Drop" => {
                        let mut wd = writer.take().unwrap();
                        let r = catch_unwind(AssertUnwindSafe(|| -> Result<(), String> {
                            unsafe { ManuallyDrop::drop(&mut wd) };
                            Ok(())
                        }));
                        let (rj, msg) = res_json(&r);
                        let m = base_event("Drop", &rj, &msg, &sink);
                        ex.ev(m);
                        let b = sink.snapshot();
                        observe(&mut ex, &b, &pws, max_entries);
                        archives.push(b);
                    }
                    other => {
                        let mut m = Map::new();
                        m.insert("ev".into(), json!("BadOp"));
                        m.insert("op".into(), json!(other));
                        ex.ev(m);
                    }
                }
            }
        }
    }
    // release a still-living writer (its Drop may finalize into the sink); a panic here counts
    let mut drop_panic = false;
    if let Some(mut wd) = writer.take() {
        drop_panic = catch_unwind(AssertUnwindSafe(|| unsafe { ManuallyDrop::drop(&mut wd) })).is_err();
    }
    {
        let s = sink.0.borrow();
        let mut m = Map::new();
        m.insert("ev".into(), json!("SinkOps"));
        m.insert("ops".into(), json!(s.ops));
        // (TLC's JSON reader has no null: "no fault" is the empty list)
        m.insert("faulted".into(), s.faulted.map(|(k, kind)| json!([k, kind])).unwrap_or(json!([])));
        m.insert("drop_panic".into(), json!(drop_panic));
        drop(s);
        ex.ev(m);
    }
    ex.out
}

fn apply_sink_opts(sink: &Shared, sc: &Value) {
    let mut s = sink.0.borrow_mut();
    if let Some(m) = sc.get("short_w_max").and_then(|x| x.as_u64()) {
        s.short_w = Short::Max(m as usize);
    }
    if let Some(j) = sc.get("short_w_at").and_then(|x| x.as_u64()) {
        s.short_w = Short::At(j);
    }
    if let Some(k) = sc.get("fault_at").and_then(|x| x.as_u64()) {
        s.fault_at = Some(k);
    }
}

pub fn main_wexec(args: &[String]) -> i32 {
    let inp = std::fs::read_to_string(&args[0]).expect("read programs");
    let mut out = std::io::BufWriter::new(std::fs::File::create(&args[1]).expect("create trace"));
    std::panic::set_hook(Box::new(|_| {}));
    let mut n = 0;
    for line in inp.lines() {
        if line.trim().is_empty() {
            continue;
        }
        let sc: Value = serde_json::from_str(line).expect("scenario json");
        for e in run_scenario(&sc) {
            writeln!(out, "{}", e).unwrap();
        }
        n += 1;
    }
    eprintln!("wexec: {} scenarios", n);
    0
}
