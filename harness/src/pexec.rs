//! C05: untrusted bytes through the whole reader surface.  Each case is a seed archive plus a
//! mutation (or raw bytes); the case runs under catch_unwind with the counting allocator giving the
//! peak heap growth while opening; cases run in a child process so that an abort or a hang is
//! attributed to one case (the parent restarts behind it).  One PRun event per case.
use crate::rexec::err_class;
use crate::util::*;
use serde_json::{json, Value};
use std::collections::BTreeMap;
use std::io::{Cursor, Read, Write};
use std::panic::{catch_unwind, AssertUnwindSafe};
use zip::read::ZipFile;
use zip::result::ZipResult;
use zip::unstable::stream::{ZipStreamFileMetadata, ZipStreamReader, ZipStreamVisitor};
use zip::ZipArchive;

const READ_CAP: u64 = 1 << 22; // bytes read per entry at most (inputs are small; bounds decompression work)
const ENTRY_CAP: usize = 40;

fn apply(seed: &[u8], muts: &Value) -> Vec<u8> {
    let mut b = seed.to_vec();
    for m in muts.as_array().cloned().unwrap_or_default() {
        match m[0].as_str().unwrap_or("") {
            "trunc" => b.truncate(m[1].as_u64().unwrap_or(0) as usize),
            "set" => {
                let pos = m[1].as_u64().unwrap_or(0) as usize;
                for (k, v) in m[2].as_array().cloned().unwrap_or_default().iter().enumerate() {
                    if pos + k < b.len() {
                        b[pos + k] = v.as_u64().unwrap_or(0) as u8;
                    }
                }
            }
            "ins" => {
                let pos = (m[1].as_u64().unwrap_or(0) as usize).min(b.len());
                let v: Vec<u8> = m[2].as_array().cloned().unwrap_or_default().iter().map(|x| x.as_u64().unwrap_or(0) as u8).collect();
                b.splice(pos..pos, v);
            }
            "del" => {
                let pos = (m[1].as_u64().unwrap_or(0) as usize).min(b.len());
                let n = (m[2].as_u64().unwrap_or(0) as usize).min(b.len() - pos);
                b.drain(pos..pos + n);
            }
            "raw" => b = unhex(m[1].as_str().unwrap_or("")),
            "rand" => {
                let mut r = Rng::new(m[1].as_u64().unwrap_or(1));
                let n = m[2].as_u64().unwrap_or(0) as usize;
                b = (0..n).map(|_| r.next() as u8).collect();
            }
            _ => {}
        }
    }
    b
}

struct Tally {
    res: BTreeMap<String, u64>,
    calls: u64,
    panics: Vec<String>,
}
impl Tally {
    fn add(&mut self, api: &str, class: &str) {
        self.calls += 1;
        *self.res.entry(format!("{}:{}", api, class)).or_insert(0) += 1;
    }
    fn guard<F: FnOnce(&mut Tally)>(&mut self, api: &str, f: F) {
        let r = catch_unwind(AssertUnwindSafe(|| {
            let mut t = Tally { res: BTreeMap::new(), calls: 0, panics: vec![] };
            f(&mut t);
            t
        }));
        match r {
            Ok(t) => {
                self.calls += t.calls;
                for (k, v) in t.res {
                    *self.res.entry(k).or_insert(0) += v;
                }
                self.panics.extend(t.panics);
            }
            Err(p) => {
                self.calls += 1;
                *self.res.entry(format!("{}:panic", api)).or_insert(0) += 1;
                if self.panics.len() < 3 {
                    self.panics.push(format!("{}: {}", api, panic_msg(&p)));
                }
            }
        }
    }
}

fn drain(f: &mut dyn Read) -> &'static str {
    let mut buf = [0u8; 8192];
    let mut n = 0u64;
    // (read sizes vary: a short first read, one around the cipher block size, then large ones)
    let sizes = [10usize, 16, 1, 33, 8192];
    let mut i = 0usize;
    loop {
        let want = sizes[i.min(sizes.len() - 1)];
        i += 1;
        match f.read(&mut buf[..want]) {
            Ok(0) => return "ok",
            Ok(k) => {
                n += k as u64;
                if n > READ_CAP {
                    return "ok";
                }
            }
            Err(_) => return "err",
        }
    }
}
fn accessors(f: &ZipFile) -> u64 {
    // every accessor; the values only need to exist
    let mut h = 0u64;
    h ^= f.name().len() as u64 ^ f.name_raw().len() as u64 ^ f.comment().len() as u64;
    h ^= f.size() ^ f.compressed_size() ^ f.crc32() as u64 ^ f.header_start() ^ f.data_start() ^ f.central_header_start();
    h ^= f.unix_mode().unwrap_or(0) as u64 ^ f.is_dir() as u64 ^ f.is_file() as u64 ^ f.extra_data().len() as u64;
    h ^= f.version_made_by().0 as u64 ^ crate::wexec::code_of(f.compression());
    let lm = f.last_modified();
    h ^= lm.year() as u64 ^ lm.datepart() as u64 ^ lm.timepart() as u64 ^ lm.to_time().is_ok() as u64;
    h ^= f.enclosed_name().map(|p| p.as_os_str().len()).unwrap_or(0) as u64 ^ f.mangled_name().as_os_str().len() as u64;
    #[allow(deprecated)]
    {
        h ^= f.sanitized_name().as_os_str().len() as u64;
    }
    h
}

struct Vis<'a>(&'a mut Tally);
impl<'a> ZipStreamVisitor for Vis<'a> {
    fn visit_file(&mut self, file: &mut ZipFile<'_>) -> ZipResult<()> {
        let _ = accessors(file);
        let c = drain(file);
        self.0.add("visit_file.read", c);
        Ok(())
    }
    fn visit_additional_metadata(&mut self, md: &ZipStreamFileMetadata) -> ZipResult<()> {
        let _ = (md.name().len(), md.name_raw().len(), md.comment().len(), md.unix_mode(), md.is_dir(), md.enclosed_name().is_some(), md.mangled_name());
        self.0.add("visit_meta", "ok");
        Ok(())
    }
}

pub fn run_case(bytes: &[u8], pws: &[Vec<u8>]) -> (Tally, u64) {
    let mut t = Tally { res: BTreeMap::new(), calls: 0, panics: vec![] };
    // ---- seekable reader; peak heap growth while opening
    let base = crate::alloc_now();
    crate::alloc_reset_peak();
    let opened = catch_unwind(AssertUnwindSafe(|| ZipArchive::new(Cursor::new(bytes))));
    let peak = crate::alloc_peak().saturating_sub(base);
    match opened {
        Err(p) => {
            t.add("open", "panic");
            t.panics.push(format!("open: {}", panic_msg(&p)));
        }
        Ok(Err(e)) => t.add("open", err_class(&e)),
        Ok(Ok(mut ar)) => {
            t.add("open", "ok");
            let n = ar.len();
            let _ = (ar.comment().len(), ar.offset(), ar.is_empty());
            let names: Vec<String> = ar.file_names().take(ENTRY_CAP).map(|s| s.to_string()).collect();
            for i in 0..n.min(ENTRY_CAP) {
                t.guard("by_index", |t| match ar.by_index(i) {
                    Ok(mut f) => {
                        let _ = accessors(&f);
                        let c = drain(&mut f);
                        t.add("by_index.read", c);
                    }
                    Err(e) => t.add("by_index", err_class(&e)),
                });
                // the std conveniences a caller may use instead of a read loop (an implementation may override them)
                t.guard("by_index.read_to_end", |t| match ar.by_index(i) {
                    Ok(mut f) => {
                        let mut v = Vec::new();
                        let c = if f.read_to_end(&mut v).is_ok() { "ok" } else { "err" };
                        t.add("by_index.read_to_end", c);
                    }
                    Err(e) => t.add("by_index", err_class(&e)),
                });
                t.guard("by_index_raw.read_to_end", |t| match ar.by_index_raw(i) {
                    Ok(mut f) => {
                        let mut v = Vec::new();
                        let c = if f.read_to_end(&mut v).is_ok() { "ok" } else { "err" };
                        t.add("by_index_raw.read_to_end", c);
                    }
                    Err(e) => t.add("by_index_raw", err_class(&e)),
                });
                t.guard("by_index.read_to_string", |t| match ar.by_index(i) {
                    Ok(mut f) => {
                        let mut v = String::new();
                        let c = if f.read_to_string(&mut v).is_ok() { "ok" } else { "err" };
                        t.add("by_index.read_to_string", c);
                    }
                    Err(e) => t.add("by_index", err_class(&e)),
                });
                t.guard("by_index_raw", |t| match ar.by_index_raw(i) {
                    Ok(mut f) => {
                        let _ = accessors(&f);
                        let c = drain(&mut f);
                        t.add("by_index_raw.read", c);
                    }
                    Err(e) => t.add("by_index_raw", err_class(&e)),
                });
                for pw in pws {
                    t.guard("by_index_decrypt", |t| match ar.by_index_decrypt(i, pw) {
                        Ok(Ok(mut f)) => {
                            let _ = accessors(&f);
                            let c = drain(&mut f);
                            t.add("by_index_decrypt.read", c);
                        }
                        Ok(Err(_)) => t.add("by_index_decrypt", "invalid_password"),
                        Err(e) => t.add("by_index_decrypt", err_class(&e)),
                    });
                    // ... and through the std conveniences, which retry on ErrorKind::Interrupted: an error an implementation
                    // reports with that kind for a PERMANENT condition makes them spin forever (the watchdog sees that)
                    t.guard("by_index_decrypt.read_to_end", |t| match ar.by_index_decrypt(i, pw) {
                        Ok(Ok(mut f)) => {
                            let mut v = Vec::new();
                            let c = if f.read_to_end(&mut v).is_ok() { "ok" } else { "err" };
                            t.add("by_index_decrypt.read_to_end", c);
                            let mut sink = std::io::sink();
                            let c = if std::io::copy(&mut f, &mut sink).is_ok() { "ok" } else { "err" };
                            t.add("by_index_decrypt.copy", c);
                        }
                        Ok(Err(_)) => t.add("by_index_decrypt", "invalid_password"),
                        Err(e) => t.add("by_index_decrypt", err_class(&e)),
                    });
                }
            }
            t.guard("by_index_out", |t| {
                let c = match ar.by_index(n) {
                    Ok(_) => "ok",
                    Err(ref e) => err_class(e),
                };
                t.add("by_index_out", c)
            });
            for nm in names.iter().take(8) {
                t.guard("by_name", |t| match ar.by_name(nm) {
                    Ok(mut f) => {
                        let c = drain(&mut f);
                        t.add("by_name.read", c);
                    }
                    Err(e) => t.add("by_name", err_class(&e)),
                });
                if let Some(pw) = pws.first() {
                    t.guard("by_name_decrypt", |t| match ar.by_name_decrypt(nm, pw) {
                        Ok(Ok(mut f)) => {
                            let c = drain(&mut f);
                            t.add("by_name_decrypt.read", c);
                        }
                        Ok(Err(_)) => t.add("by_name_decrypt", "invalid_password"),
                        Err(e) => t.add("by_name_decrypt", err_class(&e)),
                    });
                }
            }
            t.guard("by_name_absent", |t| {
                let c = match ar.by_name("\u{1}absent\u{2}") {
                    Ok(_) => "ok",
                    Err(ref e) => err_class(e),
                };
                t.add("by_name_absent", c)
            });
            // clones stay usable
            t.guard("clone", |t| {
                let mut c2 = ar.clone();
                if c2.len() > 0 {
                    let c = match c2.by_index(0) {
                        Ok(mut f) => drain(&mut f),
                        Err(_) => "err",
                    };
                    t.add("clone.by_index", c);
                }
            });
        }
    }
    // ---- streaming reader
    t.guard("stream", |t| {
        let mut cur = Cursor::new(bytes);
        for _ in 0..ENTRY_CAP {
            match zip::read::read_zipfile_from_stream(&mut cur) {
                Ok(Some(mut f)) => {
                    let _ = accessors(&f);
                    let c = drain(&mut f);
                    t.add("stream.read", c);
                }
                Ok(None) => {
                    t.add("stream.next", "end");
                    break;
                }
                Err(e) => {
                    t.add("stream.next", err_class(&e));
                    break;
                }
            }
        }
    });
    t.guard("stream_partial", |t| {
        // entries released without being read: the drop-time drain runs on untrusted sizes
        let mut cur = Cursor::new(bytes);
        for _ in 0..ENTRY_CAP {
            match zip::read::read_zipfile_from_stream(&mut cur) {
                Ok(Some(mut f)) => {
                    let mut one = [0u8; 1];
                    let _ = f.read(&mut one);
                    t.add("stream_partial.next", "ok");
                }
                Ok(None) => break,
                Err(e) => {
                    t.add("stream_partial.next", err_class(&e));
                    break;
                }
            }
        }
    });
    t.guard("visit", |t| {
        let r = ZipStreamReader::new(Cursor::new(bytes)).visit(&mut Vis(t));
        let c = match r {
            Ok(()) => "ok",
            Err(ref e) => err_class(e),
        };
        t.add("visit", c);
    });
    // ---- opening for append (on a copy: the writer may overwrite)
    t.guard("new_append", |t| {
        let copy = bytes.to_vec();
        let r = zip::ZipWriter::new_append(Cursor::new(copy));
        match r {
            Ok(w) => {
                // (only OPENING for append is in this property's scope: the returned writer is not driven further - it
                //  would write at offsets the untrusted bytes dictate, and what an in-memory sink does then is the sink's business)
                t.add("new_append", "ok");
                let _w = std::mem::ManuallyDrop::new(w);
            }
            Err(e) => t.add("new_append", err_class(&e)),
        }
    });
    (t, peak as u64)
}

fn event(id: &str, sc: &str, cls: &str, len: usize, t: &Tally, peak: u64) -> Value {
    let bad: Vec<String> = t.res.keys().filter(|k| {
        let c = k.rsplit(':').next().unwrap_or("");
        !matches!(c, "ok" | "err" | "io" | "invalid" | "unsupported" | "notfound" | "password_required" | "invalid_password" | "end")
    }).cloned().collect();
    json!({"ev": "PRun", "sc": sc, "id": id, "cls": cls, "len": len, "calls": t.calls, "classes": t.res.keys().map(|k| { let mut it = k.rsplitn(2, ':'); let c = it.next().unwrap_or(""); let a = it.next().unwrap_or(""); json!([a, c]) }).collect::<Vec<_>>(),
           "bad": bad, "panics": t.panics, "peak": peak.min(2_000_000_000), "hang": false, "abort": false})
}

/// child: run cases [start..] appending one event per case; progress file holds the index being run
pub fn main_pexec_child(args: &[String]) -> i32 {
    let cases = std::fs::read_to_string(&args[0]).expect("cases");
    let start: usize = args[2].parse().unwrap_or(0);
    let mut out = std::fs::OpenOptions::new().append(true).create(true).open(&args[1]).expect("trace");
    let prog = format!("{}.progress", args[1]);
    std::panic::set_hook(Box::new(|_| {}));
    let mut seeds: BTreeMap<String, (Vec<u8>, Vec<Vec<u8>>)> = BTreeMap::new();
    let mut idx = 0usize;
    let mut buf = String::new();
    for line in cases.lines().filter(|l| !l.trim().is_empty()) {
        let c: Value = serde_json::from_str(line).expect("case json");
        if let Some(name) = c.get("seed_def").and_then(|x| x.as_str()) {
            let pws = c["pws"].as_array().cloned().unwrap_or_default().iter().map(|p| unhex(p.as_str().unwrap_or(""))).collect();
            seeds.insert(name.to_string(), (unhex(c["hex"].as_str().unwrap_or("")), pws));
            continue;
        }
        if idx < start {
            idx += 1;
            continue;
        }
        let _ = std::fs::write(&prog, idx.to_string());
        let (seed, pws) = seeds.get(c["seed"].as_str().unwrap_or("")).cloned().unwrap_or_default();
        let bytes = apply(&seed, &c["mut"]);
        let (t, peak) = run_case(&bytes, &pws);
        buf.push_str(&event(c["id"].as_str().unwrap_or("?"), c["sc"].as_str().unwrap_or("?"), c["cls"].as_str().unwrap_or("?"), bytes.len(), &t, peak).to_string());
        buf.push('\n');
        idx += 1;
        if idx % 64 == 0 {
            out.write_all(buf.as_bytes()).unwrap();
            out.flush().unwrap();
            buf.clear();
        }
    }
    out.write_all(buf.as_bytes()).unwrap();
    let _ = std::fs::write(&prog, "done");
    0
}

/// parent: supervise the child; a crash or a stall is recorded against the case in progress
pub fn main_pexec(args: &[String]) -> i32 {
    let exe = std::env::current_exe().expect("exe");
    let stall = std::time::Duration::from_secs(args.get(2).and_then(|s| s.parse().ok()).unwrap_or(60));
    let _ = std::fs::remove_file(&args[1]);
    let prog = format!("{}.progress", args[1]);
    let _ = std::fs::remove_file(&prog);
    // case metadata for synthesising events of crashed / hung cases
    let cases: Vec<Value> = std::fs::read_to_string(&args[0]).expect("cases").lines().filter(|l| !l.trim().is_empty())
        .map(|l| serde_json::from_str::<Value>(l).expect("json")).filter(|c| c.get("seed_def").is_none()).collect();
    let mut start = 0usize;
    let mut restarts = 0;
    loop {
        let mut child = std::process::Command::new(&exe).args(["pexec-child", &args[0], &args[1], &start.to_string()]).spawn().expect("spawn");
        let mut last = String::new();
        let mut last_change = std::time::Instant::now();
        let status = loop {
            if let Some(st) = child.try_wait().expect("wait") {
                break Some(st);
            }
            std::thread::sleep(std::time::Duration::from_millis(100));
            let cur = std::fs::read_to_string(&prog).unwrap_or_default();
            if cur != last {
                last = cur;
                last_change = std::time::Instant::now();
            } else if last_change.elapsed() > stall {
                let _ = child.kill();
                let _ = child.wait();
                break None;
            }
        };
        let cur = std::fs::read_to_string(&prog).unwrap_or_default();
        if cur == "done" && status.map_or(false, |s| s.success()) {
            break;
        }
        // the case in progress crashed the process (abort) or stalled (hang)
        let k: usize = cur.trim().parse().unwrap_or(start);
        // events of cases k0..k that were buffered but not yet flushed are lost with the child: rerun from the last flushed one
        let done_lines = std::fs::read_to_string(&args[1]).map(|s| s.lines().count()).unwrap_or(0);
        restarts += 1;
        let c = cases.get(k).cloned().unwrap_or(json!({}));
        // re-run the unflushed cases before k in a fresh child up to k-1 is implicit: restart at done_lines, but skip k
        if done_lines < k {
            // run [done_lines, k) separately
            let mut ch = std::process::Command::new(&exe).args(["pexec-range", &args[0], &args[1], &done_lines.to_string(), &k.to_string()]).spawn().expect("spawn");
            let _ = ch.wait();
        }
        let ev = json!({"ev": "PRun", "sc": c["sc"], "id": c["id"], "cls": c["cls"], "len": 0, "calls": 0, "classes": [["process", if status.is_none() { "hang" } else { "abort" }]], "bad": [],
                        "panics": [], "peak": 0, "hang": status.is_none(), "abort": status.is_some()});
        let mut out = std::fs::OpenOptions::new().append(true).create(true).open(&args[1]).expect("trace");
        writeln!(out, "{}", ev).unwrap();
        start = k + 1;
        if start >= cases.len() {
            break;
        }
        // every crash or stall recorded so far is already a violation of the property; a change that makes MANY cases stall (each
        // costs the watchdog's patience) must not turn the check into hours of waiting: the rest of this shard is left out
        if restarts >= 3 {
            eprintln!("pexec: {} cases crashed or stalled the worker; the remaining {} cases of this shard are not run", restarts, cases.len() - start);
            break;
        }
    }
    let _ = std::fs::remove_file(&prog);
    0
}

/// run cases [a, b) and append their events (used to recover events lost in a crashed child's buffer)
pub fn main_pexec_range(args: &[String]) -> i32 {
    let cases = std::fs::read_to_string(&args[0]).expect("cases");
    let (a, b): (usize, usize) = (args[2].parse().unwrap_or(0), args[3].parse().unwrap_or(0));
    let mut out = std::fs::OpenOptions::new().append(true).create(true).open(&args[1]).expect("trace");
    std::panic::set_hook(Box::new(|_| {}));
    let mut seeds: BTreeMap<String, (Vec<u8>, Vec<Vec<u8>>)> = BTreeMap::new();
    let mut idx = 0usize;
    for line in cases.lines().filter(|l| !l.trim().is_empty()) {
        let c: Value = serde_json::from_str(line).expect("case json");
        if let Some(name) = c.get("seed_def").and_then(|x| x.as_str()) {
            let pws = c["pws"].as_array().cloned().unwrap_or_default().iter().map(|p| unhex(p.as_str().unwrap_or(""))).collect();
            seeds.insert(name.to_string(), (unhex(c["hex"].as_str().unwrap_or("")), pws));
            continue;
        }
        if idx >= a && idx < b {
            let (seed, pws) = seeds.get(c["seed"].as_str().unwrap_or("")).cloned().unwrap_or_default();
            let bytes = apply(&seed, &c["mut"]);
            let (t, peak) = run_case(&bytes, &pws);
            writeln!(out, "{}", event(c["id"].as_str().unwrap_or("?"), c["sc"].as_str().unwrap_or("?"), c["cls"].as_str().unwrap_or("?"), bytes.len(), &t, peak)).unwrap();
        }
        idx += 1;
    }
    0
}
