//! Executor for clone scenarios (C20): real clones of one opened archive driven through a given
//! interleaving on one thread, or concurrently from several threads (each thread logs its own
//! handle's sequence; the logs are concatenated handle by handle -- a legal linearisation because
//! the specification allows every interleaving of independent handles).
use crate::lexer::{lex, LexOpts, Mem};
use crate::rexec::err_class;
use crate::util::*;
use serde_json::{json, Map, Value};
use std::io::{Cursor, Read, Seek, SeekFrom};
use std::panic::{catch_unwind, AssertUnwindSafe};
use std::sync::Arc;
use zip::read::ZipFile;
use zip::ZipArchive;

// compile-time fact required by the property: the handle is Send and Sync when its reader is
#[allow(dead_code)]
fn assert_send_sync<T: Send + Sync>() {}
#[cfg(not(zip_verif_no_sendsync))]
#[allow(dead_code)]
fn send_sync_facts() {
    assert_send_sync::<ZipArchive<Cursor<Vec<u8>>>>();
    assert_send_sync::<ZipArchive<Cursor<&'static [u8]>>>();
    assert_send_sync::<ZipArchive<Yielding>>();
}

/// control shared by all clones of one reader: lets a scenario arm ONE handle so that its n-th I/O
/// operation (counted from arming) either fails or first runs a nested action on other handles
/// (deterministic interleaving at I/O granularity), and lets threads start together
pub struct Ctl {
    next_id: std::sync::atomic::AtomicUsize,
    armed: std::sync::atomic::AtomicUsize,
    at: std::sync::atomic::AtomicU64,
    count: std::sync::atomic::AtomicU64,
    fault: std::sync::atomic::AtomicBool,
    action: std::sync::Mutex<Option<Box<dyn FnMut() + Send>>>,
}
impl Ctl {
    fn new() -> Arc<Ctl> {
        use std::sync::atomic::*;
        Arc::new(Ctl { next_id: AtomicUsize::new(1), armed: AtomicUsize::new(0), at: AtomicU64::new(0), count: AtomicU64::new(0),
                       fault: AtomicBool::new(false), action: std::sync::Mutex::new(None) })
    }
    fn arm(&self, id: usize, at: u64, fault: bool, action: Option<Box<dyn FnMut() + Send>>) {
        use std::sync::atomic::Ordering::SeqCst;
        self.count.store(0, SeqCst);
        self.at.store(at, SeqCst);
        self.fault.store(fault, SeqCst);
        *self.action.lock().unwrap() = action;
        self.armed.store(id, SeqCst);
    }
    fn disarm(&self) {
        self.armed.store(0, std::sync::atomic::Ordering::SeqCst);
        *self.action.lock().unwrap() = None;
    }
}
/// a cloneable reader that yields the thread at pseudo-random points (to shake OS schedules)
pub struct Yielding {
    data: Arc<Vec<u8>>,
    pos: u64,
    rng: u64,
    every: u64,
    ctl: Arc<Ctl>,
    id: usize,
    /// where a clone of this reader starts: 0 = where the original is (like a Cursor), 1 = at the start
    /// (like a reader that reopens its file), 2 = at the end
    clone_pos: u8,
}
impl Clone for Yielding {
    fn clone(&self) -> Yielding {
        let id = self.ctl.next_id.fetch_add(1, std::sync::atomic::Ordering::SeqCst);
        let pos = match self.clone_pos { 1 => 0, 2 => self.data.len() as u64, _ => self.pos };
        Yielding { clone_pos: self.clone_pos, data: self.data.clone(), pos, rng: self.rng ^ (id as u64).wrapping_mul(0x9E3779B97F4A7C15), every: self.every, ctl: self.ctl.clone(), id }
    }
}
impl Yielding {
    /// returns true when this operation must fail
    fn tick(&mut self) -> bool {
        use std::sync::atomic::Ordering::SeqCst;
        self.rng ^= self.rng << 13;
        self.rng ^= self.rng >> 7;
        self.rng ^= self.rng << 17;
        if self.every > 0 && self.rng % self.every == 0 {
            std::thread::yield_now();
        }
        if self.ctl.armed.load(SeqCst) == self.id {
            let c = self.ctl.count.fetch_add(1, SeqCst);
            if c == self.ctl.at.load(SeqCst) {
                if self.ctl.fault.load(SeqCst) {
                    return true;
                }
                let act = self.ctl.action.lock().unwrap().take();
                if let Some(mut a) = act {
                    self.ctl.armed.store(0, SeqCst);
                    a();
                }
            }
        }
        false
    }
}
impl Read for Yielding {
    fn read(&mut self, buf: &mut [u8]) -> std::io::Result<usize> {
        if self.tick() {
            return Err(std::io::Error::new(std::io::ErrorKind::Other, "injected fault"));
        }
        let p = (self.pos as usize).min(self.data.len());
        let n = buf.len().min(self.data.len() - p);
        buf[..n].copy_from_slice(&self.data[p..p + n]);
        self.pos += n as u64;
        Ok(n)
    }
}
impl Seek for Yielding {
    fn seek(&mut self, to: SeekFrom) -> std::io::Result<u64> {
        if self.tick() {
            return Err(std::io::Error::new(std::io::ErrorKind::Other, "injected fault"));
        }
        let np: i128 = match to {
            SeekFrom::Start(p) => p as i128,
            SeekFrom::End(d) => self.data.len() as i128 + d as i128,
            SeekFrom::Current(d) => self.pos as i128 + d as i128,
        };
        if np < 0 {
            return Err(std::io::Error::new(std::io::ErrorKind::InvalidInput, "seek before start"));
        }
        self.pos = np as u64;
        Ok(self.pos)
    }
}

struct Handle {
    ar: &'static mut ZipArchive<Yielding>,
    file: Option<ZipFile<'static>>,
}

fn step(h: &mut Handle, hid_: usize, st: &Value) -> Map<String, Value> {
    let mut m = Map::new();
    m.insert("h".into(), json!(hid_ + 1));
    match st["op"].as_str().unwrap_or("") {
        "open" => {
            h.file = None; // release the previous entry first
            let i = st["i"].as_u64().unwrap_or(0) as usize;
            m.insert("ev".into(), json!("COpen"));
            m.insert("i".into(), json!(i + 1));
            // SAFETY (harness only): the archive behind the handle is leaked and lives forever; the
            // file is always dropped before the handle is used again
            let arp: *mut ZipArchive<Yielding> = h.ar;
            let pw = st.get("pw").and_then(|x| x.as_str()).map(unhex);
            let raw = st.get("raw").and_then(|x| x.as_bool()).unwrap_or(false);
            m.insert("pwkind".into(), st.get("pwkind").cloned().unwrap_or(json!("none")));
            m.insert("raw".into(), json!(raw));
            let byname = st.get("name").and_then(|x| x.as_str()).map(|x| x.to_string());
            let opened: Result<ZipFile<'static>, String> = unsafe {
                if let Some(nm) = &byname {
                    // by name: the lookup goes through whatever index the handle keeps
                    (*arp).by_name(nm).map_err(|e| err_class(&e).to_string())
                } else if raw {
                    (*arp).by_index_raw(i).map_err(|e| err_class(&e).to_string())
                } else if let Some(p) = &pw {
                    match (*arp).by_index_decrypt(i, p) {
                        Ok(Ok(f)) => Ok(f),
                        Ok(Err(_)) => Err("invalid_password".to_string()),
                        Err(e) => Err(err_class(&e).to_string()),
                    }
                } else {
                    (*arp).by_index(i).map_err(|e| err_class(&e).to_string())
                }
            };
            match opened {
                Ok(f) => {
                    m.insert("r".into(), json!("ok"));
                    m.insert("dstart".into(), json!(f.data_start().min(2147483647)));
                    m.insert("name".into(), abs_name(f.name().as_bytes()));
                    m.insert("usize".into(), json!(f.size().min(2147483647)));
                    m.insert("crc".into(), json!(hex32(f.crc32())));
                    h.file = Some(f);
                }
                Err(c) => {
                    m.insert("ev".into(), json!("COpenFault"));
                    m.insert("r".into(), json!(c));
                }
            }
        }
        "stat" => {
            // what the handle's open entry reports now (other handles may have been busy in between)
            m.insert("ev".into(), json!("CStat"));
            match h.file.as_ref() {
                Some(f) => {
                    m.insert("r".into(), json!("ok"));
                    m.insert("dstart".into(), json!(f.data_start().min(2147483647)));
                    m.insert("usize".into(), json!(f.size().min(2147483647)));
                }
                None => {
                    m.insert("r".into(), json!("noentry"));
                    m.insert("dstart".into(), json!(0));
                    m.insert("usize".into(), json!(0));
                }
            }
        }
        "read" => {
            let k = st["k"].as_u64().unwrap_or(1) as usize;
            m.insert("ev".into(), json!("CRead"));
            m.insert("k".into(), json!(k));
            m.insert("pcrc".into(), st.get("pcrc").cloned().unwrap_or(json!("")));
            m.insert("plen".into(), st.get("plen").cloned().unwrap_or(json!(-1)));
            match h.file.as_mut() {
                None => {
                    m.insert("r".into(), json!("noentry"));
                }
                Some(f) => {
                    let mut buf = vec![0u8; k];
                    let mut got = 0usize;
                    let mut r = "ok";
                    while got < k {
                        match f.read(&mut buf[got..]) {
                            Ok(0) => break,
                            Ok(n) => got += n,
                            Err(_) => {
                                r = "err";
                                break;
                            }
                        }
                    }
                    m.insert("r".into(), json!(r));
                    m.insert("got".into(), json!(got));
                    m.insert("crc".into(), json!(hex32(crc32(&buf[..got]))));
                }
            }
        }
        "readall" => {
            // read to end-of-file: the result class, and length and CRC of whatever was delivered
            m.insert("ev".into(), json!("CReadAll"));
            match h.file.as_mut() {
                None => {
                    m.insert("r".into(), json!("noentry"));
                }
                Some(f) => {
                    let mut v = vec![];
                    let mut buf = [0u8; 997];
                    let mut r = "ok";
                    loop {
                        match f.read(&mut buf) {
                            Ok(0) => break,
                            Ok(n) => v.extend_from_slice(&buf[..n]),
                            Err(_) => {
                                r = "err";
                                break;
                            }
                        }
                    }
                    m.insert("r".into(), json!(r));
                    m.insert("got".into(), json!(v.len()));
                    m.insert("crc".into(), json!(hex32(crc32(&v))));
                }
            }
        }
        _ => {
            m.insert("ev".into(), json!("CClose"));
            h.file = None;
        }
    }
    m
}

/// what a step let its handle observe, as one comparable string
fn sig_of(m: &Map<String, Value>) -> String {
    let g = |k: &str| m.get(k).map(|v| v.to_string()).unwrap_or_default();
    format!("{}|{}|{}|{}|{}|{}|{}", g("ev"), g("i"), g("r"), g("got"), g("crc"), g("dstart"), g("usize"))
}

/// "every handle observes exactly what it would observe if used alone", differentially and for ANY archive (damaged entries,
/// wrong passwords, undecodable methods included): the prescribed interleaving runs on clones of one archive, then each
/// handle's own steps run on an archive opened afresh from the same bytes; one event per handle carries both observation lists
fn differential(sc: &Value, bytes: &[u8], out: &mut Vec<Value>, push: &mut dyn FnMut(&mut Vec<Value>, Map<String, Value>)) {
    let nh = sc["handles"].as_u64().unwrap_or(2) as usize;
    let steps = sc["steps"].as_array().cloned().unwrap_or_default();
    let mk = || ZipArchive::new(Yielding { data: Arc::new(bytes.to_vec()), pos: 0, rng: 1, every: 0, ctl: Ctl::new(), id: 0, clone_pos: 0 });
    let r = catch_unwind(AssertUnwindSafe(|| -> Option<Vec<(Vec<String>, Vec<String>)>> {
        let base = mk().ok()?;
        let mut hs: Vec<Handle> = (0..nh).map(|_| Handle { ar: Box::leak(Box::new(base.clone())), file: None }).collect();
        let mut shared: Vec<Vec<String>> = vec![vec![]; nh];
        // a second archive (scenario field hex2) a handle can be RE-TARGETED at through Clone::clone_from (op "retarget"): from
        // then on the handle must behave like a fresh handle of that archive, whatever it looked up before
        let bytes2 = sc.get("hex2").and_then(|x| x.as_str()).map(unhex);
        let mk2 = || ZipArchive::new(Yielding { data: Arc::new(bytes2.clone().unwrap_or_default()), pos: 0, rng: 1, every: 0, ctl: Ctl::new(), id: 0, clone_pos: 0 });
        let base2 = if bytes2.is_some() { mk2().ok() } else { None };
        for st in &steps {
            let h = st["h"].as_u64().unwrap_or(0) as usize % nh;
            if st["op"].as_str() == Some("retarget") {
                hs[h].file = None;
                if let Some(b2) = &base2 {
                    hs[h].ar.clone_from(b2);
                }
                shared[h].push("retarget".into());
                continue;
            }
            let e = step(&mut hs[h], h, st);
            shared[h].push(sig_of(&e));
        }
        for h in hs.iter_mut() {
            h.file = None;
        }
        let mut res = vec![];
        for h in 0..nh {
            let mut one = Handle { ar: Box::leak(Box::new(mk().ok()?)), file: None };
            let mut alone = vec![];
            for st in steps.iter().filter(|st| st["h"].as_u64().unwrap_or(0) as usize % nh == h) {
                if st["op"].as_str() == Some("retarget") {
                    one.file = None;
                    if bytes2.is_some() {
                        one = Handle { ar: Box::leak(Box::new(mk2().ok()?)), file: None };     // alone: simply a fresh handle of that archive
                    }
                    alone.push("retarget".into());
                    continue;
                }
                alone.push(sig_of(&step(&mut one, h, st)));
            }
            one.file = None;
            res.push((shared[h].clone(), alone));
        }
        Some(res)
    }));
    match r {
        Ok(Some(res)) => {
            for (h, (a, b)) in res.into_iter().enumerate() {
                let mut m = Map::new();
                m.insert("ev".into(), json!("CAlone"));
                m.insert("h".into(), json!(h + 1));
                m.insert("r".into(), json!("ok"));
                m.insert("shared".into(), json!(a));
                m.insert("alone".into(), json!(b));
                push(out, m);
            }
        }
        Ok(None) => {
            let mut m = Map::new();
            m.insert("ev".into(), json!("CAlone"));
            m.insert("h".into(), json!(0));
            m.insert("r".into(), json!("noarchive"));
            m.insert("shared".into(), json!([]));
            m.insert("alone".into(), json!([]));
            push(out, m);
        }
        Err(p) => {
            let mut m = Map::new();
            m.insert("ev".into(), json!("CPanic"));
            m.insert("msg".into(), json!(panic_msg(&p)));
            push(out, m);
        }
    }
}


/// one OS thread per handle (needs ZipArchive<R>: Send; compiled out when probing why the build fails)
#[cfg(zip_verif_no_sendsync)]
fn threads_run(_sc: &Value, _base: &ZipArchive<Yielding>, _out: &mut Vec<Value>, _push: &mut dyn FnMut(&mut Vec<Value>, Map<String, Value>)) {}
#[cfg(not(zip_verif_no_sendsync))]
fn threads_run(sc: &Value, base: &ZipArchive<Yielding>, out: &mut Vec<Value>, push: &mut dyn FnMut(&mut Vec<Value>, Map<String, Value>)) {
        // one OS thread per handle, each with its own script; per-handle logs concatenated
        let scripts: Vec<Vec<Value>> = sc["scripts"].as_array().map(|a| a.iter().map(|s| s.as_array().cloned().unwrap_or_default()).collect()).unwrap_or_default();
        let mut joins = vec![];
        let barrier = Arc::new(std::sync::Barrier::new(scripts.len()));
        for (k, script) in scripts.into_iter().enumerate() {
            let mut c = base.clone();
            let barrier = barrier.clone();
            joins.push(std::thread::spawn(move || {
                let _ = &mut c;
                barrier.wait();
                let r = catch_unwind(AssertUnwindSafe(|| {
                    let mut h = Handle { ar: Box::leak(Box::new(c)), file: None };
                    let mut evs = vec![];
                    for st in script {
                        evs.push(step(&mut h, k, &st));
                    }
                    h.file = None;
                    evs
                }));
                r.unwrap_or_else(|p| {
                    let mut m = Map::new();
                    m.insert("ev".into(), json!("CPanic"));
                    m.insert("msg".into(), json!(panic_msg(&p)));
                    vec![m]
                })
            }));
        }
        for j in joins {
            match j.join() {
                Ok(evs) => {
                    for e in evs {
                        push(out, e);
                    }
                }
                Err(_) => {
                    let mut m = Map::new();
                    m.insert("ev".into(), json!("CPanic"));
                    push(out, m);
                }
            }
        }
    }

pub fn run(sc: &Value) -> Vec<Value> {
    let id = sc["sc"].as_str().unwrap_or("?").to_string();
    let mut out: Vec<Value> = vec![];
    let bytes = unhex(sc["hex"].as_str().unwrap_or(""));
    let mut push = |out: &mut Vec<Value>, mut m: Map<String, Value>| {
        m.insert("sc".into(), json!(id.clone()));
        out.push(Value::Object(m));
    };
    let mut m = Map::new();
    m.insert("ev".into(), json!("Reset"));
    push(&mut out, m);
    if sc.get("differential").and_then(|x| x.as_bool()).unwrap_or(false) {
        differential(sc, &bytes, &mut out, &mut push);
        return out;
    }
    let l = lex(&Mem(&bytes), &LexOpts::default());
    let nh = sc["handles"].as_u64().unwrap_or(2) as usize;
    let every = sc.get("yield_every").and_then(|x| x.as_u64()).unwrap_or(0);
    let ctl = Ctl::new();
    let clone_pos = sc.get("clone_pos").and_then(|x| x.as_u64()).unwrap_or(0) as u8;
    let base = ZipArchive::new(Yielding { data: Arc::new(bytes.clone()), pos: 0, rng: 0x9E3779B97F4A7C15, every, ctl: ctl.clone(), id: 0, clone_pos });
    let mut m = Map::new();
    m.insert("ev".into(), json!("CStart"));
    m.insert("L".into(), l);
    m.insert("handles".into(), json!(nh));
    m.insert("threads".into(), json!(sc.get("threads").and_then(|x| x.as_bool()).unwrap_or(false)));
    let base = match base {
        Ok(b) => {
            m.insert("r".into(), json!("ok"));
            push(&mut out, m);
            b
        }
        Err(e) => {
            m.insert("r".into(), json!(err_class(&e)));
            push(&mut out, m);
            return out;
        }
    };
    if !sc.get("threads").and_then(|x| x.as_bool()).unwrap_or(false) {
        // one thread, prescribed interleaving
        let r = catch_unwind(AssertUnwindSafe(|| {
            let mut hs: Vec<Handle> = (0..nh)
                .map(|_| Handle { ar: Box::leak(Box::new(base.clone())), file: None })
                .collect();
            let mut evs = vec![];
            // the reader ids of the handles: clones of `base` were numbered in creation order
            let first_id = ctl.next_id.load(std::sync::atomic::Ordering::SeqCst) - nh;
            let hsp: *mut Vec<Handle> = &mut hs;
            for st in sc["steps"].as_array().cloned().unwrap_or_default() {
                let h = st["h"].as_u64().unwrap_or(0) as usize % nh;
                let nested: std::sync::Arc<std::sync::Mutex<Vec<Map<String, Value>>>> = Default::default();
                if let Some(k) = st.get("fault_at").and_then(|x| x.as_u64()) {
                    ctl.arm(first_id + h, k, true, None);
                } else if let Some(hook) = st.get("hook") {
                    // while handle h is inside this call, at its k-th I/O operation, other handles run `steps`
                    let steps = hook["steps"].as_array().cloned().unwrap_or_default();
                    let sink = nested.clone();
                    let hp = hsp as usize;
                    let act: Box<dyn FnMut() + Send> = Box::new(move || {
                        // SAFETY (harness only): the nested steps only touch handles other than h
                        let hs2: &mut Vec<Handle> = unsafe { &mut *(hp as *mut Vec<Handle>) };
                        for ns in &steps {
                            let g = ns["h"].as_u64().unwrap_or(0) as usize % hs2.len();
                            if g != h {
                                let e = step(&mut hs2[g], g, ns);
                                sink.lock().unwrap().push(e);
                            }
                        }
                    });
                    ctl.arm(first_id + h, hook["at"].as_u64().unwrap_or(0), false, Some(act));
                }
                if st["op"].as_str() == Some("clone_from") {
                    // handle h is replaced by a clone of handle g's archive taken NOW (whatever g has done so far)
                    let g = st["g"].as_u64().unwrap_or(0) as usize % nh;
                    let hs2: &mut Vec<Handle> = unsafe { &mut *hsp };
                    hs2[h].file = None;
                    let c: ZipArchive<Yielding> = (*hs2[g].ar).clone();
                    hs2[h] = Handle { ar: Box::leak(Box::new(c)), file: None };
                    let mut m = Map::new();
                    m.insert("ev".into(), json!("CClone"));
                    m.insert("h".into(), json!(h + 1));
                    m.insert("g".into(), json!(g + 1));
                    m.insert("r".into(), json!("ok"));
                    evs.push(m);
                    continue;
                }
                let e = step(unsafe { &mut (&mut *hsp)[h] }, h, &st);
                ctl.disarm();
                evs.extend(nested.lock().unwrap().drain(..));
                evs.push(e);
            }
            for h in hs.iter_mut() {
                h.file = None;
            }
            evs
        }));
        match r {
            Ok(evs) => {
                for e in evs {
                    push(&mut out, e);
                }
            }
            Err(p) => {
                let mut m = Map::new();
                m.insert("ev".into(), json!("CPanic"));
                m.insert("msg".into(), json!(panic_msg(&p)));
                push(&mut out, m);
            }
        }
    } else {
        threads_run(sc, &base, &mut out, &mut push);
    }
    out
}

pub fn main_cexec(args: &[String]) -> i32 {
    use std::io::Write;
    use std::sync::atomic::{AtomicU64, Ordering};
    let inp = std::fs::read_to_string(&args[0]).expect("read scenarios");
    let out = Arc::new(std::sync::Mutex::new(std::io::BufWriter::new(std::fs::File::create(&args[1]).expect("create trace"))));
    std::panic::set_hook(Box::new(|_| {}));
    // a scenario that makes no progress for 30 s (handles blocking each other - a lock shared between clones and taken while
    // another handle runs) is recorded as CStall and ends the run: a stall is an observation, not tool trouble
    let progress = Arc::new(AtomicU64::new(0));
    let current = Arc::new(std::sync::Mutex::new(String::new()));
    {
        let (progress, current, out) = (progress.clone(), current.clone(), out.clone());
        std::thread::spawn(move || {
            let mut last = (0u64, std::time::Instant::now());
            loop {
                std::thread::sleep(std::time::Duration::from_millis(500));
                let p = progress.load(Ordering::SeqCst);
                if p != last.0 {
                    last = (p, std::time::Instant::now());
                } else if last.1.elapsed() > std::time::Duration::from_secs(30) {
                    let sc = current.lock().map(|s| s.clone()).unwrap_or_default();
                    if let Ok(mut o) = out.lock() {
                        let _ = writeln!(o, "{}", json!({"ev": "Reset", "sc": sc}));
                        let _ = writeln!(o, "{}", json!({"ev": "CStall", "sc": sc, "r": "stall"}));
                        let _ = o.flush();
                    }
                    eprintln!("cexec: scenario {} stalled", sc);
                    std::process::exit(0);
                }
            }
        });
    }
    let mut n = 0;
    for line in inp.lines() {
        if line.trim().is_empty() {
            continue;
        }
        let sc: Value = serde_json::from_str(line).expect("scenario json");
        *current.lock().unwrap() = sc["sc"].as_str().unwrap_or("?").to_string();
        let evs = run(&sc);
        let mut o = out.lock().unwrap();
        for e in evs {
            writeln!(o, "{}", e).unwrap();
        }
        drop(o);
        progress.fetch_add(1, Ordering::SeqCst);
        n += 1;
    }
    out.lock().unwrap().flush().unwrap();
    eprintln!("cexec: {} scenarios", n);
    0
}
