//! C18: zip::DateTime against DosTime.tla.
//!  * `sweep`: all 2^16 date words x (every `tstep`-th of) all 2^16 time words through from_msdos,
//!    the six accessors, datepart/timepart, to_time and TryFrom<OffsetDateTime>, compared with the
//!    tables TLC wrote from DosTime.tla (spec -> impl, exhaustive).
//!  * case lists (ctor / words / tryfrom / archive round trips) logged as events for Trace_DosTime.
use crate::lexer;
use crate::util::*;
use serde_json::{json, Value};
use std::io::{Cursor, Read, Write};
use std::panic::{catch_unwind, AssertUnwindSafe};
use time::OffsetDateTime;
use zip::write::FileOptions;
use zip::{DateTime, ZipArchive, ZipWriter};

fn fields(dt: &DateTime) -> Value {
    json!([dt.year(), dt.month(), dt.day(), dt.hour(), dt.minute(), dt.second()])
}

/// (days since 1970-01-01, second of day) of a UTC calendar moment
fn days_sod(o: &OffsetDateTime) -> (i64, i64) {
    let ts = o.unix_timestamp();
    (ts.div_euclid(86400), ts.rem_euclid(86400))
}

fn words_event(sc: &str, d: u16, t: u16) -> Value {
    let r = catch_unwind(|| {
        let dt = DateTime::from_msdos(d, t);
        let mut e = json!({"ev": "TWords", "sc": sc, "d": d, "t": t, "f": fields(&dt), "dp": dt.datepart(), "tp": dt.timepart(),
                           "tt": "err", "days": 0, "sod": 0, "back": "na", "bf": []});
        if let Ok(o) = dt.to_time() {
            let (days, sod) = days_sod(&o);
            e["tt"] = json!("ok");
            e["days"] = json!(days);
            e["sod"] = json!(sod);
            e["utc"] = json!(o.offset().is_utc());
            match DateTime::try_from(o) {
                Ok(b) => {
                    e["back"] = json!("ok");
                    e["bf"] = fields(&b);
                }
                Err(_) => e["back"] = json!("err"),
            }
        }
        e
    });
    r.unwrap_or_else(|p| json!({"ev": "TWords", "sc": sc, "d": d, "t": t, "tt": "panic", "msg": panic_msg(&p)}))
}

fn ctor_event(sc: &str, a: &[u64]) -> Value {
    let (y, mo, d, h, mi, s) = (a[0] as u16, a[1] as u8, a[2] as u8, a[3] as u8, a[4] as u8, a[5] as u8);
    let r = catch_unwind(|| match DateTime::from_date_and_time(y, mo, d, h, mi, s) {
        Ok(dt) => {
            let (dp, tp) = (dt.datepart(), dt.timepart());
            let g = DateTime::from_msdos(dp, tp);
            let tt = match dt.to_time() {
                Ok(o) => {
                    let (days, sod) = days_sod(&o);
                    json!({"r": "ok", "days": days, "sod": sod})
                }
                Err(_) => json!({"r": "err", "days": 0, "sod": 0}),
            };
            json!({"r": "ok", "f": fields(&dt), "dp": dp, "tp": tp, "g": fields(&g), "tt": tt})
        }
        Err(()) => json!({"r": "err", "f": [], "dp": 0, "tp": 0, "g": [], "tt": {"r": "na", "days": 0, "sod": 0}}),
    });
    let mut e = r.unwrap_or_else(|p| json!({"r": "panic", "msg": panic_msg(&p)}));
    e["ev"] = json!("TCtor");
    e["sc"] = json!(sc);
    e["a"] = json!(a);
    e
}

fn tryfrom_event(sc: &str, days: i64, sod: i64) -> Value {
    tryfrom_event_off(sc, days, sod, 0)
}

/// the same calendar fields (day number `days`, second of day `sod`) presented in a zone `offh` hours from UTC: the conversion takes
/// the fields as the caller's clock shows them (a DOS time has no zone), so the expectation does not depend on the offset
fn tryfrom_event_off(sc: &str, days: i64, sod: i64, offh: i8) -> Value {
    let r = catch_unwind(move || {
        let o = match OffsetDateTime::from_unix_timestamp(days * 86400 + sod - (offh as i64) * 3600) {
            Ok(o) => o,
            Err(_) => return json!({"r": "unrepresentable"}),
        };
        let o = if offh != 0 {
            match time::UtcOffset::from_hms(offh, 0, 0).ok().and_then(|z| o.checked_to_offset(z)) {
                Some(o) => o,
                None => return json!({"r": "unrepresentable"}),
            }
        } else {
            o
        };
        match DateTime::try_from(o) {
            Ok(dt) => {
                let tt = match dt.to_time() {
                    Ok(o2) => {
                        let (d2, s2) = days_sod(&o2);
                        json!({"r": "ok", "days": d2, "sod": s2})
                    }
                    Err(_) => json!({"r": "err", "days": 0, "sod": 0}),
                };
                #[allow(deprecated)]
                let legacy = DateTime::from_time(o).map(|x| fields(&x)).unwrap_or(json!([]));
                json!({"r": "ok", "f": fields(&dt), "tt": tt, "legacy": legacy})
            }
            Err(_) => {
                #[allow(deprecated)]
                let legacy = DateTime::from_time(o).map(|x| fields(&x)).unwrap_or(json!([]));
                json!({"r": "err", "f": [], "tt": {"r": "na", "days": 0, "sod": 0}, "legacy": legacy})
            }
        }
    });
    let mut e = r.unwrap_or_else(|p| json!({"r": "panic", "msg": panic_msg(&p)}));
    e["ev"] = json!("TTryFrom");
    e["sc"] = json!(sc);
    e["days"] = json!(days);
    e["sod"] = json!(sod);
    e
}

/// independent view of the date/time words of every entry (central and local), by the harness's own lexer
fn lexed_words(bytes: &[u8]) -> Option<Vec<(u64, u64, u64, u64)>> {
    let l = lexer::lex(&lexer::Mem(bytes), &lexer::LexOpts { allow_trailing: true, ..Default::default() });
    let cd = l.get("cd")?.as_array()?;
    let lf = l.get("lf")?.as_array()?;
    let mut out = vec![];
    for (c, f) in cd.iter().zip(lf.iter()) {
        out.push((c["date"].as_u64()?, c["time"].as_u64()?, f.get("date").and_then(|x| x.as_u64()).unwrap_or(99999), f.get("time").and_then(|x| x.as_u64()).unwrap_or(99999)));
    }
    Some(out)
}

/// write one stored entry per DateTime, return the archive bytes
fn write_with(dts: &[DateTime]) -> Result<Vec<u8>, String> {
    let mut w = ZipWriter::new(Cursor::new(Vec::new()));
    for (i, dt) in dts.iter().enumerate() {
        let o = FileOptions::default().compression_method(zip::CompressionMethod::Stored).last_modified_time(*dt);
        match i % 3 {
            0 => {
                w.start_file(format!("f{}", i), o).map_err(|e| e.to_string())?;
                w.write_all(b"t").map_err(|e| e.to_string())?;
            }
            1 => w.add_directory(format!("d{}", i), o).map_err(|e| e.to_string())?,
            _ => w.add_symlink(format!("l{}", i), "f0", o).map_err(|e| e.to_string())?,
        }
    }
    Ok(w.finish().map_err(|e| e.to_string())?.into_inner())
}

/// archive round trips: DateTimes (from the constructor or from arbitrary words) -> writer -> bytes
/// (lexed independently) -> reader -> last_modified(); then re-written from what was read and lexed again
fn archive_events(sc: &str, mode: &str, items: &[Value], out: &mut Vec<Value>) {
    let r = catch_unwind(AssertUnwindSafe(|| {
        let mut dts = vec![];
        let mut src = vec![];
        for it in items {
            let a: Vec<u64> = it.as_array().unwrap().iter().map(|x| x.as_u64().unwrap()).collect();
            if mode == "ctor" {
                if let Ok(dt) = DateTime::from_date_and_time(a[0] as u16, a[1] as u8, a[2] as u8, a[3] as u8, a[4] as u8, a[5] as u8) {
                    dts.push(dt);
                    src.push(a);
                }
            } else {
                dts.push(DateTime::from_msdos(a[0] as u16, a[1] as u16));
                src.push(a);
            }
        }
        let bytes = match write_with(&dts) {
            Ok(b) => b,
            Err(e) => return vec![json!({"ev": "TArchive", "sc": sc, "mode": mode, "r": "err", "msg": e})],
        };
        let lw = lexed_words(&bytes).unwrap_or_default();
        let mut ar = match ZipArchive::new(Cursor::new(&bytes[..])) {
            Ok(a) => a,
            Err(e) => return vec![json!({"ev": "TArchive", "sc": sc, "mode": mode, "r": "err", "msg": e.to_string()})],
        };
        let mut evs = vec![];
        let mut reread = vec![];
        // the streaming reader takes the words from the local headers
        let mut streamed = vec![];
        {
            let mut cur = Cursor::new(&bytes[..]);
            while let Ok(Some(f)) = zip::read::read_zipfile_from_stream(&mut cur) {
                streamed.push(fields(&f.last_modified()));
            }
        }
        for i in 0..ar.len() {
            let f = ar.by_index(i).unwrap();
            let lm = f.last_modified();
            reread.push(lm);
            let (cd, ct, ld, lt) = lw.get(i).cloned().unwrap_or((99999, 99999, 99999, 99999));
            evs.push(json!({"ev": "TArchive", "sc": sc, "mode": mode, "r": "ok", "a": src[i], "cd": cd, "ct": ct, "ld": ld, "lt": lt,
                            "f": fields(&lm), "sf": streamed.get(i).cloned().unwrap_or(json!([0, 0, 0, 0, 0, 0])), "n": ar_len_hint(dts.len())}));
        }
        // a timestamp read from an archive is re-written unchanged (writer and raw copy)
        let again = write_with(&reread).unwrap_or_default();
        let lw2 = lexed_words(&again).unwrap_or_default();
        let mut raw = ZipWriter::new(Cursor::new(Vec::new()));
        for i in 0..ar.len() {
            let f = ar.by_index_raw(i).unwrap();
            raw.raw_copy_file(f).unwrap();
        }
        let rawb = raw.finish().map(|c| c.into_inner()).unwrap_or_default();
        let lw3 = lexed_words(&rawb).unwrap_or_default();
        for i in 0..lw.len() {
            let w2 = lw2.get(i).cloned().unwrap_or((99999, 99999, 99999, 99999));
            let w3 = lw3.get(i).cloned().unwrap_or((99999, 99999, 99999, 99999));
            evs.push(json!({"ev": "TRewrite", "sc": sc, "cd": lw[i].0, "ct": lw[i].1, "cd2": w2.0, "ct2": w2.1, "ld2": w2.2, "lt2": w2.3,
                            "cd3": w3.0, "ct3": w3.1, "ld3": w3.2, "lt3": w3.3}));
        }
        evs
    }));
    match r {
        Ok(v) => out.extend(v),
        Err(p) => out.push(json!({"ev": "TArchive", "sc": sc, "mode": mode, "r": "panic", "msg": panic_msg(&p)})),
    }
}
fn ar_len_hint(n: usize) -> usize {
    n
}

/// a foreign archive (hex): what last_modified() reports per entry next to the lexed words
fn foreign_events(sc: &str, bytes: &[u8], out: &mut Vec<Value>) {
    let lw = lexed_words(bytes).unwrap_or_default();
    let r = catch_unwind(AssertUnwindSafe(|| {
        let mut evs = vec![];
        let mut ar = match ZipArchive::new(Cursor::new(bytes)) {
            Ok(a) => a,
            Err(e) => return vec![json!({"ev": "TForeign", "sc": sc, "r": "err", "msg": e.to_string()})],
        };
        let mut reread = vec![];
        for i in 0..ar.len() {
            let mut f = ar.by_index(i).unwrap();
            let lm = f.last_modified();
            let mut sink = vec![];
            let _ = f.read_to_end(&mut sink);
            reread.push(lm);
            let (cd, ct, _, _) = lw.get(i).cloned().unwrap_or((99999, 99999, 0, 0));
            evs.push(json!({"ev": "TForeign", "sc": sc, "r": "ok", "cd": cd, "ct": ct, "f": fields(&lm), "dp": lm.datepart(), "tp": lm.timepart()}));
        }
        let again = write_with(&reread).unwrap_or_default();
        let lw2 = lexed_words(&again).unwrap_or_default();
        // ... and through a raw copy (foreign entries may carry no Unix mode, other host systems, odd attributes)
        let mut raw = ZipWriter::new(Cursor::new(Vec::new()));
        for i in 0..ar.len() {
            let f = ar.by_index_raw(i).unwrap();
            raw.raw_copy_file(f).unwrap();
        }
        let rawb = raw.finish().map(|c| c.into_inner()).unwrap_or_default();
        let lw3 = lexed_words(&rawb).unwrap_or_default();
        for i in 0..lw.len() {
            let w2 = lw2.get(i).cloned().unwrap_or((99999, 99999, 99999, 99999));
            let w3 = lw3.get(i).cloned().unwrap_or((99999, 99999, 99999, 99999));
            evs.push(json!({"ev": "TRewrite", "sc": sc, "cd": lw[i].0, "ct": lw[i].1, "cd2": w2.0, "ct2": w2.1, "ld2": w2.2, "lt2": w2.3,
                            "cd3": w3.0, "ct3": w3.1, "ld3": w3.2, "lt3": w3.3}));
        }
        evs
    }));
    match r {
        Ok(v) => out.extend(v),
        Err(p) => out.push(json!({"ev": "TForeign", "sc": sc, "r": "panic", "msg": panic_msg(&p)})),
    }
}

/// the exhaustive sweep; returns a summary event
fn sweep(sc: &str, tables: &str, tstep: usize, tt_step: usize) -> Value {
    let tv: Value = serde_json::from_str(&std::fs::read_to_string(tables).expect("tables")).expect("tables json");
    let conv = |k: &str| -> Vec<[i64; 4]> {
        tv[k].as_array().unwrap().iter().map(|r| {
            let a = r.as_array().unwrap();
            [a[0].as_i64().unwrap(), a[1].as_i64().unwrap(), a[2].as_i64().unwrap(), a[3].as_i64().unwrap()]
        }).collect()
    };
    let dtab = std::sync::Arc::new(conv("date"));
    let ttab = std::sync::Arc::new(conv("time"));
    assert!(dtab.len() == 65536 && ttab.len() == 65536);
    let nthreads = std::thread::available_parallelism().map(|n| n.get()).unwrap_or(4).min(16);
    let mut handles = vec![];
    for th in 0..nthreads {
        let (dtab, ttab) = (dtab.clone(), ttab.clone());
        handles.push(std::thread::spawn(move || {
            let (mut pairs, mut bad, mut ttchk, mut ttok, mut panics) = (0u64, 0u64, 0u64, 0u64, 0u64);
            let mut first: Vec<Value> = vec![];
            let mut d = th;
            while d < 65536 {
                let dr = dtab[d];
                let mut t = 0usize;
                while t < 65536 {
                    let tr = ttab[t];
                    let dt = DateTime::from_msdos(d as u16, t as u16);
                    pairs += 1;
                    let ok = dt.year() as i64 == dr[0] && dt.month() as i64 == dr[1] && dt.day() as i64 == dr[2]
                        && dt.hour() as i64 == tr[0] && dt.minute() as i64 == tr[1] && dt.second() as i64 == tr[2]
                        && dt.datepart() as usize == d && dt.timepart() as usize == t;
                    let mut ok2 = true;
                    if (t / tstep) % tt_step == 0 {
                        ttchk += 1;
                        let want_ok = dr[3] >= 0 && tr[3] >= 0;
                        match catch_unwind(|| dt.to_time()) {
                            Err(_) => {
                                panics += 1;
                                ok2 = false;
                            }
                            Ok(Ok(o)) => {
                                ttok += 1;
                                let ts = o.unix_timestamp();
                                ok2 = want_ok && ts == dr[3] * 86400 + tr[3];
                                if ok2 {
                                    match DateTime::try_from(o) {
                                        Ok(b) => {
                                            ok2 = b.datepart() as usize == d && b.timepart() as usize == t && b.second() == dt.second();
                                        }
                                        Err(_) => ok2 = false,
                                    }
                                }
                            }
                            Ok(Err(_)) => ok2 = !want_ok,
                        }
                    }
                    if !(ok && ok2) {
                        bad += 1;
                        if first.len() < 3 {
                            first.push(json!({"d": d, "t": t, "f": fields(&dt), "dp": dt.datepart(), "tp": dt.timepart(), "fields_ok": ok, "calendar_ok": ok2}));
                        }
                    }
                    t += tstep;
                }
                d += nthreads;
            }
            (pairs, bad, ttchk, ttok, panics, first)
        }));
    }
    let (mut pairs, mut bad, mut ttchk, mut ttok, mut panics) = (0u64, 0u64, 0u64, 0u64, 0u64);
    let mut first = vec![];
    for h in handles {
        match h.join() {
            Ok((p, b, c, k, pn, f)) => {
                pairs += p;
                bad += b;
                ttchk += c;
                ttok += k;
                panics += pn;
                first.extend(f);
            }
            Err(_) => panics += 1,
        }
    }
    first.truncate(5);
    json!({"ev": "TSweep", "sc": sc, "dwords": 65536, "twords": pairs / 65536, "tstep": tstep, "mismatches": bad.min(1_000_000_000),
           "to_time_checked_k": ttchk / 1000, "to_time_ok_k": ttok / 1000, "panics": panics.min(1_000_000_000), "first": first})
}

/// the deprecated `*_from_path` calls: which entry name ends up in the archive for a given path
/// (read back by the independent lexer); judged by Trace_Path (PathSan!FromPath)
#[allow(deprecated)]
pub fn main_fpexec(args: &[String]) -> i32 {
    let cases = std::fs::read_to_string(&args[0]).expect("cases");
    let mut f = std::io::BufWriter::new(std::fs::File::create(&args[1]).expect("trace"));
    std::panic::set_hook(Box::new(|_| {}));
    for line in cases.lines().filter(|l| !l.trim().is_empty()) {
        let c: Value = serde_json::from_str(line).expect("case json");
        let sc = c["sc"].as_str().unwrap_or("?");
        writeln!(f, "{}", json!({"ev": "Reset", "sc": sc})).unwrap();
        for it in c["paths"].as_array().cloned().unwrap_or_default() {
            let raw = unhex(it["hex"].as_str().unwrap_or(""));
            let dir = it["dir"].as_bool().unwrap_or(false);
            let r = catch_unwind(AssertUnwindSafe(|| -> Result<Vec<u8>, String> {
                use std::os::unix::ffi::OsStrExt;
                let p = std::path::Path::new(std::ffi::OsStr::from_bytes(&raw));
                let mut w = ZipWriter::new(Cursor::new(Vec::new()));
                let o = FileOptions::default().compression_method(zip::CompressionMethod::Stored);
                if dir {
                    w.add_directory_from_path(p, o).map_err(|e| e.to_string())?;
                } else {
                    w.start_file_from_path(p, o).map_err(|e| e.to_string())?;
                }
                let b = w.finish().map_err(|e| e.to_string())?.into_inner();
                let l = lexer::lex(&lexer::Mem(&b), &lexer::LexOpts::default());
                let h = l["cd"][0]["rawhex"].as_str().ok_or("no entry")?.to_string();
                Ok(unhex(&h))
            }));
            let e = match r {
                Ok(Ok(got)) => json!({"ev": "WFromPath", "sc": sc, "raw": raw, "dir": dir, "r": "ok", "got": got}),
                Ok(Err(m)) => json!({"ev": "WFromPath", "sc": sc, "raw": raw, "dir": dir, "r": "err", "got": [], "msg": m}),
                Err(p) => json!({"ev": "WFromPath", "sc": sc, "raw": raw, "dir": dir, "r": "panic", "got": [], "msg": panic_msg(&p)}),
            };
            writeln!(f, "{}", e).unwrap();
        }
    }
    0
}

pub fn main_texec(args: &[String]) -> i32 {
    let cases = std::fs::read_to_string(&args[0]).expect("cases");
    let mut out: Vec<Value> = vec![];
    std::panic::set_hook(Box::new(|_| {}));
    for line in cases.lines().filter(|l| !l.trim().is_empty()) {
        let c: Value = serde_json::from_str(line).expect("case json");
        let sc = c["sc"].as_str().unwrap_or("?").to_string();
        out.push(json!({"ev": "Reset", "sc": sc}));
        match c["kind"].as_str().unwrap_or("") {
            "ctor" => {
                for a in c["args"].as_array().unwrap() {
                    let a: Vec<u64> = a.as_array().unwrap().iter().map(|x| x.as_u64().unwrap()).collect();
                    out.push(ctor_event(&sc, &a));
                }
            }
            "words" => {
                for w in c["w"].as_array().unwrap() {
                    out.push(words_event(&sc, w[0].as_u64().unwrap() as u16, w[1].as_u64().unwrap() as u16));
                }
            }
            "tryfrom" => {
                for z in c["z"].as_array().unwrap() {
                    out.push(tryfrom_event(&sc, z[0].as_i64().unwrap(), z[1].as_i64().unwrap()));
                    // every 16th moment also as shown by clocks east and west of UTC
                    let dz = z[0].as_i64().unwrap();
                    if out.len() % 16 == 0 || (dz - 3652).abs() <= 1 || (dz - 50403).abs() <= 1 {
                        for offh in [1i8, -1, 14, -12] {
                            let mut e = tryfrom_event_off(&sc, z[0].as_i64().unwrap(), z[1].as_i64().unwrap(), offh);
                            e["off"] = json!(offh);
                            out.push(e);
                        }
                    }
                }
            }
            "archive_ctor" => archive_events(&sc, "ctor", c["args"].as_array().unwrap(), &mut out),
            "archive_words" => archive_events(&sc, "words", c["w"].as_array().unwrap(), &mut out),
            "foreign" => foreign_events(&sc, &unhex(c["hex"].as_str().unwrap()), &mut out),
            "sweep" => out.push(sweep(&sc, c["tables"].as_str().unwrap(), c["tstep"].as_u64().unwrap_or(1) as usize, c["tt_step"].as_u64().unwrap_or(1) as usize)),
            _ => {}
        }
    }
    let mut f = std::io::BufWriter::new(std::fs::File::create(&args[1]).expect("trace"));
    for e in out {
        writeln!(f, "{}", e).unwrap();
    }
    0
}
