//! C08: archives beyond the 16/32-bit limits at the REAL thresholds, through a sparse in-memory
//! store (only pages that hold a non-zero byte are kept), so multi-GiB entries and offsets cost
//! time but not memory.  Every quantity is logged exactly as a two-limb number [v div 2^24, v mod 2^24]
//! (spec module Big.tla); Trace_Zip64 judges.
use crate::lexer::{self, big_pair, LexOpts, Src};
use crate::rexec::err_class;
use crate::util::*;
use serde_json::{json, Map, Value};
use std::cell::RefCell;
use std::collections::HashMap;
use std::io::{Read, Seek, SeekFrom, Write};
use std::panic::{catch_unwind, AssertUnwindSafe};
use std::rc::Rc;
use zip::write::FileOptions;
use zip::{CompressionMethod, ZipArchive, ZipWriter};

const PAGE: u64 = 1 << 16;

#[derive(Default)]
pub struct Store {
    pages: HashMap<u64, Box<[u8]>>,
    len: u64,
}
impl Store {
    fn write_at(&mut self, mut pos: u64, mut buf: &[u8]) {
        if pos + buf.len() as u64 > self.len {
            self.len = pos + buf.len() as u64;
        }
        while !buf.is_empty() {
            let pg = pos / PAGE;
            let off = (pos % PAGE) as usize;
            let n = buf.len().min(PAGE as usize - off);
            let chunk = &buf[..n];
            let zero = chunk.iter().all(|&b| b == 0);
            match self.pages.get_mut(&pg) {
                Some(p) => p[off..off + n].copy_from_slice(chunk),
                None => {
                    if !zero {
                        let mut p = vec![0u8; PAGE as usize].into_boxed_slice();
                        p[off..off + n].copy_from_slice(chunk);
                        self.pages.insert(pg, p);
                    }
                }
            }
            pos += n as u64;
            buf = &buf[n..];
        }
    }
    fn read_at(&self, mut pos: u64, buf: &mut [u8]) -> usize {
        if pos >= self.len {
            return 0;
        }
        let total = (buf.len() as u64).min(self.len - pos) as usize;
        let mut done = 0usize;
        while done < total {
            let pg = pos / PAGE;
            let off = (pos % PAGE) as usize;
            let n = (total - done).min(PAGE as usize - off);
            match self.pages.get(&pg) {
                Some(p) => buf[done..done + n].copy_from_slice(&p[off..off + n]),
                None => buf[done..done + n].iter_mut().for_each(|b| *b = 0),
            }
            done += n;
            pos += n as u64;
        }
        total
    }
}
#[derive(Clone)]
pub struct Sparse {
    st: Rc<RefCell<Store>>,
    pos: u64,
}
impl Sparse {
    fn new() -> Sparse {
        Sparse { st: Rc::new(RefCell::new(Store::default())), pos: 0 }
    }
    fn view(&self) -> Sparse {
        Sparse { st: self.st.clone(), pos: 0 }
    }
}
impl Write for Sparse {
    fn write(&mut self, buf: &[u8]) -> std::io::Result<usize> {
        self.st.borrow_mut().write_at(self.pos, buf);
        self.pos += buf.len() as u64;
        Ok(buf.len())
    }
    fn flush(&mut self) -> std::io::Result<()> {
        Ok(())
    }
}
impl Read for Sparse {
    fn read(&mut self, buf: &mut [u8]) -> std::io::Result<usize> {
        let n = self.st.borrow().read_at(self.pos, buf);
        self.pos += n as u64;
        Ok(n)
    }
}
impl Seek for Sparse {
    fn seek(&mut self, s: SeekFrom) -> std::io::Result<u64> {
        let len = self.st.borrow().len as i128;
        let np: i128 = match s {
            SeekFrom::Start(p) => p as i128,
            SeekFrom::End(d) => len + d as i128,
            SeekFrom::Current(d) => self.pos as i128 + d as i128,
        };
        if np < 0 {
            return Err(std::io::Error::new(std::io::ErrorKind::InvalidInput, "seek before start"));
        }
        self.pos = np as u64;
        Ok(self.pos)
    }
}
impl Src for Sparse {
    fn len(&self) -> u64 {
        self.st.borrow().len
    }
    fn get(&self, off: u64, n: usize) -> Option<Vec<u8>> {
        let l = self.st.borrow().len;
        if off.checked_add(n as u64)? > l {
            return None;
        }
        let mut v = vec![0u8; n];
        self.st.borrow().read_at(off, &mut v);
        Some(v)
    }
    fn crc_range(&self, off: u64, n: u64) -> Option<u32> {
        let l = self.st.borrow().len;
        if off.checked_add(n)? > l {
            return None;
        }
        let mut c = Crc::new();
        let mut buf = vec![0u8; 1 << 20];
        let mut p = off;
        while p < off + n {
            let k = ((off + n - p) as usize).min(buf.len());
            self.st.borrow().read_at(p, &mut buf[..k]);
            c.update(&buf[..k]);
            p += k as u64;
        }
        Some(c.finish())
    }
}

fn method_of(m: u64) -> CompressionMethod {
    match m {
        8 => CompressionMethod::Deflated,
        93 => CompressionMethod::Zstd,
        _ => CompressionMethod::Stored,
    }
}
fn rclass<T>(r: &Result<T, zip::result::ZipError>) -> String {
    match r {
        Ok(_) => "ok".into(),
        Err(_) => "err".into(),
    }
}

/// convert the u64 lists of ZIP64 records ("z") inside a lexed record to two-limb numbers
fn fix_z(rec: &mut Value) {
    if let Some(x) = rec.get_mut("extra").and_then(|x| x.as_array_mut()) {
        for r in x.iter_mut() {
            if let Some(z) = r.get("zx").and_then(|z| z.as_array()).cloned() {
                r["z"] = json!(z.iter().map(|v| big_pair(u64::from_str_radix(v.as_str().unwrap_or("0"), 16).unwrap_or(0))).collect::<Vec<_>>());
            }
        }
    }
}

/// what the reader reports for entry i (0-based), exactly
fn reader_view(ar: &mut ZipArchive<Sparse>, i: usize) -> Value {
    match ar.by_index_raw(i) {
        Err(e) => json!({"r": err_class(&e)}),
        Ok(f) => json!({"r": "ok", "name": abs_name(f.name().as_bytes()), "usize": big_pair(f.size()), "csize": big_pair(f.compressed_size()),
                        "hdr": big_pair(f.header_start()), "dstart": big_pair(f.data_start()), "chs": big_pair(f.central_header_start()),
                        "crc": hex32(f.crc32()), "method": crate::wexec::code_of(f.compression())}),
    }
}

/// read entry i fully: length, whether everything between the head and tail markers is zero,
/// CRC of head and tail marker regions (the driver knows the payload shape)
fn read_back(ar: &mut ZipArchive<Sparse>, i: usize, head: usize, tail: usize) -> Value {
    let mut f = match ar.by_index(i) {
        Err(e) => return json!({"r": err_class(&e)}),
        Ok(f) => f,
    };
    let total = f.size();
    let mut buf = vec![0u8; 1 << 20];
    let (mut n, mut zeros_ok) = (0u64, true);
    let mut headb: Vec<u8> = vec![];
    let mut tailb: Vec<u8> = vec![];
    loop {
        match f.read(&mut buf) {
            Ok(0) => break,
            Ok(k) => {
                for (j, &b) in buf[..k].iter().enumerate() {
                    let p = n + j as u64;
                    if p < head as u64 {
                        headb.push(b);
                    } else if p + (tail as u64) >= total {
                        tailb.push(b);
                    } else if b != 0 {
                        zeros_ok = false;
                    }
                }
                n += k as u64;
            }
            Err(e) => return json!({"r": "err", "msg": e.to_string(), "len": big_pair(n)}),
        }
    }
    json!({"r": "ok", "len": big_pair(n), "zeros_ok": zeros_ok, "head": hexs(&headb), "tail": hexs(&tailb)})
}

fn archive_event(sc: &Value, id: &str, store: &Sparse, out: &mut Vec<Value>) {
    let sel_spec: Vec<i64> = sc["select"].as_array().map(|a| a.iter().map(|x| x.as_i64().unwrap()).collect()).unwrap_or_default();
    let l = catch_unwind(AssertUnwindSafe(|| lexer::lex(&store.view(), &LexOpts { pair: true, decode_limit: 1 << 20, allow_trailing: sc["allow_trailing"].as_bool().unwrap_or(false), ..Default::default() })));
    let mut l = match l {
        Ok(v) => v,
        Err(_) => json!({"ok": false, "why": "lexer panicked"}),
    };
    let mut m = Map::new();
    m.insert("ev".into(), json!("ZArch"));
    m.insert("sc".into(), json!(id));
    m.insert("expect".into(), sc.get("expect").cloned().unwrap_or(json!({})));
    let n = l.get("cd").and_then(|c| c.as_array()).map(|a| a.len()).unwrap_or(0);
    m.insert("lex_ok".into(), json!(l["ok"].as_bool().unwrap_or(false)));
    m.insert("lex_why".into(), l.get("why").cloned().unwrap_or(json!("")));
    let mut sel: Vec<usize> = vec![];
    for s in sel_spec {
        let k = if s > 0 { s as usize } else { (n as i64 + 1 + s).max(0) as usize };
        if k >= 1 && k <= n && !sel.contains(&k) {
            sel.push(k);
        }
    }
    // aggregate facts over ALL entries, computed from the lexed records
    let mut names = Crc::new();
    let (mut all_lf_ok, mut all_exact) = (true, true);
    if let (Some(cd), Some(lf)) = (l.get("cd").and_then(|x| x.as_array()), l.get("lf").and_then(|x| x.as_array())) {
        for (c, f) in cd.iter().zip(lf.iter()) {
            names.update(c["name"]["id"].as_str().unwrap_or("").as_bytes());
            all_lf_ok &= f["ok"].as_bool().unwrap_or(false) && f["name"]["id"] == c["name"]["id"];
            all_exact &= c["z64_exact"].as_bool().unwrap_or(false);
        }
    }
    m.insert("n".into(), json!(n));
    m.insert("names_digest".into(), json!(hex32(names.finish())));
    m.insert("all_lf_ok".into(), json!(all_lf_ok));
    m.insert("all_z64_exact".into(), json!(all_exact));
    for k in ["len", "prefix", "eocd", "z64", "cd_start", "cd_end", "gaps", "overlaps"] {
        m.insert(k.into(), l.get(k).cloned().unwrap_or(json!([])));
    }
    // the real reader on the same bytes
    let rd = catch_unwind(AssertUnwindSafe(|| ZipArchive::new(store.view())));
    let mut selv = vec![];
    match rd {
        Err(_) => {
            m.insert("reader".into(), json!({"r": "panic"}));
        }
        Ok(Err(e)) => {
            m.insert("reader".into(), json!({"r": err_class(&e)}));
        }
        Ok(Ok(mut ar)) => {
            let mut rn = Crc::new();
            let names: Vec<String> = (0..ar.len()).map(|i| ar.by_index_raw(i).map(|f| hid(f.name().as_bytes())).unwrap_or_default()).collect();
            for s in &names {
                rn.update(s.as_bytes());
            }
            m.insert("reader".into(), json!({"r": "ok", "len": ar.len(), "names_digest": hex32(rn.finish()), "offset": big_pair(ar.offset()),
                                             "comment": abs_name(ar.comment())}));
            for &k in &sel {
                let mut c = l["cd"][k - 1].take();
                let mut f = l["lf"][k - 1].take();
                fix_z(&mut c);
                fix_z(&mut f);
                let view = catch_unwind(AssertUnwindSafe(|| reader_view(&mut ar, k - 1))).unwrap_or(json!({"r": "panic"}));
                selv.push(json!({"i": k, "c": c, "l": f, "rd": view}));
            }
            m.insert("sel".into(), json!(selv));
            out.push(Value::Object(m));
            for r in sc["read"].as_array().cloned().unwrap_or_default() {
                let i = r["i"].as_u64().unwrap_or(1) as usize;
                let v = catch_unwind(AssertUnwindSafe(|| read_back(&mut ar, i - 1, r["head"].as_u64().unwrap_or(0) as usize, r["tail"].as_u64().unwrap_or(0) as usize)))
                    .unwrap_or(json!({"r": "panic"}));
                let mut e = v;
                e["ev"] = json!("ZRead");
                e["sc"] = json!(id);
                e["i"] = json!(i);
                e["expect"] = r.get("expect").cloned().unwrap_or(json!({}));
                out.push(e);
            }
            return;
        }
    }
    m.insert("sel".into(), json!(selv));
    out.push(Value::Object(m));
}

pub fn run(sc: &Value) -> Vec<Value> {
    let id = sc["sc"].as_str().unwrap_or("?").to_string();
    let mut out = vec![json!({"ev": "Reset", "sc": id})];
    let store = Sparse::new();
    if sc["kind"] == "foreign" {
        for seg in sc["segments"].as_array().cloned().unwrap_or_default() {
            let pos = seg[0].as_u64().unwrap();
            store.st.borrow_mut().write_at(pos, &unhex(seg[1].as_str().unwrap()));
        }
        let want = sc["len"].as_u64().unwrap_or(0);
        if store.st.borrow().len < want {
            store.st.borrow_mut().len = want;
        }
        archive_event(sc, &id, &store, &mut out);
        return out;
    }
    let r = catch_unwind(AssertUnwindSafe(|| {
        let mut evs: Vec<Value> = vec![];
        let mut w = std::mem::ManuallyDrop::new(ZipWriter::new(store.clone()));
        evs.push(json!({"ev": "ZNew", "sc": id}));
        let mut finished_ok = false;
        let zero = vec![0u8; 1 << 20];
        for op in sc["ops"].as_array().cloned().unwrap_or_default() {
            match op["op"].as_str().unwrap_or("") {
                "start" => {
                    let o = FileOptions::default().compression_method(method_of(op["method"].as_u64().unwrap_or(0))).large_file(op["large"].as_bool().unwrap_or(false));
                    let r = w.start_file(op["name"].as_str().unwrap_or("f"), o);
                    evs.push(json!({"ev": "ZStart", "sc": id, "large": op["large"].as_bool().unwrap_or(false), "r": rclass(&r)}));
                }
                // the same declaration through the other two ways of starting a file entry
                "start_aligned" | "start_extra" => {
                    let large = op["large"].as_bool().unwrap_or(false);
                    let o = FileOptions::default().compression_method(method_of(op["method"].as_u64().unwrap_or(0))).large_file(large);
                    let name = op["name"].as_str().unwrap_or("f");
                    let r = if op["op"] == "start_aligned" {
                        w.start_file_aligned(name, o, op["align"].as_u64().unwrap_or(64) as u16).map(|_| ())
                    } else {
                        w.start_file_with_extra_data(name, o).and_then(|_| w.end_extra_data()).map(|_| ())
                    };
                    evs.push(json!({"ev": "ZStart", "sc": id, "large": large, "r": rclass(&r)}));
                }
                "dir" => {
                    let r = w.add_directory(op["name"].as_str().unwrap_or("d"), FileOptions::default());
                    evs.push(json!({"ev": "ZStart", "sc": id, "large": false, "r": rclass(&r)}));
                }
                "zeros" => {
                    // head marker, zeros, tail marker: n bytes in total
                    let n = op["n"].as_u64().unwrap_or(0);
                    let head = unhex(op["head"].as_str().unwrap_or(""));
                    let tail = unhex(op["tail"].as_str().unwrap_or(""));
                    let mut acc = 0u64;
                    let mut res = "ok".to_string();
                    let mut put = |w: &mut ZipWriter<Sparse>, b: &[u8], acc: &mut u64, res: &mut String| {
                        if res == "ok" {
                            match w.write_all(b) {
                                Ok(()) => *acc += b.len() as u64,
                                Err(_) => *res = "err".to_string(),
                            }
                        }
                    };
                    put(&mut w, &head, &mut acc, &mut res);
                    let mut left = n.saturating_sub((head.len() + tail.len()) as u64);
                    while left > 0 && res == "ok" {
                        let k = left.min(zero.len() as u64) as usize;
                        put(&mut w, &zero[..k], &mut acc, &mut res);
                        left -= k as u64;
                    }
                    put(&mut w, &tail, &mut acc, &mut res);
                    evs.push(json!({"ev": "ZWrite", "sc": id, "req": big_pair(n), "accepted": big_pair(acc), "r": res}));
                }
                "data" => {
                    let b = bytes_of(&op["data"]);
                    let r = w.write_all(&b);
                    evs.push(json!({"ev": "ZWrite", "sc": id, "req": big_pair(b.len() as u64), "accepted": big_pair(if r.is_ok() { b.len() as u64 } else { 0 }),
                                    "r": if r.is_ok() { "ok" } else { "err" }}));
                }
                "bulk" => {
                    let count = op["count"].as_u64().unwrap_or(0);
                    let pre = op["prefix"].as_str().unwrap_or("e").to_string();
                    let data = bytes_of(&op["data"]);
                    let mut oks = 0u64;
                    for i in 0..count {
                        let o = FileOptions::default().compression_method(CompressionMethod::Stored);
                        let ok = if op["dirs_every"].as_u64().map_or(false, |d| d > 0 && i % d == 0) {
                            w.add_directory(format!("{}{}", pre, i), o).is_ok()
                        } else if let Some(xl) = op.get("cextra").and_then(|x| x.as_u64()) {
                            // a central-only extra record of xl bytes (zero body): makes the DIRECTORY large while the entries stay small
                            let mut rec = vec![0u8; xl as usize];
                            rec[0] = 0xef;
                            rec[1] = 0xbe;
                            rec[2..4].copy_from_slice(&((xl - 4) as u16).to_le_bytes());
                            w.start_file_with_extra_data(format!("{}{}", pre, i), o).is_ok() && w.end_local_start_central_extra_data().is_ok()
                                && w.write_all(&rec).is_ok() && w.end_extra_data().is_ok() && w.write_all(&data).is_ok()
                        } else {
                            w.start_file(format!("{}{}", pre, i), o).is_ok() && w.write_all(&data).is_ok()
                        };
                        if ok {
                            oks += 1;
                        }
                    }
                    evs.push(json!({"ev": "ZBulk", "sc": id, "count": count, "ok": oks}));
                }
                "rawcopy" => {
                    // raw copy of entry `idx` of a (sparse) source archive given as segments
                    let src = Sparse::new();
                    for seg in op["src"]["segments"].as_array().cloned().unwrap_or_default() {
                        src.st.borrow_mut().write_at(seg[0].as_u64().unwrap(), &unhex(seg[1].as_str().unwrap()));
                    }
                    let want = op["src"]["len"].as_u64().unwrap_or(0);
                    if src.st.borrow().len < want {
                        src.st.borrow_mut().len = want;
                    }
                    let mut e = json!({"ev": "ZRawCopy", "sc": id, "r": "err", "usize": big_pair(0), "csize": big_pair(0)});
                    if let Ok(mut ar) = ZipArchive::new(src.view()) {
                        if let Ok(f) = ar.by_index_raw(op["idx"].as_u64().unwrap_or(0) as usize) {
                            e["usize"] = big_pair(f.size());
                            e["csize"] = big_pair(f.compressed_size());
                            let r = w.raw_copy_file(f);
                            e["r"] = json!(rclass(&r));
                        }
                    }
                    evs.push(e);
                }
                "comment" => w.set_comment(String::from_utf8(bytes_of(&op["c"])).unwrap_or_default()),
                "finish" => {
                    let r = w.finish();
                    finished_ok = r.is_ok();
                    evs.push(json!({"ev": "ZFinish", "sc": id, "r": rclass(&r)}));
                }
                "append" => {
                    // continue the archive just finished (the store is shared): C13 at the real limits
                    match ZipWriter::new_append(store.view()) {
                        Ok(nw) => {
                            w = std::mem::ManuallyDrop::new(nw);
                            finished_ok = false;
                            evs.push(json!({"ev": "ZAppend", "sc": id, "r": "ok"}));
                        }
                        Err(_) => evs.push(json!({"ev": "ZAppend", "sc": id, "r": "err"})),
                    }
                }
                _ => {}
            }
        }
        (evs, finished_ok)
    }));
    match r {
        Ok((evs, fin)) => {
            out.extend(evs);
            if fin {
                archive_event(sc, &id, &store, &mut out);
            }
        }
        Err(p) => out.push(json!({"ev": "ZPanic", "sc": id, "msg": panic_msg(&p)})),
    }
    out
}

pub fn main_zexec(args: &[String]) -> i32 {
    let inp = std::fs::read_to_string(&args[0]).expect("read scenarios");
    let mut out = std::io::BufWriter::new(std::fs::File::create(&args[1]).expect("create trace"));
    std::panic::set_hook(Box::new(|_| {}));
    for line in inp.lines() {
        if line.trim().is_empty() {
            continue;
        }
        let sc: Value = serde_json::from_str(line).expect("scenario json");
        for e in run(&sc) {
            writeln!(out, "{}", e).unwrap();
        }
    }
    0
}
