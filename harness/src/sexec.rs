//! Executor for streaming-reader scenarios (C10): walks the bytes front to back through
//! `read_zipfile_from_stream` with a per-entry consumption plan, then through the visitor API.
use crate::eexec::Chunked;
use crate::lexer::{lex, LexOpts, Mem};
use crate::rexec::err_class;
use crate::util::*;
use serde_json::{json, Map, Value};
use std::io::Read;
use std::panic::{catch_unwind, AssertUnwindSafe};
use zip::read::ZipFile;
use zip::result::ZipResult;
use zip::unstable::stream::{ZipStreamFileMetadata, ZipStreamReader, ZipStreamVisitor};

fn view(m: &mut Map<String, Value>, f: &ZipFile) {
    m.insert("name".into(), abs_name(f.name().as_bytes()));
    m.insert("method".into(), json!(crate::wexec::code_of(f.compression())));
    m.insert("usize".into(), json!(f.size().min(2147483647)));
    m.insert("csize".into(), json!(f.compressed_size().min(2147483647)));
    m.insert("crc".into(), json!(hex32(f.crc32())));
    let lm = f.last_modified();
    m.insert("date".into(), json!(lm.datepart()));
    m.insert("time".into(), json!(lm.timepart()));
    m.insert("mode".into(), json!(f.unix_mode().map(|x| x as i64).unwrap_or(-1)));
    m.insert("is_dir".into(), json!(f.is_dir()));
}

struct V {
    evs: Vec<Map<String, Value>>,
    nfile: usize,
    nmeta: usize,
    read_all: bool,
}
impl ZipStreamVisitor for V {
    fn visit_file(&mut self, file: &mut ZipFile<'_>) -> ZipResult<()> {
        self.nfile += 1;
        let mut m = Map::new();
        m.insert("ev".into(), json!("SVisitFile"));
        m.insert("i".into(), json!(self.nfile));
        view(&mut m, file);
        if self.read_all {
            let mut buf = vec![];
            let r = file.read_to_end(&mut buf);
            m.insert("rc".into(), json!(if r.is_ok() { "ok" } else { "err" }));
            m.insert("content".into(), abs_bytes(&buf));
        }
        self.evs.push(m);
        // the sanitised paths of the entry as the front-to-back reader presents it (name taken from the LOCAL header)
        let mut p = crate::rexec::path_facts(file.name(), file.enclosed_name(), file.mangled_name());
        p.insert("ev".into(), json!("SPath"));
        p.insert("i".into(), json!(self.nfile));
        p.insert("from".into(), json!("local"));
        self.evs.push(p);
        Ok(())
    }
    fn visit_additional_metadata(&mut self, md: &ZipStreamFileMetadata) -> ZipResult<()> {
        self.nmeta += 1;
        let mut m = Map::new();
        m.insert("ev".into(), json!("SVisitMeta"));
        m.insert("i".into(), json!(self.nmeta));
        m.insert("name".into(), abs_name(md.name().as_bytes()));
        m.insert("rawname".into(), abs_name(md.name_raw()));
        m.insert("fcomment".into(), abs_name(md.comment().as_bytes()));
        m.insert("mode".into(), json!(md.unix_mode().map(|x| x as i64).unwrap_or(-1)));
        m.insert("is_dir".into(), json!(md.is_dir()));
        m.insert("nfile_so_far".into(), json!(self.nfile));
        self.evs.push(m);
        // the streaming metadata's own sanitising accessors (C06)
        let mut p = crate::rexec::path_facts(md.name(), md.enclosed_name(), md.mangled_name());
        p.insert("ev".into(), json!("SPath"));
        p.insert("i".into(), json!(self.nmeta));
        self.evs.push(p);
        Ok(())
    }
}

pub fn run(sc: &Value) -> Vec<Value> {
    let id = sc["sc"].as_str().unwrap_or("?").to_string();
    let mut out: Vec<Value> = vec![];
    let mut push = |mut m: Map<String, Value>| {
        m.insert("sc".into(), json!(id));
        out.push(Value::Object(m));
    };
    let bytes = unhex(sc["hex"].as_str().unwrap_or(""));
    let mut m = Map::new();
    m.insert("ev".into(), json!("Reset"));
    push(m);
    let l = catch_unwind(AssertUnwindSafe(|| lex(&Mem(&bytes), &LexOpts { allow_trailing: true, ..Default::default() })))
        .unwrap_or_else(|_| json!({"ok": false}));
    let plan: Vec<i64> = sc["plan"].as_array().map(|a| a.iter().map(|v| v.as_i64().unwrap_or(-1)).collect()).unwrap_or_default();
    let under = sc.get("under").cloned().unwrap_or(json!({}));
    let pcrc: Vec<String> = sc["pcrc"].as_array().map(|a| a.iter().map(|v| v.as_str().unwrap_or("").to_string()).collect()).unwrap_or_default();
    let bufsz = sc.get("buf").and_then(|x| x.as_u64()).unwrap_or(4096) as usize;
    let mut m = Map::new();
    m.insert("ev".into(), json!("SOpen"));
    m.insert("L".into(), l);
    // who produced the bytes: "writer" = this crate's writer from a valid program (such an archive MUST be streamable)
    m.insert("origin".into(), json!(sc.get("origin").and_then(|x| x.as_str()).unwrap_or("foreign")));
    m.insert("under".into(), under.clone());
    m.insert("plan".into(), json!(plan));
    push(m);
    // ---- pull style
    let res = catch_unwind(AssertUnwindSafe(|| {
        let mut evs: Vec<Map<String, Value>> = vec![];
        let mut rd = Chunked::new(&bytes, &under);
        let mut k = 0usize;
        loop {
            let at = rd.total;
            let mut m = Map::new();
            m.insert("ev".into(), json!("SNext"));
            m.insert("at".into(), json!(at.min(2147483647)));
            match zip::read::read_zipfile_from_stream(&mut rd) {
                Err(e) => {
                    m.insert("r".into(), json!(err_class(&e)));
                    m.insert("msg".into(), json!(e.to_string()));
                    evs.push(m);
                    break;
                }
                Ok(None) => {
                    m.insert("r".into(), json!("end"));
                    evs.push(m);
                    break;
                }
                Ok(Some(mut f)) => {
                    m.insert("r".into(), json!("entry"));
                    m.insert("i".into(), json!(k + 1));
                    view(&mut m, &f);
                    evs.push(m);
                    let want = plan.get(k).cloned().unwrap_or(-1);
                    let mut got = 0u64;
                    let mut crc = Crc::new();
                    let mut buf = vec![0u8; bufsz.max(1)];
                    let mut rc = "ok";
                    let mut eof = false;
                    while want < 0 || (got as i64) < want {
                        let lim = if want < 0 { buf.len() } else { buf.len().min((want as u64 - got) as usize) };
                        match f.read(&mut buf[..lim]) {
                            Ok(0) => {
                                eof = true;
                                break;
                            }
                            Ok(n) => {
                                got += n as u64;
                                crc.update(&buf[..n]);
                            }
                            Err(_) => {
                                rc = "err";
                                break;
                            }
                        }
                    }
                    let mut m = Map::new();
                    m.insert("ev".into(), json!("SRead"));
                    m.insert("i".into(), json!(k + 1));
                    m.insert("want".into(), json!(want));
                    m.insert("pcrc".into(), json!(pcrc.get(k).cloned().unwrap_or_default()));
                    m.insert("got".into(), json!(got.min(2147483647)));
                    m.insert("crc".into(), json!(hex32(crc.finish())));
                    m.insert("rc".into(), json!(rc));
                    m.insert("eof".into(), json!(eof));
                    evs.push(m);
                    drop(f);
                    let mut m = Map::new();
                    m.insert("ev".into(), json!("SRelease"));
                    m.insert("i".into(), json!(k + 1));
                    evs.push(m);
                    k += 1;
                }
            }
        }
        evs
    }));
    match res {
        Ok(evs) => {
            for e in evs {
                push(e);
            }
        }
        Err(p) => {
            let mut m = Map::new();
            m.insert("ev".into(), json!("SNext"));
            m.insert("at".into(), json!(-1));
            m.insert("r".into(), json!("panic"));
            m.insert("msg".into(), json!(panic_msg(&p)));
            push(m);
        }
    }
    // ---- visitor style
    if sc.get("visitor").and_then(|x| x.as_bool()).unwrap_or(true) {
        let res = catch_unwind(AssertUnwindSafe(|| {
            let rd = Chunked::new(&bytes, &under);
            let mut v = V { evs: vec![], nfile: 0, nmeta: 0, read_all: sc.get("visit_read").and_then(|x| x.as_bool()).unwrap_or(false) };
            let r = ZipStreamReader::new(rd).visit(&mut v);
            (v.evs, r.map_err(|e| err_class(&e).to_string()), v.nfile, v.nmeta)
        }));
        let mut m = Map::new();
        m.insert("ev".into(), json!("SVisitStart"));
        push(m);
        let mut m = Map::new();
        m.insert("ev".into(), json!("SVisitEnd"));
        match res {
            Ok((evs, r, nf, nm)) => {
                for e in evs {
                    push(e);
                }
                m.insert("r".into(), json!(match r {
                    Ok(()) => "ok".to_string(),
                    Err(c) => c,
                }));
                m.insert("nfile".into(), json!(nf));
                m.insert("nmeta".into(), json!(nm));
            }
            Err(p) => {
                m.insert("r".into(), json!("panic"));
                m.insert("msg".into(), json!(panic_msg(&p)));
                m.insert("nfile".into(), json!(0));
                m.insert("nmeta".into(), json!(0));
            }
        }
        push(m);
    }
    out
}

pub fn main_sexec(args: &[String]) -> i32 {
    use std::io::Write;
    let inp = std::fs::read_to_string(&args[0]).expect("read scenarios");
    let mut out = std::io::BufWriter::new(std::fs::File::create(&args[1]).expect("create trace"));
    std::panic::set_hook(Box::new(|_| {}));
    let mut n = 0;
    for line in inp.lines() {
        if line.trim().is_empty() {
            continue;
        }
        let sc: Value = serde_json::from_str(line).expect("scenario json");
        for e in run(&sc) {
            writeln!(out, "{}", e).unwrap();
        }
        n += 1;
    }
    eprintln!("sexec: {} scenarios", n);
    0
}
