//! zipconf: conformance harness binding the TLA+ specification in /verif/spec to zip-rs/zip.
mod cexec;
mod cp437;
mod eexec;
mod fexec;
mod lexer;
mod pexec;
mod rexec;
mod sexec;
mod sink;
mod texec;
mod util;
mod wexec;
mod xexec;
mod zexec;

// ---- counting allocator (C05: peak heap growth while opening untrusted bytes)
use std::alloc::{GlobalAlloc, Layout, System};
use std::sync::atomic::{AtomicUsize, Ordering};
static CUR: AtomicUsize = AtomicUsize::new(0);
static PEAK: AtomicUsize = AtomicUsize::new(0);
struct Counting;
unsafe impl GlobalAlloc for Counting {
    unsafe fn alloc(&self, l: Layout) -> *mut u8 {
        let p = System.alloc(l);
        if !p.is_null() {
            let c = CUR.fetch_add(l.size(), Ordering::Relaxed) + l.size();
            PEAK.fetch_max(c, Ordering::Relaxed);
        }
        p
    }
    unsafe fn dealloc(&self, p: *mut u8, l: Layout) {
        CUR.fetch_sub(l.size(), Ordering::Relaxed);
        System.dealloc(p, l)
    }
    unsafe fn realloc(&self, p: *mut u8, l: Layout, new: usize) -> *mut u8 {
        let q = System.realloc(p, l, new);
        if !q.is_null() {
            if new >= l.size() {
                let c = CUR.fetch_add(new - l.size(), Ordering::Relaxed) + (new - l.size());
                PEAK.fetch_max(c, Ordering::Relaxed);
            } else {
                CUR.fetch_sub(l.size() - new, Ordering::Relaxed);
            }
        }
        q
    }
}
#[global_allocator]
static GLOBAL: Counting = Counting;
pub fn alloc_now() -> usize {
    CUR.load(Ordering::Relaxed)
}
pub fn alloc_reset_peak() {
    PEAK.store(CUR.load(Ordering::Relaxed), Ordering::Relaxed);
}
pub fn alloc_peak() -> usize {
    PEAK.load(Ordering::Relaxed)
}

fn main() {
    let args: Vec<String> = std::env::args().collect();
    if args.len() < 2 {
        eprintln!("usage: zipconf <cmd> ...");
        std::process::exit(2);
    }
    let rest = &args[2..];
    let code = match args[1].as_str() {
        "wexec" => wexec::main_wexec(rest),
        "rexec" => rexec::main_rexec(rest),
        "eexec" => eexec::main_eexec(rest),
        "sexec" => sexec::main_sexec(rest),
        "cexec" => cexec::main_cexec(rest),
        "fexec" => fexec::main_fexec(rest),
        "texec" => texec::main_texec(rest),
        "fpexec" => texec::main_fpexec(rest),
        "pexec" => pexec::main_pexec(rest),
        "pexec-child" => pexec::main_pexec_child(rest),
        "pexec-range" => pexec::main_pexec_range(rest),
        "xexec" => xexec::main_xexec(rest),
        "zexec" => zexec::main_zexec(rest),
        // zstd frames for the independent builder (CPython has no zstd codec): one JSON object per input line
        // {"chunks": [hex...], "level": n, "skippable": bool} -> one line of hex: every chunk compressed as its own frame by the
        // zstd crate (trusted codec; no zip-crate code involved), optionally with a skippable frame in between
        "zstdc" => {
            use std::io::BufRead;
            let stdin = std::io::stdin();
            for line in stdin.lock().lines() {
                let line = line.expect("stdin");
                if line.trim().is_empty() {
                    continue;
                }
                let v: serde_json::Value = serde_json::from_str(&line).expect("json");
                let level = v["level"].as_i64().unwrap_or(3) as i32;
                let mut out: Vec<u8> = vec![];
                for (k, c) in v["chunks"].as_array().cloned().unwrap_or_default().iter().enumerate() {
                    if k > 0 && v["skippable"].as_bool().unwrap_or(false) {
                        out.extend_from_slice(&[0x50, 0x2A, 0x4D, 0x18, 3, 0, 0, 0, b's', b'k', b'p']);
                    }
                    let raw = util::unhex(c.as_str().unwrap_or(""));
                    out.extend_from_slice(&zstd::stream::encode_all(&raw[..], level).expect("zstd"));
                }
                println!("{}", out.iter().map(|b| format!("{:02x}", b)).collect::<String>());
            }
            0
        }
        "lex" => {
            let b = std::fs::read(&rest[0]).expect("read");
            let o = lexer::LexOpts { allow_trailing: true, ..Default::default() };
            println!("{}", lexer::lex(&lexer::Mem(&b[..]), &o));
            0
        }
        other => {
            eprintln!("unknown command {}", other);
            2
        }
    };
    std::process::exit(code);
}
