fn main() { println!("zipconf"); }
