//! zipconf: conformance harness binding the TLA+ specification in /verif/spec to zip-rs/zip.
mod cexec;
mod cp437;
mod eexec;
mod fexec;
mod lexer;
mod rexec;
mod sexec;
mod sink;
mod texec;
mod util;
mod wexec;
mod xexec;
mod zexec;

fn main() {
    let args: Vec<String> = std::env::args().collect();
    if args.len() < 2 {
        eprintln!("usage: zipconf <cmd> ...");
        std::process::exit(2);
    }
    let rest = &args[2..];
    let code = match args[1].as_str() {
        "wexec" => wexec::main_wexec(rest),
        "rexec" => rexec::main_rexec(rest),
        "eexec" => eexec::main_eexec(rest),
        "sexec" => sexec::main_sexec(rest),
        "cexec" => cexec::main_cexec(rest),
        "fexec" => fexec::main_fexec(rest),
        "texec" => texec::main_texec(rest),
        "xexec" => xexec::main_xexec(rest),
        "zexec" => zexec::main_zexec(rest),
        "lex" => {
            let b = std::fs::read(&rest[0]).expect("read");
            let o = lexer::LexOpts { allow_trailing: true, ..Default::default() };
            println!("{}", lexer::lex(&lexer::Mem(&b[..]), &o));
            0
        }
        other => {
            eprintln!("unknown command {}", other);
            2
        }
    };
    std::process::exit(code);
}
