//! Executor for reader scenarios (C03, C15, C16, C19 ...): opens given bytes with the real
//! seekable reader and logs what it reports, next to what the independent lexer found.
use crate::lexer::{lex, zipcrypto_decrypt, LexOpts, Mem};
use crate::util::*;
use serde_json::{json, Map, Value};
use std::io::{Cursor, Read};
use std::panic::{catch_unwind, AssertUnwindSafe};
use zip::result::ZipError;
use zip::ZipArchive;

pub fn err_class(e: &ZipError) -> &'static str {
    match e {
        ZipError::Io(_) => "io",
        ZipError::InvalidArchive(_) => "invalid",
        ZipError::UnsupportedArchive(m) => {
            if *m == ZipError::PASSWORD_REQUIRED {
                "password_required"
            } else {
                "unsupported"
            }
        }
        ZipError::FileNotFound => "notfound",
        #[allow(unreachable_patterns)]
        _ => "other",
    }
}

/// read an entry to its end; successive calls rotate through the ways a caller may do that (a read loop, read_to_end, a few bytes
/// through read and the rest through read_to_end, io::copy, read_exact of a first half and a loop) - they must all agree
fn read_all(f: &mut dyn Read) -> (String, u64, u32, String) {
    use std::sync::atomic::{AtomicUsize, Ordering};
    static WAY: AtomicUsize = AtomicUsize::new(0);
    let way = WAY.fetch_add(1, Ordering::Relaxed) % 5;
    if way != 0 {
        let mut v: Vec<u8> = vec![];
        let r = match way {
            1 => f.read_to_end(&mut v).map(|_| ()),
            2 => {
                let mut head = [0u8; 3];
                match f.read(&mut head) {
                    Ok(k) => {
                        v.extend_from_slice(&head[..k]);
                        f.read_to_end(&mut v).map(|_| ())
                    }
                    Err(e) => Err(e),
                }
            }
            3 => std::io::copy(f, &mut v).map(|_| ()),
            _ => {
                let mut one = [0u8; 1];
                match f.read(&mut one) {
                    Ok(k) => {
                        v.extend_from_slice(&one[..k]);
                        let mut again = vec![];
                        let r = f.read_to_end(&mut again).map(|_| ());
                        v.extend(again);
                        // at end-of-file another read_to_end delivers nothing more
                        let mut more = vec![];
                        let r2 = if r.is_ok() { f.read_to_end(&mut more).map(|_| ()) } else { Ok(()) };
                        v.extend(more);
                        r.and(r2)
                    }
                    Err(e) => Err(e),
                }
            }
        };
        let mut c = Crc::new();
        c.update(&v);
        return match r {
            Ok(()) => ("ok".into(), v.len() as u64, c.finish(), String::new()),
            Err(e) => ("err".into(), v.len() as u64, c.finish(), e.to_string()),
        };
    }
    let mut buf = vec![0u8; 1 << 16];
    let (mut n, mut c) = (0u64, Crc::new());
    loop {
        match f.read(&mut buf) {
            Ok(0) => return ("ok".into(), n, c.finish(), String::new()),
            Ok(k) => {
                n += k as u64;
                c.update(&buf[..k]);
            }
            Err(e) => return ("err".into(), n, c.finish(), e.to_string()),
        }
    }
}

/// AE-x verifier check with the harness's own key derivation
pub fn aes_verifier_ok(pw: &[u8], strength: u64, raw: &[u8]) -> bool {
    let klen = match strength {
        1 => 16,
        2 => 24,
        3 => 32,
        _ => return false,
    };
    let sl = klen / 2;
    if raw.len() < sl + 2 {
        return false;
    }
    let mut dk = vec![0u8; 2 * klen + 2];
    pbkdf2::pbkdf2::<hmac::Hmac<sha1::Sha1>>(pw, &raw[..sl], 1000, &mut dk);
    dk[2 * klen..] == raw[sl..sl + 2]
}

/// the two sanitising accessors as byte sequences: enclosed = [] | [path bytes], mangled = [component bytes...]
pub fn path_facts(name: &str, enclosed: Option<&std::path::Path>, mangled: std::path::PathBuf) -> Map<String, Value> {
    use std::os::unix::ffi::OsStrExt;
    let mut m = Map::new();
    m.insert("raw".into(), json!(name.as_bytes()));
    m.insert("enclosed".into(), match enclosed {
        None => json!([]),
        Some(p) => json!([p.as_os_str().as_bytes()]),
    });
    let comps: Vec<Value> = mangled.components().map(|c| json!(c.as_os_str().as_bytes())).collect();
    m.insert("mangled".into(), json!(comps));
    m.insert("mangled_abs".into(), json!(mangled.is_absolute()));
    m.insert("panic".into(), json!(false));
    m
}

fn put_view(m: &mut Map<String, Value>, f: &zip::read::ZipFile) {
    m.insert("name".into(), abs_name(f.name().as_bytes()));
    m.insert("rawname".into(), abs_name(f.name_raw()));
    m.insert("fcomment".into(), abs_name(f.comment().as_bytes()));
    m.insert("method".into(), json!(crate::wexec::code_of(f.compression())));
    let lm = f.last_modified();
    m.insert("date".into(), json!(lm.datepart()));
    m.insert("time".into(), json!(lm.timepart()));
    m.insert("ymdhms".into(), json!([lm.year(), lm.month(), lm.day(), lm.hour(), lm.minute(), lm.second()]));
    m.insert("mode".into(), json!(f.unix_mode().map(|x| x as i64).unwrap_or(-1)));
    m.insert("usize".into(), json!(f.size().min(2147483647)));
    m.insert("csize".into(), json!(f.compressed_size().min(2147483647)));
    m.insert("crc".into(), json!(hex32(f.crc32())));
    m.insert("hdr".into(), json!(f.header_start().min(2147483647)));
    m.insert("dstart".into(), json!(f.data_start().min(2147483647)));
    m.insert("chs".into(), json!(f.central_header_start().min(2147483647)));
    m.insert("is_dir".into(), json!(f.is_dir()));
    m.insert("is_file".into(), json!(f.is_file()));
    let (tlv, junk) = crate::lexer::parse_extra(f.extra_data());
    m.insert("extra".into(), json!(tlv.iter().map(|r| json!({"id": r["id"], "len": r["len"], "h": r["h"]})).collect::<Vec<_>>()));
    m.insert("xjunk".into(), json!(junk));
}

pub fn run(sc: &Value) -> Vec<Value> {
    let id = sc["sc"].as_str().unwrap_or("?").to_string();
    let mut out: Vec<Value> = vec![];
    let mut push = |mut m: Map<String, Value>| {
        m.insert("sc".into(), json!(id));
        out.push(Value::Object(m));
    };
    let bytes = unhex(sc["hex"].as_str().unwrap_or(""));
    let mut m = Map::new();
    m.insert("ev".into(), json!("Reset"));
    push(m);
    let pws: Vec<Vec<u8>> = sc.get("pws").and_then(|x| x.as_array()).map(|a| a.iter().map(|p| unhex(p.as_str().unwrap_or(""))).collect()).unwrap_or_default();
    let lopts = LexOpts { passwords_any: pws.clone(), allow_trailing: true, ..Default::default() };
    let l = catch_unwind(AssertUnwindSafe(|| lex(&Mem(&bytes), &lopts)))
        .unwrap_or_else(|p| json!({"ok": false, "why": format!("lexer panic {}", panic_msg(&p))}));
    // ---- open
    // (the source may return short reads - scenario field `under`, a Chunked plan: what the reader reports must not depend on it)
    let under = sc.get("under").cloned().unwrap_or(json!({}));
    let r = catch_unwind(AssertUnwindSafe(|| ZipArchive::new(crate::eexec::Chunked::new(&bytes[..], &under))));
    let mut m = Map::new();
    m.insert("ev".into(), json!("ROpen"));
    m.insert("L".into(), l.clone());
    m.insert("len".into(), json!(bytes.len()));
    let mut ar = match r {
        Ok(Ok(a)) => {
            m.insert("r".into(), json!("ok"));
            m.insert("n".into(), json!(a.len()));
            m.insert("offset".into(), json!(a.offset().min(2147483647)));
            m.insert("comment".into(), abs_name(a.comment()));
            let mut names: Vec<String> = a.file_names().map(|s| hid(s.as_bytes())).collect();
            names.sort();
            names.dedup();
            m.insert("nnames".into(), json!(names.len()));
            m.insert("is_empty".into(), json!(a.is_empty()));
            push(m);
            a
        }
        Ok(Err(e)) => {
            m.insert("r".into(), json!(err_class(&e)));
            m.insert("msg".into(), json!(e.to_string()));
            push(m);
            return out;
        }
        Err(p) => {
            m.insert("r".into(), json!("panic"));
            m.insert("msg".into(), json!(panic_msg(&p)));
            push(m);
            return out;
        }
    };
    let n = ar.len();
    let expect = sc.get("expect").and_then(|x| x.as_array()).cloned().unwrap_or_default();
    let lcd = l.get("cd").and_then(|x| x.as_array()).cloned().unwrap_or_default();
    let llf = l.get("lf").and_then(|x| x.as_array()).cloned().unwrap_or_default();
    let max_entries = sc.get("max_entries").and_then(|x| x.as_u64()).unwrap_or(60) as usize;
    // ---- entries by index, without password
    for i in 0..n {
        if n > max_entries && i >= max_entries / 2 && i < n - max_entries / 2 {
            continue;
        }
        let mut m = Map::new();
        m.insert("ev".into(), json!("REntry"));
        m.insert("i".into(), json!(i + 1));
        // raw view (always available)
        let rr = catch_unwind(AssertUnwindSafe(|| {
            let mut e = Map::new();
            match ar.by_index_raw(i) {
                Ok(mut f) => {
                    put_view(&mut e, &f);
                    let (rc, ln, crc, _) = read_all(&mut f);
                    e.insert("rraw".into(), json!(rc));
                    e.insert("rawlen".into(), json!(ln.min(2147483647)));
                    e.insert("rawcrc".into(), json!(hex32(crc)));
                    e.insert("r".into(), json!("ok"));
                }
                Err(er) => {
                    e.insert("r".into(), json!(err_class(&er)));
                }
            }
            e
        }));
        match rr {
            Ok(e) => {
                for (k, v) in e {
                    m.insert(k, v);
                }
            }
            Err(p) => {
                m.insert("r".into(), json!("panic"));
                m.insert("msg".into(), json!(panic_msg(&p)));
            }
        }
        // decoded content without password
        let rc = catch_unwind(AssertUnwindSafe(|| match ar.by_index(i) {
            Ok(mut f) => {
                let ds = f.data_start();
                let (rc, ln, crc, msg) = read_all(&mut f);
                (String::from("ok"), rc, ln, crc, msg, ds)
            }
            Err(e) => (err_class(&e).to_string(), "none".into(), 0, 0, e.to_string(), 0),
        }));
        match rc {
            Ok((ro, rc, ln, crc, msg, ds)) => {
                m.insert("ropen".into(), json!(ro));
                m.insert("rc".into(), json!(rc));
                m.insert("content".into(), json!({"len": ln.min(2147483647), "crc": hex32(crc)}));
                m.insert("dstart_open".into(), json!(ds.min(2147483647)));
                if !msg.is_empty() {
                    m.insert("rcmsg".into(), json!(msg));
                }
            }
            Err(p) => {
                m.insert("ropen".into(), json!("panic"));
                m.insert("rc".into(), json!("panic"));
                m.insert("rcmsg".into(), json!(panic_msg(&p)));
                m.insert("content".into(), json!({"len": 0, "crc": "00000000"}));
            }
        }
        if let Some(x) = expect.get(i) {
            m.insert("exp".into(), x.clone());
        }
        push(m);
    }
    // ---- decoding of names and comments (C19): raw bytes from the lexer, strings from the reader
    if sc.get("decode").and_then(|x| x.as_bool()).unwrap_or(false) {
        for (i, c) in lcd.iter().enumerate() {
            let flag = c["flags"].as_u64().unwrap_or(0) & 0x800 != 0;
            for field in ["name", "comment"] {
                let rawhex = if field == "name" { c.get("rawhex") } else { c.get("fchex") };
                let raw = match rawhex.and_then(|x| x.as_str()) {
                    Some(h) => unhex(h),
                    None => continue,
                };
                let r = catch_unwind(AssertUnwindSafe(|| {
                    ar.by_index_raw(i).ok().map(|f| {
                        let s = if field == "name" { f.name().to_string() } else { f.comment().to_string() };
                        (s.chars().map(|ch| ch as u32).collect::<Vec<u32>>(), f.name_raw().to_vec())
                    })
                }));
                let mut m = Map::new();
                m.insert("ev".into(), json!("RDecode"));
                m.insert("i".into(), json!(i + 1));
                m.insert("field".into(), json!(field));
                m.insert("flag".into(), json!(flag));
                m.insert("raw".into(), json!(raw));
                m.insert("lossy".into(), json!(String::from_utf8_lossy(&raw).chars().map(|ch| ch as u32).collect::<Vec<u32>>()));
                match r {
                    Ok(Some((got, rawgot))) => {
                        m.insert("got".into(), json!(got));
                        m.insert("rawgot".into(), json!(rawgot));
                    }
                    _ => {
                        m.insert("got".into(), json!([-2]));
                        m.insert("rawgot".into(), json!([-2]));
                    }
                }
                push(m);
            }
        }
    }
    // ---- the same decoding rule through the STREAMING reader (local headers; these archives keep local order = central
    // order, carry no data descriptors and no encryption): name by the flag, raw name kept
    if sc.get("decode").and_then(|x| x.as_bool()).unwrap_or(false) {
        let mut cur = std::io::Cursor::new(&bytes[..]);
        let mut k = 0usize;
        loop {
            let raw = match lcd.get(k).and_then(|c| c.get("rawhex")).and_then(|x| x.as_str()) {
                Some(h) => unhex(h),
                None => break,
            };
            let flag = lcd[k]["flags"].as_u64().unwrap_or(0) & 0x800 != 0;
            let r = catch_unwind(AssertUnwindSafe(|| match zip::read::read_zipfile_from_stream(&mut cur) {
                Ok(Some(f)) => Some((f.name().chars().map(|ch| ch as u32).collect::<Vec<u32>>(), f.name_raw().to_vec())),
                _ => None,
            }));
            let mut m = Map::new();
            m.insert("ev".into(), json!("RDecode"));
            m.insert("i".into(), json!(k + 1));
            m.insert("field".into(), json!("name"));
            m.insert("stream".into(), json!(true));
            m.insert("flag".into(), json!(flag));
            m.insert("raw".into(), json!(raw));
            m.insert("lossy".into(), json!(String::from_utf8_lossy(&raw).chars().map(|ch| ch as u32).collect::<Vec<u32>>()));
            match r {
                Ok(Some((got, rawgot))) => {
                    m.insert("got".into(), json!(got));
                    m.insert("rawgot".into(), json!(rawgot));
                    push(m);
                }
                _ => {
                    m.insert("got".into(), json!([-2]));
                    m.insert("rawgot".into(), json!([-2]));
                    push(m);
                    break;
                }
            }
            k += 1;
        }
    }
    // ---- sanitised paths (C06)
    if sc.get("paths").and_then(|x| x.as_bool()).unwrap_or(false) {
        for i in 0..n {
            let rr = catch_unwind(AssertUnwindSafe(|| ar.by_index_raw(i).ok().map(|f| path_facts(f.name(), f.enclosed_name(), f.mangled_name()))));
            let mut m = match rr {
                Ok(Some(m)) => m,
                _ => {
                    let mut m = Map::new();
                    m.insert("panic".into(), json!(true));
                    m
                }
            };
            m.insert("ev".into(), json!("RPath"));
            m.insert("i".into(), json!(i + 1));
            push(m);
        }
    }
    // ---- lookup by name: every distinct decoded name, plus absent names
    let mut seen = std::collections::BTreeSet::new();
    for (i, c) in lcd.iter().enumerate() {
        if i >= max_entries {
            break;
        }
        let raw_hex = c.get("rawhex").and_then(|x| x.as_str());
        let utf8 = c["flags"].as_u64().unwrap_or(0) & 0x800 != 0;
        let raw = match raw_hex {
            Some(h) => unhex(h),
            None => continue,
        };
        let dn = String::from_utf8(crate::cp437::decode_name(&raw, utf8)).unwrap_or_default();
        if !seen.insert(dn.clone()) {
            continue;
        }
        let mut m = Map::new();
        m.insert("ev".into(), json!("RName"));
        m.insert("name".into(), abs_name(dn.as_bytes()));
        let r = catch_unwind(AssertUnwindSafe(|| match ar.by_name(&dn) {
            Ok(f) => ("ok".to_string(), f.central_header_start()),
            Err(e) => (err_class(&e).to_string(), 0),
        }));
        match r {
            Ok((rc, chs)) => {
                m.insert("r".into(), json!(rc));
                m.insert("chs".into(), json!(chs.min(2147483647)));
            }
            Err(p) => {
                m.insert("r".into(), json!("panic"));
                m.insert("msg".into(), json!(panic_msg(&p)));
            }
        }
        push(m);
    }
    for nm in ["\u{1}absent-name\u{1}", ""] {
        if seen.contains(nm) {
            continue;
        }
        let mut m = Map::new();
        m.insert("ev".into(), json!("RAbsent"));
        let r = catch_unwind(AssertUnwindSafe(|| match ar.by_name(nm) {
            Ok(_) => "ok".to_string(),
            Err(e) => err_class(&e).to_string(),
        }));
        m.insert("r".into(), json!(r.unwrap_or_else(|_| "panic".into())));
        push(m);
    }
    for idx in [n, n + 99] {
        let mut m = Map::new();
        m.insert("ev".into(), json!("RIndexOut"));
        let r = catch_unwind(AssertUnwindSafe(|| {
            let a = match ar.by_index(idx) {
                Ok(_) => "ok".to_string(),
                Err(e) => err_class(&e).to_string(),
            };
            let b = match ar.by_index_raw(idx) {
                Ok(_) => "ok".to_string(),
                Err(e) => err_class(&e).to_string(),
            };
            (a, b)
        }));
        let (a, b) = r.unwrap_or_else(|_| ("panic".into(), "panic".into()));
        m.insert("r".into(), json!(a));
        m.insert("rraw".into(), json!(b));
        push(m);
    }
    // ---- password decisions
    if let Some(pq) = sc.get("pwq").and_then(|x| x.as_array()) {
        for q in pq {
            let i = q["i"].as_u64().unwrap_or(0) as usize;
            let kind = q["kind"].as_str().unwrap_or("right");
            let pw = unhex(q["pw"].as_str().unwrap_or(""));
            let mut m = Map::new();
            m.insert("ev".into(), json!("RPw"));
            m.insert("i".into(), json!(i + 1));
            m.insert("kind".into(), json!(kind));
            // harness-side facts about this password and this entry
            let (mut chk, mut vok) = (false, false);
            if let (Some(c), Some(lfr)) = (lcd.get(i), llf.get(i)) {
                let ds = lfr.get("dstart").and_then(|x| x.as_u64()).unwrap_or(0) as usize;
                let cs = c["csize"].as_u64().unwrap_or(0) as usize;
                if ds + cs <= bytes.len() {
                    let raw = &bytes[ds..ds + cs];
                    if raw.len() >= 12 {
                        let hdr = zipcrypto_decrypt(&pw, &raw[..12]);
                        let dd = c["flags"].as_u64().unwrap_or(0) & 8 != 0;
                        let want = if dd { (c["time"].as_u64().unwrap_or(0) >> 8) as u8 } else { u8::from_str_radix(&c["crc"].as_str().unwrap_or("00")[..2], 16).unwrap_or(0) };
                        chk = hdr[11] == want;
                    }
                    if let Some(a) = c["aes"].as_array().and_then(|a| a.first()) {
                        vok = aes_verifier_ok(&pw, a["strength"].as_u64().unwrap_or(0), raw);
                    }
                }
            }
            m.insert("chk".into(), json!(chk));
            m.insert("vok".into(), json!(vok));
            let use_name = q.get("by_name").and_then(|x| x.as_str()).map(|s| s.to_string());
            let r = catch_unwind(AssertUnwindSafe(|| {
                let res = match (&use_name, kind) {
                    (_, "none") => ar.by_index(i).map(Ok),
                    (Some(nm), _) => ar.by_name_decrypt(nm, &pw),
                    (None, _) => ar.by_index_decrypt(i, &pw),
                };
                match res {
                    Ok(Ok(mut f)) => {
                        let (rc, ln, crc, msg) = read_all(&mut f);
                        ("ok".to_string(), rc, ln, crc, msg)
                    }
                    Ok(Err(_)) => ("invalid_password".to_string(), "none".into(), 0, 0, String::new()),
                    Err(e) => (err_class(&e).to_string(), "none".into(), 0, 0, e.to_string()),
                }
            }));
            match r {
                Ok((ro, rc, ln, crc, msg)) => {
                    m.insert("r".into(), json!(ro));
                    m.insert("rc".into(), json!(rc));
                    m.insert("content".into(), json!({"len": ln.min(2147483647), "crc": hex32(crc)}));
                    if !msg.is_empty() {
                        m.insert("msg".into(), json!(msg));
                    }
                }
                Err(p) => {
                    m.insert("r".into(), json!("panic"));
                    m.insert("rc".into(), json!("panic"));
                    m.insert("content".into(), json!({"len": 0, "crc": "00000000"}));
                    m.insert("msg".into(), json!(panic_msg(&p)));
                }
            }
            if let Some(x) = expect.get(i) {
                m.insert("exp".into(), x.clone());
            }
            push(m);
        }
    }
    // ---- the method table: every 16-bit code through from_u16 / to_u16, and the list of methods the build declares supported
    if sc.get("method_table").and_then(|x| x.as_bool()).unwrap_or(false) {
        #[allow(deprecated)]
        let bad: Vec<u32> = (0u32..65536).filter(|c| zip::CompressionMethod::from_u16(*c as u16).to_u16() as u32 != *c).take(50).collect();
        #[allow(deprecated)]
        let mut sup: Vec<u32> = zip::SUPPORTED_COMPRESSION_METHODS.iter().map(|m| m.to_u16() as u32).collect();
        sup.sort();
        #[allow(deprecated)]
        let named: Vec<u32> = [zip::CompressionMethod::Stored, zip::CompressionMethod::Deflated, zip::CompressionMethod::Bzip2, zip::CompressionMethod::Zstd]
            .iter().map(|m| m.to_u16() as u32).collect();
        let mut m = Map::new();
        m.insert("ev".into(), json!("RMethodTable"));
        m.insert("bad".into(), json!(bad));
        m.insert("supported".into(), json!(sup));
        m.insert("named".into(), json!(named));
        push(m);
    }
    // ---- sweeps: the same archive behind every prepended length of a range / in front of every trailing length of a range.
    // One compact event per length: result class, reported offset and entry count, and a digest of (name, size, content CRC or
    // open error class) of every entry, next to the digest of the unmodified archive (whose entries the events above describe)
    let digest_of = |b: &[u8]| -> (String, u64, usize, String) {
        let r = catch_unwind(AssertUnwindSafe(|| -> Result<(u64, usize, String), String> {
            let mut a = ZipArchive::new(Cursor::new(b)).map_err(|e| err_class(&e).to_string())?;
            let mut acc: Vec<u8> = vec![];
            for i in 0..a.len() {
                match a.by_index(i) {
                    Ok(mut f) => {
                        acc.extend_from_slice(f.name_raw());
                        acc.extend_from_slice(&f.size().to_le_bytes());
                        let (rc, ln, crc, _) = read_all(&mut f);
                        acc.extend_from_slice(rc.as_bytes());
                        acc.extend_from_slice(&ln.to_le_bytes());
                        acc.extend_from_slice(&crc.to_le_bytes());
                    }
                    Err(e) => acc.extend_from_slice(err_class(&e).as_bytes()),
                }
            }
            Ok((a.offset(), a.len(), hid(&acc)))
        }));
        match r {
            Ok(Ok((o, n, d))) => ("ok".into(), o, n, d),
            Ok(Err(c)) => (c, 0, 0, String::new()),
            Err(_) => ("panic".into(), 0, 0, String::new()),
        }
    };
    if let Some(sw) = sc.get("sweep") {
        let (_, off0, _, d0) = digest_of(&bytes);
        let fill = sw.get("fill").and_then(|x| x.as_u64()).unwrap_or(7) as u8;
        for (what, key) in [("prefix", "prefix"), ("trailing", "trailing")] {
            if let Some(rg) = sw.get(key).and_then(|x| x.as_array()) {
                let (from, to, step) = (rg[0].as_u64().unwrap_or(0), rg[1].as_u64().unwrap_or(0), rg.get(2).and_then(|x| x.as_u64()).unwrap_or(1).max(1));
                let mut p = from;
                while p <= to {
                    let mut b: Vec<u8> = Vec::with_capacity(bytes.len() + p as usize);
                    if what == "prefix" {
                        b.resize(p as usize, fill);
                        b.extend_from_slice(&bytes);
                    } else {
                        b.extend_from_slice(&bytes);
                        b.resize(bytes.len() + p as usize, fill);
                    }
                    let (r, off, nn, d) = digest_of(&b);
                    let mut m = Map::new();
                    m.insert("ev".into(), json!("RSweep"));
                    m.insert("what".into(), json!(what));
                    m.insert("p".into(), json!(p));
                    m.insert("r".into(), json!(r));
                    m.insert("offset".into(), json!(off.min(2147483647)));
                    m.insert("offset0".into(), json!(off0.min(2147483647)));
                    m.insert("n".into(), json!(nn));
                    m.insert("same".into(), json!(d == d0));
                    push(m);
                    p += step;
                }
            }
        }
    }
    out
}

pub fn main_rexec(args: &[String]) -> i32 {
    use std::io::Write;
    let inp = std::fs::read_to_string(&args[0]).expect("read scenarios");
    let mut out = std::io::BufWriter::new(std::fs::File::create(&args[1]).expect("create trace"));
    std::panic::set_hook(Box::new(|_| {}));
    let mut n = 0;
    for line in inp.lines() {
        if line.trim().is_empty() {
            continue;
        }
        let sc: Value = serde_json::from_str(line).expect("scenario json");
        for e in run(&sc) {
            writeln!(out, "{}", e).unwrap();
        }
        n += 1;
    }
    eprintln!("rexec: {} scenarios", n);
    0
}
