CONSTANTS
  NCalls = 4
  OpsPerCall = 3
  BUG = "none"
SPECIFICATION Spec
INVARIANT FaultLaw
INVARIANT NoPanicEver
CHECK_DEADLOCK FALSE
