CONSTANTS
  Thr16 = 40
  ThrN = 0
  Thr32 = 6
  MaxFiles = 1
  MaxChunks = 2
  MaxX = 2
  EmitEdges = FALSE
SPECIFICATION Spec
VIEW View
INVARIANT ModeConsistent
INVARIANT LayoutWellFormed
INVARIANT Aligned
INVARIANT NoTruncation
INVARIANT NoWrappedSizes
INVARIANT ClosedReports
INVARIANT RoundTripHolds
PROPERTY ClosedEntriesImmutable
CHECK_DEADLOCK FALSE
