-------------------------- MODULE StreamDrainProof --------------------------
(* StreamDrain.tla for entries of ANY size and ANY request size, for Apalache (SMT): an inductive invariant that implies
   LandsOnBoundary, NeverOverruns and ErrOnlyIfCut, and a ranking argument for termination - every iteration that does
   not leave the loop strictly decreases the bytes still to skip, so the loop ends after at most rest0 iterations whatever
   the source does (MC_StreamDrain checks the liveness property itself, on sizes up to 7).
     apalache-mc check --cinit=CInit --init=PInit --inv=IndInv --length=0 StreamDrainProof.tla
     apalache-mc check --cinit=CInit --init=IndInit --next=PStep --inv=IndInv --length=1 StreamDrainProof.tla
     apalache-mc check --cinit=CInit --init=IndInit --inv=Implied --length=0 StreamDrainProof.tla
     apalache-mc check --cinit=CInit --init=IndInit --next=PStep --inv=Ranked --length=1 StreamDrainProof.tla
   With BUG = "loop_on_eof" (CInitLoop) the ranking obligation must FAIL. *)
EXTENDS StreamDrain, Integers
VARIABLE
    \* @type: Int;
    prev        \* bytes still to skip before the last iteration (-1: no iteration yet)
CInit == MaxRest = 0 /\ B \in {b \in Nat : b >= 1} /\ BUG = "none"
CInitLoop == MaxRest = 0 /\ B \in {b \in Nat : b >= 1} /\ BUG = "loop_on_eof"
PInit == /\ rest0 \in Nat /\ avail0 \in Nat /\ avail0 <= rest0
         /\ rest = rest0 /\ avail = avail0 /\ skipped = 0 /\ st = "run" /\ prev = -1
PStep == Step /\ prev' = rest
IndInv ==
   /\ rest >= 0 /\ avail >= 0 /\ skipped >= 0 /\ avail0 <= rest0 /\ st \in {"run", "ok", "err"}
   /\ rest + skipped = rest0 /\ avail + skipped = avail0
   /\ (st = "ok" => rest = 0) /\ (st = "err" => (avail = 0 /\ rest > 0))
IndInit == /\ rest \in Nat /\ avail \in Nat /\ skipped \in Nat /\ st \in {"run", "ok", "err"} /\ rest0 \in Nat /\ avail0 \in Nat
           /\ prev = -1 /\ IndInv
Implied == LandsOnBoundary /\ NeverOverruns /\ ErrOnlyIfCut
\* after an iteration the loop has either ended or has strictly fewer bytes to skip
Ranked == prev >= 0 => (st # "run" \/ rest < prev)
=============================================================================
