---------------------------- MODULE Trace_Zip64 ----------------------------
(* C08 at the real thresholds: programs of the real writer over a sparse store (entries and offsets
   around 2^32, entry counts around 2^16) and sparse foreign archives.  Every quantity in the events is
   a two-limb number.  The writer-side sequencing rule (oversize write into an entry not declared large
   poisons the writer) is a small state machine; the finished bytes, lexed independently, must satisfy
   Zip64!CentralOk/CentralWriter/LocalAgrees/LocalWriter/EndOk/EndWriter; the real reader must report
   exactly the lexed values and the content must read back. *)
EXTENDS Zip64, Json, IOUtils, TLC
Rec == ndJsonDeserialize(IOEnv.TRACE)
VARIABLES l, st
tvars == <<l, st>>
ev == Rec[l]
Check(P) == IF P THEN TRUE ELSE FALSE
IsEvent(e) == l <= Len(Rec) /\ Rec[l].ev = e /\ l' = l + 1
Count(i) == TLCSet(i, TLCGet(i) + 1)
St0 == [open |-> FALSE, large |-> FALSE, acc |-> BZero, dead |-> FALSE, larges |-> <<>>, fin |-> "none", nold |-> 0, app |-> FALSE]
Cls(ok) == IF ok THEN "ok" ELSE "err"

TraceReset == IsEvent("Reset") /\ st' = St0
TraceNew == IsEvent("ZNew") /\ st' = St0
TraceStart ==
   /\ IsEvent("ZStart") /\ Check(ev.r = Cls(~st.dead))
   /\ st' = [st EXCEPT !.open = ev.r = "ok", !.large = ev.large, !.acc = BZero,
                       !.larges = IF ev.r = "ok" THEN Append(st.larges, ev.large) ELSE st.larges]
\* one logical write of req bytes (issued in 1 MiB pieces): all of it is accepted iff the total fits or the entry is large
TraceWrite ==
   /\ IsEvent("ZWrite")
   /\ LET ok == ~st.dead /\ st.open /\ WriteOk(st.acc, ev.req, st.large) IN
      /\ Check(ev.r = Cls(ok))
      /\ Check(ok => BEq(ev.accepted, ev.req))
      /\ Check(~ok => BLt(ev.accepted, ev.req))
      /\ st' = [st EXCEPT !.acc = BAdd(st.acc, ev.accepted), !.dead = st.dead \/ ~ok]
   /\ Count(1)
\* a raw copy declares the entry large exactly when one of the source's sizes needs ZIP64 (ZipWriter!RawCopyF)
TraceRawCopy ==
   /\ IsEvent("ZRawCopy") /\ Check(ev.r = Cls(~st.dead))
   /\ st' = [st EXCEPT !.open = FALSE, !.larges = IF ev.r = "ok" THEN Append(st.larges, Need(ev.usize) \/ Need(ev.csize)) ELSE st.larges]
\* opening the finished archive for append keeps every old entry (their local headers are not touched again)
TraceAppend == IsEvent("ZAppend") /\ Check(ev.r = "ok" /\ st.fin = "ok") /\ st' = [st EXCEPT !.fin = "none", !.open = FALSE, !.nold = Len(st.larges), !.app = TRUE]
TraceBulk ==
   /\ IsEvent("ZBulk") /\ Check(ev.ok = (IF st.dead THEN 0 ELSE ev.count))
   /\ st' = [st EXCEPT !.open = FALSE, !.larges = st.larges \o [i \in 1..ev.ok |-> FALSE]]
\* an oversize write never yields a finished archive
TraceFinish ==
   /\ IsEvent("ZFinish") /\ Check(ev.r = Cls(~st.dead))
   /\ st' = [st EXCEPT !.fin = ev.r, !.open = FALSE]
   /\ Count(2)
\* the finished (or foreign) archive
IsWriter(A) == A.expect.producer = "writer"
TraceArch ==
   /\ IsEvent("ZArch")
   /\ Check(IsWriter(ev) => st.fin = "ok")
   /\ Check(ev.lex_ok)
   /\ Check(ev.n = ev.expect.n /\ ev.names_digest = ev.expect.names_digest)            \* all entries, in order
   /\ Check(ev.all_lf_ok /\ ev.all_z64_exact /\ ev.overlaps = <<>>)
   \* (after an append round whose rewritten directory is shorter than the old one, the directory is moved up so that it ends where
   \*  the old archive ended - ZipWriter!FinalizeF: the only uncovered range is the one directly in front of the directory)
   /\ Check(IsWriter(ev) => /\ BEq(ev.prefix, BZero)
                             /\ IF st.app THEN \A k \in 1..Len(ev.gaps) : ev.gaps[k].before = "cd1" /\ BEq(ev.gaps[k].to, ev.cd_start)
                                ELSE ev.gaps = <<>>)
   /\ Check(EndOk(ev))
   /\ Check(IsWriter(ev) => EndWriter(ev))
   /\ Check(ev.reader.r = "ok" /\ ev.reader.len = ev.n /\ ev.reader.names_digest = ev.names_digest
            /\ BEq(ev.reader.offset, ev.prefix) /\ ev.reader.comment.id = ev.eocd.comment.id)
   /\ Check(\A k \in 1..Len(ev.sel) : LET s == ev.sel[k] IN
         /\ CentralOk(s.c, s.i <= st.nold) /\ LocalAgrees(s.c, s.l)
         /\ (IsWriter(ev) => CentralWriter(s.c, s.i <= st.nold) /\ LocalWriter(s.l, st.larges[s.i]))
         /\ ReaderAgrees(ev, s.c, s.l, s.rd))
   /\ Check(\A k \in 1..Len(ev.expect.sizes) : LET x == ev.expect.sizes[k] IN
         \E j \in 1..Len(ev.sel) : ev.sel[j].i = x.i /\ BEq(ev.sel[j].c.usize, x.usize) /\ ev.sel[j].c.crc = x.crc)
   /\ UNCHANGED st /\ Count(3)
\* reading an entry back: exactly the bytes that were written
TraceRead ==
   /\ IsEvent("ZRead")
   /\ Check(ev.r = "ok" /\ BEq(ev.len, ev.expect.len) /\ ev.zeros_ok /\ ev.head = ev.expect.head /\ ev.tail = ev.expect.tail)
   /\ UNCHANGED st /\ Count(4)
TraceInit == l = 1 /\ st = St0 /\ \A i \in 1..4 : TLCSet(i, 0)
TraceNext == TraceReset \/ TraceNew \/ TraceAppend \/ TraceStart \/ TraceWrite \/ TraceRawCopy \/ TraceBulk \/ TraceFinish \/ TraceArch \/ TraceRead
TraceSpec == TraceInit /\ [][TraceNext]_tvars
TraceAccepted ==
   LET d == TLCGet("stats").diameter IN
   IF d - 1 = Len(Rec)
   THEN /\ PrintT(<<"STATS", "writes", TLCGet(1)>>) /\ PrintT(<<"STATS", "finishes", TLCGet(2)>>)
        /\ PrintT(<<"STATS", "archives", TLCGet(3)>>) /\ PrintT(<<"STATS", "reads", TLCGet(4)>>)
   ELSE Print(<<"REJECTED", d, ToJson(Rec[d])>>, FALSE)
=============================================================================
