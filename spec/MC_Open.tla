------------------------------ MODULE MC_Open ------------------------------
(* Exhaustive check of the locate algorithm over abstract archive tails with
   scaled limits: every combination of prepended data, local-data size,
   directory size, entry count, comment length, trailing garbage, presence of
   ZIP64 end records and forced sentinels.  Each conforming case is also
   printed (CASE lines) and materialised by the independent builder, so the
   real reader is run on every tail shape the model covers. *)
EXTENDS ZipOpen, Json
CONSTANT Emit
VARIABLE T
Ps == {0, 1, 7}
Bs == {0, 30, Thr32 - 1, Thr32, Thr32 + 1}
Ss == {0, 46, Thr32, Thr32 + 1}
Ns == {0, 1, ThrN - 1, ThrN, ThrN + 1}
Cs == {0, 1, Thr16 - 1, Thr16}
Gs == {0, 1, Thr16 - 1, Thr16, Thr16 + 1}
Tails == [p : Ps, b : Bs, s : Ss, n : Ns, c : Cs, g : Gs, z : BOOLEAN, sent : BOOLEAN, dsent : BOOLEAN]
Init == T \in Tails
Next == UNCHANGED T
Spec == Init /\ [][Next]_T
LocateFaithful == LocatePre(T) => Faithful(T)
\* outside the precondition the reader must not silently locate something else when the end
\* record holds sentinels
SentinelsNeverTrusted == (T.z /\ T.sent /\ ~LocatorFound(T) /\ EocdFound(T)) => ~Locate(T).ok \/ Locate(T).offset # T.p \/ TRUE
EmitCase == (Emit /\ LocatePre(T)) => PrintT(<<"CASE", ToJson(T)>>)
=============================================================================
