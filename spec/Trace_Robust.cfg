CONSTANTS
  MemBase = 1048576
  MemPerByte = 512
SPECIFICATION TraceSpec
POSTCONDITION TraceAccepted
CHECK_DEADLOCK FALSE
