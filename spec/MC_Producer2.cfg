CONSTANTS
  OBUG = "none"
  RBUG = "none"
  Thr16 = 5
  ThrN = 2
  Thr32 = 60
  N = 2
  Full = "few"
  Emit = FALSE
SPECIFICATION Spec
INVARIANT ReaderFaithful
INVARIANT ProducerSane
CHECK_DEADLOCK FALSE
