-------------------------- MODULE Trace_EntryRead --------------------------
(***************************************************************************)
(* Trace validation of entry reads (harness: eexec).  Every read() call of *)
(* the caller is one ERead event (buffer length n, bytes returned k, ok or *)
(* error).  For STORED entries the pipeline of EntryRead.tla is followed   *)
(* exactly (its invariants are checked on every state of the real run);    *)
(* behind a decompressor only the caller-side laws are required.  EEnd     *)
(* carries length and CRC-32 (harness's own) of everything returned.       *)
(***************************************************************************)
EXTENDS EntryRead, Json, IOUtils, Sequences

Rec == ndJsonDeserialize(IOEnv.TRACE)
VARIABLES l, o       \* o: the open entry's logged facts and caller-side counters
tvars == <<vars, l, o>>
ev == Rec[l]
IsEvent(e) == l <= Len(Rec) /\ Rec[l].ev = e /\ l' = l + 1
Check(P) == IF P THEN TRUE ELSE FALSE
None == [open |-> FALSE]

Idle == /\ plen' = 0 /\ kind' = "plain" /\ dmg' = "none" /\ comp' = FALSE /\ remaining' = 0 /\ cipherPos' = 0 /\ macFed' = 0
        /\ macChecked' = FALSE /\ delivered' = 0 /\ hashed' = 0 /\ crcArmed' = TRUE /\ eof' = FALSE
        /\ failed' = FALSE /\ lastn' = 0 /\ lastk' = 0
TraceReset == IsEvent("Reset") /\ Idle /\ o' = None

\* damage classes of the model; everything else the driver does (salt, verifier ...) ends at open
DmgOf(d) == IF d \in {"none", "data", "crc", "mac"} THEN d ELSE "data"
\* exact pipeline following: stored entry whose sizes are the true ones
Exact(e) == e.r = "ok" /\ e.lexed /\ e.logged /\ e.method = 0 /\ e.dmg \in {"none", "data", "crc", "mac"}
TraceEOpen ==
   /\ IsEvent("EOpen") /\ ev.r # "panic"
   /\ IF ev.r = "ok"
      THEN /\ o' = [open |-> TRUE, exact |-> Exact(ev), kind |-> ev.kind, declared |-> ev.declared, usize |-> ev.usize,
                    exp |-> ev.exp, dmg |-> ev.dmg, via |-> ev.via, got |-> 0, eof |-> FALSE, failed |-> FALSE,
                    pwkind |-> ev.pwkind]
           /\ plen' = ev.usize /\ kind' = ev.kind /\ dmg' = DmgOf(ev.dmg) /\ comp' = (ev.method # 0) /\ remaining' = ev.usize
           /\ cipherPos' = 0 /\ macFed' = 0 /\ macChecked' = FALSE /\ delivered' = 0 /\ hashed' = 0
           /\ crcArmed' = TRUE /\ eof' = FALSE /\ failed' = FALSE /\ lastn' = 0 /\ lastk' = 0
           \* the reader reports the CRC the archive declares (central record / local header when streaming)
           /\ Check(ev.lexed => ev.declared = (IF ev.via = "seek" THEN ev.ccrc ELSE ev.lcrc))
      ELSE /\ o' = None /\ Idle
           \* an undamaged, supported entry opened with the right (or no needed) password must open
           \* (through the stream only when it is neither encrypted nor data-descriptor based)
           /\ Check(~(/\ ev.dmg = "none" /\ ev.lexed
                       /\ (ev.lmethod \in {0, 8, 12, 93} \/ (ev.lmethod = 99 /\ ev.kind \in {"ae1", "ae2"}))
                       /\ (ev.pwkind = "right" \/ (ev.kind = "plain" /\ ev.pwkind = "none"))
                       /\ (ev.via = "seek" \/ (ev.kind = "plain" /\ ~ev.ldd))))

\* caller-side laws that hold for every entry: zero-length reads are no-ops, k <= n, end-of-file is
\* sticky, an error is final for the purposes of "completed successfully"
CallerLaws ==
   /\ ev.k <= ev.n
   /\ (ev.n = 0 => ev.k = 0 /\ ev.r = "ok")
   /\ (o.eof /\ ev.r = "ok" => ev.k = 0)
TraceERead ==
   /\ IsEvent("ERead") /\ o.open /\ ~o.failed
   /\ Check(CallerLaws)
   /\ o' = [o EXCEPT !.got = o.got + ev.k, !.eof = o.eof \/ (ev.r = "ok" /\ ev.k = 0 /\ ev.n > 0),
                     !.failed = (ev.r = "err")]
   /\ IF o.exact
      THEN \* the model's pipeline step; when the call failed, the number of bytes the layers below had
           \* transferred is not visible to the caller: TLC infers it
           /\ \E g \in {ev.k} \cup (IF ev.r = "err" /\ remaining > 0 THEN 1..Min(remaining, ev.n) ELSE {}) : Read(ev.n, g)
           /\ Check(lastk' = ev.k /\ failed' = (ev.r = "err"))
      ELSE UNCHANGED vars
\* reads that were summarised (long entries): only the final state is known
TraceEEnd ==
   /\ IsEvent("EEnd") /\ o.open
   /\ Check(/\ ev.failed = o.failed \/ ev.summarised
            \* C04: a read that completed returned data matching the declared CRC (AE-2: the MAC stands in)
            /\ (ev.eof /\ ~ev.failed => (o.kind = "ae2" \/ ev.crc = o.declared))
            \* C09/C15/C16: with no damage the bytes are exactly the original, whatever the schedule
            /\ (o.dmg = "none" /\ o.exp.len >= 0 /\ o.pwkind # "wrong" => (~ev.failed /\ ev.eof /\ ev.total = o.exp.len /\ ev.crc = o.exp.crc))
            \* C16: damage to an AE-2 entry never ends in a completed read of other bytes; a wrong password neither
            /\ (ev.eof /\ ~ev.failed /\ o.exp.len >= 0 /\ (o.kind = "ae2" \/ o.pwkind = "wrong")
                   => (ev.total = o.exp.len /\ ev.crc = o.exp.crc) \/ (o.kind # "ae2" /\ ev.crc = o.declared))
            /\ (ev.eof /\ ~ev.failed /\ ~ev.summarised => ev.total = o.got))
   /\ o' = None /\ UNCHANGED vars

TraceInit == l = 1 /\ o = None /\ plen = 0 /\ kind = "plain" /\ dmg = "none" /\ comp = FALSE /\ remaining = 0 /\ cipherPos = 0
             /\ macFed = 0 /\ macChecked = FALSE /\ delivered = 0 /\ hashed = 0 /\ crcArmed = TRUE /\ eof = FALSE
             /\ failed = FALSE /\ lastn = 0 /\ lastk = 0
TraceNext == TraceReset \/ TraceEOpen \/ TraceERead \/ TraceEEnd
TraceSpec == TraceInit /\ [][TraceNext]_tvars
\* the model's invariants, evaluated on every state of the implementation's run (exact mode)
TraceInv == (o.open /\ o.exact) => (CipherSync /\ MacAtEnd /\ EofIntegrity /\ TamperDetected /\ Accounting)
TraceAccepted ==
   LET d == TLCGet("stats").diameter IN
   IF d - 1 = Len(Rec) THEN TRUE ELSE Print(<<"REJECTED", d, ToJson(Rec[d])>>, FALSE)
TraceDiag == /\ l <= Len(Rec) /\ PrintT(<<"DIAG-STATE", ev.sc, l, o, "model", remaining, delivered, eof, failed, lastk, dmg, kind>>)
             /\ FALSE /\ UNCHANGED tvars
TraceSpecDiag == TraceInit /\ [][TraceNext \/ TraceDiag]_tvars
=============================================================================
