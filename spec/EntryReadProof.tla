--------------------------- MODULE EntryReadProof ---------------------------
(* The invariants of EntryRead.tla for entries of ANY length under ANY read schedule, for Apalache (SMT): an inductive
   invariant IndInv that implies CipherSync, MacAtEnd, EofIntegrity, TamperDetected and Accounting is shown to hold
   initially and to be preserved by every step, with the payload length, the caller's buffer size and the number of
   bytes the underlying reader returns ranging over ALL naturals (MC_EntryRead enumerates lengths {0,1,5} and buffers
   {0,1,2,5}).
     apalache-mc check --cinit=CInit --init=Init --inv=IndInv --length=0 EntryReadProof.tla            (initiation)
     apalache-mc check --cinit=CInit --init=IndInit --next=PNext --inv=IndInv --length=1 EntryReadProof.tla   (consecution)
     apalache-mc check --cinit=CInit --init=IndInit --inv=Implied --length=0 EntryReadProof.tla        (IndInv => the invariants)
   With BUG = "no_mac" (CInitNoMac) consecution must FAIL. *)
EXTENDS EntryRead
CInit == PLens = Nat /\ Bufs = Nat /\ BUG = "none"
CInitNoMac == PLens = Nat /\ Bufs = Nat /\ BUG = "no_mac"
\* every step, with unbounded buffer sizes and short-read choices
PNext == \E n \in Nat : (\E k \in Nat : Read(n, k)) \/ DecoderEndsEarly(n)
IndInv ==
   /\ plen >= 0 /\ remaining >= 0 /\ remaining <= plen /\ kind \in Kinds /\ dmg \in Dmgs(kind) /\ crcArmed
   /\ CipherSync /\ Accounting
   /\ macFed = (IF Aes THEN plen - remaining ELSE 0)
   \* an AES entry whose last ciphertext byte has arrived without a failure has had its authentication code compared
   /\ (Aes /\ plen > 0 /\ remaining = 0 /\ ~failed) => (macChecked /\ ~MacBad)
   \* a successful end of file: the layers below are exhausted (AES always; otherwise unless a decoder ended early) ...
   /\ (eof /\ ~failed /\ Aes) => remaining = 0
   \* ... and the checksum was compared
   /\ (eof /\ ~failed) => (~CrcBad \/ kind = "ae2")
\* any state satisfying the inductive invariant (Apalache: every variable is assigned)
IndInit ==
   /\ plen \in Nat /\ kind \in Kinds /\ dmg \in {"none", "data", "crc", "mac"} /\ comp \in BOOLEAN
   /\ remaining \in Nat /\ cipherPos \in Nat /\ macFed \in Nat /\ macChecked \in BOOLEAN /\ delivered \in Nat /\ hashed \in Nat
   /\ crcArmed \in BOOLEAN /\ eof \in BOOLEAN /\ failed \in BOOLEAN /\ lastn \in Nat /\ lastk \in Nat
   /\ IndInv
Implied == CipherSync /\ MacAtEnd /\ EofIntegrity /\ TamperDetected /\ Accounting
=============================================================================
