---------------------------- MODULE Trace_Stream ----------------------------
(***************************************************************************)
(* Trace validation of the streaming reader (harness: sexec) against       *)
(* ZipStream.tla.  The stream position at which every header is parsed is  *)
(* logged (`at`): OnRecordBoundary is thereby evaluated on the real run.   *)
(* Expected per-entry values come from the independently lexed layout, i.e.*)
(* from what the seekable reader must report (ZipOpen!EntryView): C10.     *)
(***************************************************************************)
EXTENDS ZipStream, ZipOpen, Json, IOUtils

Rec == ndJsonDeserialize(IOEnv.TRACE)
VARIABLES l, cl, mode        \* cl: lexed layout; mode: "pull" | "visit"
tvars == <<vars, l, cl, mode>>
ev == Rec[l]
IsEvent(e) == l <= Len(Rec) /\ Rec[l].ev = e /\ l' = l + 1
Check(P) == IF P THEN TRUE ELSE FALSE

\* an archive the property speaks about: well formed, local headers carry the sizes, entries in
\* file order = directory order, nothing before or between the records
Streamable(L) ==
   /\ L.ok /\ Readable(L) /\ L.prefix = 0 /\ L.gaps = <<>> /\ NEntries(L) >= 1
   /\ \A i \in 1..NEntries(L) : i > 1 => L.lf[i].pos > L.lf[i - 1].pos
EntryOk(L, i) == ~FEnc(L.lf[i].flags) /\ ~FDD(L.lf[i].flags) /\ L.lf[i].method \in Supported
EntriesOf(L) == [i \in 1..NEntries(L) |-> [hl |-> L.lf[i].dstart - L.lf[i].pos, cs |-> L.lf[i].csize, ok |-> EntryOk(L, i)]]

Fresh(es) == /\ E' = es /\ spos' = 0 /\ cur' = 0 /\ pulled' = 0 /\ phase' = "files" /\ done' = 0 /\ nfile' = 0 /\ nmeta' = 0
TraceReset == IsEvent("Reset") /\ Fresh(<<>>) /\ cl' = [ok |-> FALSE] /\ mode' = "pull"
\* everything this crate's writer emits from a valid program (entries >= 1) has local headers that carry the sizes and
\* agree with the directory: it is an archive the property speaks about, not one the check may skip
TraceSOpen == /\ IsEvent("SOpen") /\ cl' = ev.L /\ mode' = "pull"
              /\ Check(ev.origin = "writer" => (ev.L.ok /\ Streamable(ev.L)))
              /\ Fresh(IF ev.L.ok /\ Streamable(ev.L) THEN EntriesOf(ev.L) ELSE <<>>)
              /\ TLCSet(1, TLCGet(1) + (IF ev.L.ok /\ Streamable(ev.L) THEN 1 ELSE 0))
Good == cl.ok /\ Streamable(cl) /\ E # <<>>

TraceSNext ==
   /\ IsEvent("SNext") /\ ev.r # "panic" /\ UNCHANGED <<cl, mode>>
   /\ IF ~Good \/ phase # "files" THEN UNCHANGED vars
      ELSE /\ Check(ev.at = spos)                                   \* OnRecordBoundary on the real stream
           /\ NextEntry
           /\ Check(IF phase' = "central" THEN ev.r = "end"
                    ELSE IF phase' = "error" THEN ev.r = "unsupported"   \* never wrong data
                    ELSE /\ ev.r = "entry" /\ ev.i = cur'
                         /\ LET v == EntryView(cl, cur') IN
                              /\ ev.name.id = v.name /\ ev.method = v.method /\ ev.usize = v.usize /\ ev.csize = v.csize
                              /\ ev.crc = v.crc /\ ev.date = v.date /\ ev.time = v.time /\ ev.is_dir = v.is_dir
                              /\ ev.mode = -1)                       \* attributes are not available while streaming
TraceSRead ==
   /\ IsEvent("SRead") /\ UNCHANGED <<vars, cl, mode>>
   /\ Check(Good /\ cur # 0 =>
        LET v == EntryView(cl, cur) IN
        /\ ev.rc = "ok"
        /\ (ev.want < 0 \/ ev.want >= v.usize => ev.got = v.usize /\ ev.crc = v.crc)   \* whole content
        /\ (ev.want >= 0 /\ ev.want < v.usize => ev.got = ev.want /\ ev.crc = ev.pcrc))  \* the requested prefix
TraceSRelease ==
   /\ IsEvent("SRelease") /\ UNCHANGED <<cl, mode>>
   /\ IF Good /\ cur # 0 THEN Release ELSE UNCHANGED vars

\* ---- visitor pass: files in order, then one metadata record per central record, in order
TraceSVisitStart == IsEvent("SVisitStart") /\ UNCHANGED cl /\ mode' = "visit"
                    /\ Fresh(IF cl.ok /\ Streamable(cl) THEN EntriesOf(cl) ELSE <<>>)
AllOk == \A i \in 1..Len(E) : E[i].ok
TraceSVisitFile ==
   /\ IsEvent("SVisitFile") /\ UNCHANGED <<cl, mode>>
   /\ IF ~Good THEN UNCHANGED vars
      ELSE /\ phase = "files" /\ done < Len(E) /\ E[done + 1].ok
           /\ Check(ev.i = done + 1 /\ ev.name.id = EntryView(cl, done + 1).name /\ ev.usize = EntryView(cl, done + 1).usize)
           /\ E' = E /\ spos' = Start(E, done + 2) /\ cur' = 0 /\ pulled' = 0 /\ phase' = "files" /\ done' = done + 1
           /\ nfile' = nfile + 1 /\ nmeta' = nmeta
TraceSVisitMeta ==
   /\ IsEvent("SVisitMeta") /\ UNCHANGED <<cl, mode>>
   /\ IF ~Good THEN UNCHANGED vars
      ELSE /\ done = Len(E) /\ phase \in {"files", "central"} /\ nmeta < Len(E)
           /\ LET v == EntryView(cl, nmeta + 1) IN
                Check(/\ ev.i = nmeta + 1 /\ ev.nfile_so_far = Len(E)
                      /\ ev.name.id = v.name /\ ev.rawname.id = v.rawname /\ ev.fcomment.id = v.fcomment
                      /\ ev.mode = v.mode /\ ev.is_dir = v.is_dir)
           /\ nmeta' = nmeta + 1 /\ phase' = (IF nmeta + 1 = Len(E) THEN "done" ELSE "central")
           /\ UNCHANGED <<E, spos, cur, pulled, done, nfile>>
TraceSPath == IsEvent("SPath") /\ UNCHANGED <<vars, cl, mode>>        \* judged by Trace_Path (C06)
TraceSVisitEnd ==
   /\ IsEvent("SVisitEnd") /\ ev.r # "panic" /\ UNCHANGED <<vars, cl, mode>>
   /\ Check(Good /\ AllOk => (ev.r = "ok" /\ ev.nfile = Len(E) /\ ev.nmeta = Len(E) /\ phase = "done"))
   /\ Check(Good /\ ~AllOk => ev.r = "unsupported")

TraceInit == /\ l = 1 /\ cl = [ok |-> FALSE] /\ mode = "pull" /\ E = <<>> /\ spos = 0 /\ cur = 0 /\ pulled = 0
             /\ phase = "files" /\ done = 0 /\ nfile = 0 /\ nmeta = 0 /\ TLCSet(1, 0)
TraceNext == TraceReset \/ TraceSOpen \/ TraceSNext \/ TraceSRead \/ TraceSRelease \/ TraceSVisitStart
             \/ TraceSVisitFile \/ TraceSVisitMeta \/ TraceSVisitEnd \/ TraceSPath
TraceSpec == TraceInit /\ [][TraceNext]_tvars
TraceInv == (E # <<>>) => (OnRecordBoundary /\ VisitOrder)
TraceAccepted ==
   LET d == TLCGet("stats").diameter IN
   IF d - 1 = Len(Rec) THEN PrintT(<<"STATS", "streamable", TLCGet(1)>>) ELSE Print(<<"REJECTED", d, ToJson(Rec[d])>>, FALSE)
TraceDiag == /\ l <= Len(Rec) /\ PrintT(<<"DIAG-STATE", ev.sc, l, "good", Good, spos, cur, done, phase, nfile, nmeta, E>>) /\ FALSE /\ UNCHANGED tvars
TraceSpecDiag == TraceInit /\ [][TraceNext \/ TraceDiag]_tvars
=============================================================================
