------------------------------ MODULE PathSan ------------------------------
(***************************************************************************)
(* Sanitising entry names (C06), host = Unix.  A name is a sequence of     *)
(* byte values; 47 = '/', 92 = '\', 46 = '.', 0 = NUL.  '\' is an ordinary *)
(* character of a component for the validating accessor, and a separator   *)
(* for the always-succeeding one (which maps it to '/').                   *)
(*   Enclosed(n) = <<n>> (accept, the path is the name itself) or <<>>     *)
(*   Mangled(n)  = the sequence of ordinary components                     *)
(* Both are defined by an independent lexical walk; the safety theorems    *)
(* relate them to Resolve, the stack-based meaning of joining a relative   *)
(* path onto a base directory.                                             *)
(***************************************************************************)
EXTENDS Naturals, Integers, Sequences

SLASH == 47
BSLASH == 92
DOT == 46
NUL == 0

HasNul(s) == \E i \in 1..Len(s) : s[i] = NUL
Absolute(s) == Len(s) > 0 /\ s[1] = SLASH
\* split at every '/' (empty components included)
RECURSIVE SplitAt(_, _, _)
SplitAt(s, i, acc) ==            \* acc = component collected so far
   IF i > Len(s) THEN <<acc>>
   ELSE IF s[i] = SLASH THEN <<acc>> \o SplitAt(s, i + 1, <<>>)
   ELSE SplitAt(s, i + 1, Append(acc, s[i]))
Split(s) == SplitAt(s, 1, <<>>)
IsCur(c) == c = <<DOT>>
IsParent(c) == c = <<DOT, DOT>>
IsNormal(c) == c # <<>> /\ ~IsCur(c) /\ ~IsParent(c)

\* the depth walk: -1 as soon as the path climbs above its starting directory
RECURSIVE Walk(_, _)
Walk(cs, d) ==
   IF cs = <<>> THEN d
   ELSE LET c == Head(cs) IN
        IF IsParent(c) THEN (IF d = 0 THEN -1 ELSE Walk(Tail(cs), d - 1))
        ELSE IF IsNormal(c) THEN Walk(Tail(cs), d + 1)
        ELSE Walk(Tail(cs), d)
Enclosed(n) == IF HasNul(n) \/ Absolute(n) \/ Walk(Split(n), 0) = -1 THEN <<>> ELSE <<n>>

FirstNul(s) == IF HasNul(s) THEN CHOOSE i \in 1..Len(s) : s[i] = NUL /\ \A j \in 1..(i - 1) : s[j] # NUL ELSE Len(s) + 1
Truncated(s) == SubSeq(s, 1, FirstNul(s) - 1)
Unbackslashed(s) == [i \in 1..Len(s) |-> IF s[i] = BSLASH THEN SLASH ELSE s[i]]
Mangled(n) == SelectSeq(Split(Unbackslashed(Truncated(n))), IsNormal)

\* ---- the deprecated *_from_path calls of the writer: the entry name is the ordinary components joined by '/'
\* ('\\' is an ordinary character of a component on this host; NULs are kept); a directory gets a trailing '/'
RECURSIVE JoinSlash(_)
JoinSlash(cs) == IF cs = <<>> THEN <<>> ELSE IF Len(cs) = 1 THEN cs[1] ELSE cs[1] \o <<SLASH>> \o JoinSlash(Tail(cs))
\* (add_directory appends '/' unless the name already ends in '/' or '\\' - ZipWriter!AddDir)
FromPath(n, dir) == LET j == JoinSlash(SelectSeq(Split(n), IsNormal)) IN
                    IF dir /\ (j = <<>> \/ j[Len(j)] \notin {SLASH, BSLASH}) THEN j \o <<SLASH>> ELSE j
\* such a name is always safe to extract
FromPathSafe(n) == Enclosed(FromPath(n, FALSE)) # <<>> \/ HasNul(n)

\* ---- the meaning of joining a relative path onto a base: stack of directories below the base
RECURSIVE Resolve(_, _)
Resolve(cs, st) ==           \* [esc: it popped the base itself, st: directories below the base]
   IF cs = <<>> THEN [esc |-> FALSE, st |-> st]
   ELSE LET c == Head(cs) IN
        IF IsParent(c) THEN (IF st = <<>> THEN [esc |-> TRUE, st |-> <<>>] ELSE Resolve(Tail(cs), SubSeq(st, 1, Len(st) - 1)))
        ELSE IF IsNormal(c) THEN Resolve(Tail(cs), Append(st, c))
        ELSE Resolve(Tail(cs), st)
Escapes(n) == Absolute(n) \/ Resolve(Split(n), <<>>).esc
\* safety theorems (checked for every enumerated name)
EnclosedSafe(n) == Enclosed(n) # <<>> => (~HasNul(n) /\ ~Escapes(n))
EnclosedComplete(n) == Enclosed(n) = <<>> => (HasNul(n) \/ Escapes(n))          \* it rejects nothing else
MangledSafe(n) == LET m == Mangled(n) IN
   /\ \A i \in 1..Len(m) : IsNormal(m[i]) /\ ~HasNul(m[i]) /\ (\A j \in 1..Len(m[i]) : m[i][j] # SLASH)
   /\ Resolve(m, <<>>) = [esc |-> FALSE, st |-> m]                                                         \* never climbs, stays below the base
=============================================================================
