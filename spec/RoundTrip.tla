----------------------------- MODULE RoundTrip -----------------------------
(***************************************************************************)
(* Composition of the writer model and the reader model (C01, model        *)
(* level): for every order of writer calls (MC_Writer's alphabet) that     *)
(* ends in a successful finish, the layout the writer is REQUIRED to have  *)
(* produced (ZipWriter!ExpLayout) is one the reader model locates exactly  *)
(* (ZipOpen!Locate on its tail), finds readable, and views (ZipOpen!View)  *)
(* as precisely the entries whose creation succeeded, with the metadata    *)
(* the calls supplied and the sizes/CRC the writes produced.  The two      *)
(* models were written independently (writer: APPNOTE + crate docs;        *)
(* reader: Appendix D); this theorem is what ties them together.           *)
(***************************************************************************)
EXTENDS MC_Writer
RD == INSTANCE ZipOpen WITH OBUG <- "none"

NoName == [id |-> EmptyId, len |-> 0, ascii |-> TRUE, tail |-> "", nul |-> FALSE]
\* the expected layout in the shape the reader model consumes (decoded names = names: the writer only emits UTF-8)
ReaderLayout(ww) ==
   LET L == ExpLayout(ww) IN
   [ok |-> TRUE, big |-> <<>>, prefix |-> 0, n |-> L.n, cd_start |-> L.cd_start, cd_end |-> L.cd_end, eocd |-> L.eocd, z64 |-> L.z64,
    gaps |-> L.gaps, overlaps |-> L.overlaps,
    \* sizes and offset are what a reader DECODES from the 32-bit fields and the ZIP64 record (ZipFormat!ParseZ64), not the writer's own values
    cd |-> [i \in 1..Len(L.cd) |->
              LET c == L.cd[i] p == ParseZ64(c.usize32, c.csize32, c.off32, c.zcount = 1, c.zvals) IN
              [k \in DOMAIN c \cup {"dname", "dfcomment", "aes"} |->
               IF k = "dname" THEN c.name ELSE IF k = "dfcomment" THEN NoName ELSE IF k = "aes" THEN <<>>
               ELSE IF k = "usize" THEN p.us ELSE IF k = "csize" THEN p.cs ELSE IF k = "off" THEN p.off ELSE c[k]]],
    lf |-> L.lf]
TailOf(ww) == [p |-> 0, b |-> ww.cdstart, s |-> CdSize(ww.files), n |-> Len(ww.files), c |-> ww.comment.len, g |-> 0,
               z |-> NeedZ64End(Len(ww.files), CdSize(ww.files), ww.cdstart), sent |-> FALSE, dsent |-> FALSE]
EntryAgrees(v, f) ==
   /\ v.name = f.name.id /\ v.rawname = f.name.id /\ v.method = f.method /\ v.date = f.dt[1] /\ v.time = f.dt[2]
   /\ v.crc = f.crc /\ v.usize = f.usize /\ v.csize = f.csize /\ v.hdr = f.hdr /\ v.dstart = f.dstart
   /\ v.mode = UnixModeOf(IF f.sys \in {0, 3} THEN f.sys ELSE 4, f.mode, f.elo) /\ v.enc = f.enc /\ ~v.dd
   /\ v.is_dir = (f.name.tail # "")
RoundTripHolds ==
   (w.fin /\ ~w.foreign) =>
      LET L == ReaderLayout(w) V == RD!View(L) IN
      /\ RD!LocatePre(TailOf(w)) /\ RD!Faithful(TailOf(w))              \* the end records are found, whatever the comment
      /\ RD!Readable(L)
      /\ V.n = Len(w.files) /\ V.offset = 0 /\ V.comment = w.comment.id
      /\ \A i \in 1..Len(w.files) : EntryAgrees(V.files[i], w.files[i])
      \* by-name lookup returns the LAST entry of a name, by construction of both models
      /\ \A i \in 1..Len(w.files) : RD!LastWith(L, w.files[i].name.id) >= i
      \* an entry written without encryption by a supported method opens without a password
      /\ \A i \in 1..Len(w.files) : (w.files[i].method \in RD!Supported /\ ~w.files[i].enc) => RD!OpenDecision(V.files[i], "none", FALSE, FALSE) = "ok"
      /\ \A i \in 1..Len(w.files) : w.files[i].enc => RD!OpenDecision(V.files[i], "none", FALSE, FALSE) = "password_required"
=============================================================================
