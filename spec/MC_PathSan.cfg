CONSTANTS
  MaxLen = 6
SPECIFICATION Spec
INVARIANT Safe
CHECK_DEADLOCK FALSE
