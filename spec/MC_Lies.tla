------------------------------ MODULE MC_Lies ------------------------------
(* enumerates the single lies and the cooperating pairs of Lies.tla and prints them as JSON for the driver *)
EXTENDS Lies, TLC, Json
CONSTANTS NEnt, Pairs
VARIABLES a, b
Init == /\ a \in Singles(NEnt)
        /\ b \in (IF Pairs THEN {x \in Singles(NEnt) : Cooperate(a, x) /\ x.v \in {"zero", "max", "inc", "t32", "half64", "t16", "m99", "enc"}} ELSE {a})
Next == UNCHANGED <<a, b>>
Spec == Init /\ [][Next]_<<a, b>>
Emit == PrintT(<<"LIE", ToJson(IF a = b THEN <<a>> ELSE <<a, b>>)>>)
\* the injection product is printed once (with the first state evaluated)
EmitInjections == (~Pairs /\ a = CHOOSE x \in Singles(NEnt) : TRUE) => \A i \in Injections : PrintT(<<"INJ", ToJson(i)>>)
\* sanity of the generator: every lie names a field that fits its record header, every width has boundary classes
Sane == a.w \in {1, 2, 4, 8} /\ a.off + a.w <= 56 /\ Cardinality(Vals([w |-> a.w, f |-> a.f])) >= 5
=============================================================================
