------------------------------ MODULE PathWalk ------------------------------
(* The depth-counter walk of the validating accessor over a component stream of
   UNBOUNDED length, for Apalache: the inductive invariant IndInv shows that as
   long as the walk has not rejected, its counter equals the true lexical depth
   below the starting directory and the path has never climbed above it. *)
EXTENDS Integers
VARIABLES
  \* @type: Int;
  depth,
  \* @type: Int;
  lex,
  \* @type: Bool;
  rejected,
  \* @type: Bool;
  escaped
Init == depth = 0 /\ lex = 0 /\ rejected = FALSE /\ escaped = FALSE
Normal == /\ ~rejected /\ depth' = depth + 1 /\ lex' = lex + 1 /\ UNCHANGED <<rejected, escaped>>
CurOrEmpty == UNCHANGED <<depth, lex, rejected, escaped>>
Parent == /\ ~rejected
          /\ IF depth = 0
             THEN rejected' = TRUE /\ UNCHANGED <<depth, lex, escaped>>       \* checked_sub fails: None
             ELSE /\ depth' = depth - 1 /\ lex' = lex - 1
                  /\ escaped' = (escaped \/ lex - 1 < 0) /\ UNCHANGED rejected
Stutter == rejected /\ UNCHANGED <<depth, lex, rejected, escaped>>
Next == Normal \/ CurOrEmpty \/ Parent \/ Stutter
IndInv == depth >= 0 /\ (~rejected => (depth = lex /\ ~escaped))
IndInit == depth \in Int /\ lex \in Int /\ rejected \in BOOLEAN /\ escaped \in BOOLEAN /\ IndInv
Safety == ~rejected => ~escaped
=============================================================================
