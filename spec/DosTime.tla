------------------------------ MODULE DosTime ------------------------------
(***************************************************************************)
(* C18: the 16+16-bit MS-DOS date/time words, the range-checked           *)
(* constructor, and the calendar conversions of zip::DateTime.             *)
(* Written from APPNOTE 4.4.6 / the MS-DOS FAT date format and the crate's *)
(* documentation (ranges of from_date_and_time), not from types.rs.        *)
(*   date word:  bits 15-9 year-1980 | bits 8-5 month | bits 4-0 day       *)
(*   time word:  bits 15-11 hour | bits 10-5 minute | bits 4-0 second/2    *)
(* A DateTime is a record of six naturals; nothing about it is validated   *)
(* when it comes from an archive (from_msdos is total).                    *)
(***************************************************************************)
EXTENDS Integers, Sequences
CONSTANT BUG          \* "none", or the name of a known-bad variant (spec mutants, DESIGN section 8)

Word == 0..65535

\* ---- unpacking (from_msdos): total on all 2^16 x 2^16 words
DateFields(d) == [year |-> 1980 + d \div 512, month |-> (d \div 32) % (IF BUG = "month3" THEN 8 ELSE 16), day |-> d % 32]
TimeFields(t) == [hour |-> t \div 2048, minute |-> (t \div 32) % 64, second |-> (IF BUG = "sec_raw" THEN 1 ELSE 2) * (t % 32)]
Unpack(d, t) == [year |-> DateFields(d).year, month |-> DateFields(d).month, day |-> DateFields(d).day,
                 hour |-> TimeFields(t).hour, minute |-> TimeFields(t).minute, second |-> TimeFields(t).second]

\* ---- packing (datepart / timepart): defined on every DateTime the API can construct
PackDate(r) == r.day + 32 * r.month + 512 * (r.year - 1980)
PackTime(r) == (r.second \div 2) + 32 * r.minute + 2048 * r.hour

\* every DateTime value the public API can produce: images of from_msdos, or accepted by the constructor
FromWords(r) == /\ r.year \in 1980..2107 /\ r.month \in 0..15 /\ r.day \in 0..31
                /\ r.hour \in 0..31 /\ r.minute \in 0..63 /\ r.second \in 0..62 /\ r.second % 2 = 0

\* ---- the checked constructor: exactly the documented ranges
CtorAccepts(y, mo, d, h, mi, s) ==
   /\ y \in 1980..2107 /\ mo \in 1..12 /\ d \in 1..31 /\ h \in 0..23 /\ mi \in 0..59 /\ s \in 0..60
Rec6(y, mo, d, h, mi, s) == [year |-> y, month |-> mo, day |-> d, hour |-> h, minute |-> mi, second |-> s]
\* what an accepted value looks like after a trip through an archive (2-second resolution)
Floor2(r) == [r EXCEPT !.second = 2 * (r.second \div 2)]

\* ---- proleptic Gregorian calendar
IsLeap(y) == (y % 4 = 0 /\ (y % 100 # 0 \/ BUG = "leap100")) \/ y % 400 = 0
DaysIn(y, m) == IF m = 2 THEN (IF IsLeap(y) THEN 29 ELSE 28) ELSE IF m \in {4, 6, 9, 11} THEN 30 ELSE 31
ValidDate(y, m, d) == m \in 1..12 /\ d \in 1..DaysIn(y, m)
ValidTime(h, mi, s) == h \in 0..23 /\ mi \in 0..59 /\ s \in 0..59        \* a calendar time has no second 60..62
\* to_time succeeds exactly on real calendar moments
ToTimeOk(r) == ValidDate(r.year, r.month, r.day) /\ ValidTime(r.hour, r.minute, r.second)

\* days since 1970-01-01, first formulation: count whole years and months
LeapsUpTo(n) == n \div 4 - n \div 100 + n \div 400                       \* leap years in 1..n
CumDays == <<0, 31, 59, 90, 120, 151, 181, 212, 243, 273, 304, 334>>
Days(y, m, d) == 365 * (y - 1970) + (LeapsUpTo(y - 1) - LeapsUpTo(1969))
                 + CumDays[m] + (IF m > 2 /\ IsLeap(y) THEN 1 ELSE 0) + (d - 1)
\* second, independent formulation (era arithmetic, H. Hinnant's days_from_civil); MC checks they agree
DaysEra(y, m, d) ==
   LET yy == IF m <= 2 THEN y - 1 ELSE y
       era == yy \div 400
       yoe == yy - era * 400
       mp == IF m > 2 THEN m - 3 ELSE m + 9
       doy == (153 * mp + 2) \div 5 + d - 1
       doe == yoe * 365 + yoe \div 4 - yoe \div 100 + doy
   IN era * 146097 + doe - 719468
\* inverse (civil_from_days), for TryFrom: fields of the calendar day number z
Civil(z) ==
   LET zz == z + 719468
       era == zz \div 146097
       doe == zz - era * 146097
       yoe == (doe - doe \div 1460 + doe \div 36524 - doe \div 146096) \div 365
       doy == doe - (365 * yoe + yoe \div 4 - yoe \div 100)
       mp == (5 * doy + 2) \div 153
       d == doy - (153 * mp + 2) \div 5 + 1
       m == IF mp < 10 THEN mp + 3 ELSE mp - 9
       y == yoe + era * 400 + (IF m <= 2 THEN 1 ELSE 0)
   IN [year |-> y, month |-> m, day |-> d]
SecOfDay(r) == 3600 * r.hour + 60 * r.minute + r.second
\* TryFrom<OffsetDateTime>: accepted iff the (local) year is representable; fields copied, second kept
TryFromAccepts(z) == Civil(z).year \in 1980..2107
TryFromFields(z, sod) == [year |-> Civil(z).year, month |-> Civil(z).month, day |-> Civil(z).day,
                          hour |-> sod \div 3600, minute |-> (sod \div 60) % 60, second |-> sod % 60]
=============================================================================
