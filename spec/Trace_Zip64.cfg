CONSTANTS
  Base = 16777216
  T32hi = 255
  T32lo = 16777215
  TN = 65535
  BUG = "none"
SPECIFICATION TraceSpec
POSTCONDITION TraceAccepted
CHECK_DEADLOCK FALSE
