----------------------------- MODULE MC_Append -----------------------------
(***************************************************************************)
(* C13 at model level: append rounds on top of MC_Writer's alphabet.  When *)
(* the writer has finished, AppendRound re-opens the required layout of    *)
(* the archive just produced (ZipWriter!NewAppendF on ExpLayout) and the   *)
(* full call alphabet continues.  Checked for every history                *)
(* write -> (append ...)* within MaxFiles entries and MaxRounds rounds:    *)
(*  - AppendKeeps: the re-opened writer lists exactly the old entries,     *)
(*    with their persisted metadata, sizes, CRC, offsets and data starts;  *)
(*  - ClosedEntriesImmutable: they are never touched again;                *)
(*  - NoStaleTail: a finished append never ends before the archive it      *)
(*    overwrote did (D10);                                                 *)
(*  - AppendRoundTrip: the reader model views the result as old entries    *)
(*    followed by new ones (RoundTrip!EntryAgrees for all of them).        *)
(***************************************************************************)
EXTENDS RoundTrip
CONSTANT MaxRounds
VARIABLE rounds
avars == <<w, res, last, rounds>>
AView == <<w, res, rounds>>

\* the finished archive as new_append sees it (the independent lexer's record shape)
BaseOf(ww) ==
   LET L == ReaderLayout(ww) IN
   [L EXCEPT !.lf = [i \in 1..Len(L.lf) |-> [k \in DOMAIN L.lf[i] \cup {"rawcrc"} |-> IF k = "rawcrc" THEN ww.files[i].crc ELSE L.lf[i][k]]]]
      @@ [len |-> ww.pos]
Persisted(f) == <<f.name.id, f.name.len, f.method, f.dt, f.crc, f.usize, f.csize, f.hdr, f.dstart, f.mode, f.sys, f.enc, f.cx>>
AppendRound ==
   /\ w.fin /\ ~w.dead /\ rounds < MaxRounds
   /\ w' = NewAppendF(BaseOf(w), TRUE) /\ res' = "ok" /\ rounds' = rounds + 1
   /\ last' = [op |-> "NewAppend", a |-> <<>>]
AInit == Init /\ rounds = 0
ANext == (Next /\ UNCHANGED rounds) \/ AppendRound
ASpec == AInit /\ [][ANext]_avars

AppendKeeps ==
   [][AppendRound => /\ Len(w'.files) = Len(w.files)
                     /\ \A i \in 1..Len(w.files) : Persisted(w'.files[i]) = Persisted(w.files[i])
                     /\ w'.comment = w.comment /\ w'.pos = w.cdstart /\ w'.baselen = w.pos]_avars
NoStaleTail == (w.fin /\ w.foreign) => w.pos >= w.baselen
AppendRoundTrip ==
   (w.fin /\ w.foreign) =>
      LET L == ReaderLayout(w) V == RD!View(L) IN
      /\ RD!LocatePre(TailOf(w)) /\ RD!Faithful(TailOf(w)) /\ RD!Readable(L)
      /\ V.n = Len(w.files) /\ V.comment = w.comment.id
      /\ \A i \in 1..Len(w.files) : EntryAgrees(V.files[i], w.files[i])
=============================================================================
