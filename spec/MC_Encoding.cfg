SPECIFICATION Spec
INVARIANT Laws
INVARIANT Injective
CHECK_DEADLOCK FALSE
