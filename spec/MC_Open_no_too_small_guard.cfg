CONSTANTS
  OBUG = "no_too_small_guard"
  Thr16 = 5
  ThrN = 2
  Thr32 = 60
  Emit = FALSE
SPECIFICATION Spec
INVARIANT LocateFaithful
CHECK_DEADLOCK FALSE
