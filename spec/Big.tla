-------------------------------- MODULE Big --------------------------------
(* Two-limb natural numbers <<hi, lo>> with 0 <= lo < Base.  TLC's integers are 32-bit; sizes
   and offsets beyond 4 GiB (C08) are carried this way (Base = 2^24 in trace validation, a small
   base in MC_Zip64 so that every carry/borrow path is exercised against ordinary integers). *)
EXTENDS Integers
CONSTANT Base
IsBig(b) == b[1] >= 0 /\ b[2] >= 0 /\ b[2] < Base
BInt(n) == <<n \div Base, n % Base>>
ToInt(a) == a[1] * Base + a[2]                      \* (only where the value is known to be small)
BEq(a, b) == a[1] = b[1] /\ a[2] = b[2]
BLt(a, b) == a[1] < b[1] \/ (a[1] = b[1] /\ a[2] < b[2])
BLe(a, b) == a[1] < b[1] \/ (a[1] = b[1] /\ a[2] <= b[2])
BMin(a, b) == IF BLe(a, b) THEN a ELSE b
BMax(a, b) == IF BLe(a, b) THEN b ELSE a
BAdd(a, b) == LET lo == a[2] + b[2] IN <<a[1] + b[1] + lo \div Base, lo % Base>>
BAddInt(a, n) == BAdd(a, BInt(n))
\* a - b for a >= b
BSub(a, b) == IF a[2] >= b[2] THEN <<a[1] - b[1], a[2] - b[2]>> ELSE <<a[1] - b[1] - 1, a[2] + Base - b[2]>>
BZero == <<0, 0>>
=============================================================================
