----------------------------- MODULE LocateProof -----------------------------
(* ZipOpen!LocateFaithful for UNBOUNDED archives at the REAL limits, for Apalache (SMT): for every amount of prepended
   data p, every size b of the local entries, every directory size s, entry count n, comment length c and trailing
   garbage g (all naturals), with or without ZIP64 end records, with or without forced / deferred sentinels, the locate
   algorithm of the seekable reader (end-record search window of 22 + 65535 bytes, locator probed relative to the END
   of the file, forward search for the ZIP64 end record, archive offset = found position - recorded position) returns
   exactly the prefix length, the directory position and the entry count - whenever the archive is one a conforming
   producer emits (ZIP64 records present when a value does not fit; comment + garbage within the search window; no
   garbage behind ZIP64 records).  MC_Open checks the same theorem on a grid at scaled limits.
     apalache-mc check --init=AnyInit --inv=LocateFaithful --length=0 LocateProof.tla
     apalache-mc check --init=AnyInit --inv=NoGuardFaithful --length=0 LocateProof.tla      (must FAIL: no_too_small_guard) *)
EXTENDS Integers
T16 == 65535
T32 == 4294967295
VARIABLES
  \* @type: Int;
  p,
  \* @type: Int;
  b,
  \* @type: Int;
  s,
  \* @type: Int;
  n,
  \* @type: Int;
  c,
  \* @type: Int;
  g,
  \* @type: Bool;
  z,
  \* @type: Bool;
  sent,
  \* @type: Bool;
  dsent
Min(x, y) == IF x < y THEN x ELSE y
ZLen == IF z THEN 76 ELSE 0
FileLen == p + b + s + ZLen + 22 + c + g
EocdPos == p + b + s + ZLen
\* the end record's fields as a producer writes them
FDisk == IF z /\ dsent THEN T16 ELSE 0
FN == IF z /\ sent THEN T16 ELSE Min(n, T16)
FSize == IF z /\ sent THEN T32 ELSE Min(s, T32)
FOff == IF z /\ sent THEN T32 ELSE Min(b, T32)
ProducerOK == (n > T16 \/ s > T32 \/ b > T32) => z
Pre == ProducerOK /\ c + g <= T16 /\ (z => g = 0)
TooSmall == FDisk = T16 \/ FN = T16 \/ FSize = T32 \/ FOff = T32
EocdFound == FileLen >= 22 /\ EocdPos + 22 + T16 >= FileLen
LocatorFound == z /\ g = 0
\* result: ok, archive offset, directory position, entry count (guard = the record-too-small guard of the multi-disk test)
Ok(guard) == IF ~EocdFound THEN FALSE
             ELSE IF ~LocatorFound THEN EocdPos >= FSize + FOff
             ELSE IF (~TooSmall \/ ~guard) /\ FDisk # 0 THEN FALSE
             ELSE ~(EocdPos < 60 \/ p + b + s > EocdPos - 60)
Offset == IF ~LocatorFound THEN EocdPos - FSize - FOff ELSE (p + b + s) - (b + s)
Dir == IF ~LocatorFound THEN FOff + Offset ELSE b + Offset
Count == IF ~LocatorFound THEN FN ELSE n
AnyInit == /\ p \in Nat /\ b \in Nat /\ s \in Nat /\ n \in Nat /\ c \in Nat /\ g \in Nat
           /\ z \in BOOLEAN /\ sent \in BOOLEAN /\ dsent \in BOOLEAN
Next == UNCHANGED <<p, b, s, n, c, g, z, sent, dsent>>
LocateFaithful == Pre => (Ok(TRUE) /\ Offset = p /\ Dir = p + b /\ Count = n)
NoGuardFaithful == Pre => (Ok(FALSE) /\ Offset = p /\ Dir = p + b /\ Count = n)
=============================================================================
