--------------------------- MODULE Trace_Extract ---------------------------
(* C07: each XRun event is one real extraction (ZipArchive::extract or ZipStreamReader::extract)
   of an archive built by the independent builder into a sandboxed directory.  The harness reports
   the entry list (raw name bytes, Unix mode or -1, content length + CRC), the result class,
   whether ANYTHING outside the target directory differs between the before/after snapshots, and
   the tree below the target.  Extract.tla decides what must have happened. *)
EXTENDS Extract, Json, IOUtils
Rec == ndJsonDeserialize(IOEnv.TRACE)
VARIABLE l
ev == Rec[l]
Check(P) == IF P THEN TRUE ELSE FALSE
IsEvent(e) == l <= Len(Rec) /\ Rec[l].ev = e /\ l' = l + 1
Count(i, b) == TLCSet(i, TLCGet(i) + (IF b THEN 1 ELSE 0))
EntriesOf(e) == [i \in 1..Len(e.entries) |-> [name |-> e.entries[i].lraw, cname |-> e.entries[i].raw, mode |-> e.entries[i].mode, data |-> e.entries[i].data]]
Fs0 == (TRoot :> DirNode(DefDir))
TreeOf(t) == [p \in {t[i].p : i \in 1..Len(t)} |->
                LET i == CHOOSE k \in 1..Len(t) : t[k].p = p IN [kind |-> t[i].kind, perm |-> t[i].perm, data |-> t[i].data]]
TraceReset == IsEvent("Reset")
TraceXRun ==
   /\ IsEvent("XRun")
   /\ LET es == EntriesOf(ev)
          r == Run(Fs0, es, ev.via) IN
      /\ Check(ev.r \in {"ok", "err"})                                  \* never a panic, and the archive opens
      /\ Check(~ev.outside_changed /\ ev.target_is_dir)                 \* confinement, whatever the names are
      /\ Check(ev.deffile = DefFile /\ ev.defdir = DefDir)              \* (the runner fixes the umask)
      \* an unsafe name fails the extraction (the seekable extractor only ever sees the central names)
      /\ Check((IF ev.via = "seek" THEN \E i \in 1..Len(es) : Enclosed(es[i].cname) = <<>> ELSE ~AllSafe(es)) => ev.r = "err")
      /\ Check((AllSafe(es) /\ Consistent(es) /\ ~Diverged(es)) => (r.clean /\ r.res = "ok"))
      \* whenever no step met a conflict between names, the outcome is determined: the result class, and - when the extraction
      \* succeeds - the exact tree (directories, files, contents, permission bits).  What a FAILED extraction leaves inside the
      \* target is not something the property states (an extractor may stop at the unsafe name or refuse up front): only
      \* confinement and the error are demanded then
      /\ Check(r.clean => ev.r = r.res)
      /\ Check((r.clean /\ r.res = "ok") => TreeOf(ev.tree) = Below(r.fs))
      /\ Count(1, AllSafe(es) /\ Consistent(es)) /\ Count(2, ~AllSafe(es)) /\ Count(3, r.clean) /\ Count(4, TRUE)
TraceInit == l = 1 /\ \A i \in 1..4 : TLCSet(i, 0)
TraceSpec == TraceInit /\ [][TraceReset \/ TraceXRun]_l
TraceAccepted ==
   LET d == TLCGet("stats").diameter IN
   IF d - 1 = Len(Rec)
   THEN /\ PrintT(<<"STATS", "safe_consistent", TLCGet(1)>>) /\ PrintT(<<"STATS", "unsafe", TLCGet(2)>>)
        /\ PrintT(<<"STATS", "determined", TLCGet(3)>>) /\ PrintT(<<"STATS", "runs", TLCGet(4)>>)
   ELSE Print(<<"REJECTED", d, ToJson(Rec[d])>>, FALSE)
=============================================================================
