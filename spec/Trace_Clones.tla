---------------------------- MODULE Trace_Clones ----------------------------
(***************************************************************************)
(* Trace validation of cloned handles (harness: cexec) against Clones.tla. *)
(* The layout comes from the independent lexer; every COpen must report    *)
(* the data start the bytes determine (CacheIdempotent on the real run)    *)
(* and every CRead must return the slice the handle would get if it were   *)
(* used alone (length and CRC of that slice are computed by the driver     *)
(* from the original data): PerHandleView.                                 *)
(***************************************************************************)
EXTENDS Clones, Json, IOUtils, TLC

Rec == ndJsonDeserialize(IOEnv.TRACE)
VARIABLES l, live
tvars == <<vars, l, live>>
ev == Rec[l]
IsEvent(e) == l <= Len(Rec) /\ Rec[l].ev = e /\ l' = l + 1
Check(P) == IF P THEN TRUE ELSE FALSE

LayOf(L) == [i \in 1..Len(L.cd) |-> [ds |-> L.lf[i].dstart, len |-> L.cd[i].usize]]
Idle == Start(<<>>)
TraceReset == IsEvent("Reset") /\ Idle /\ live' = FALSE
TraceCStart == /\ IsEvent("CStart") /\ ev.r = "ok" /\ ev.L.ok /\ ev.handles <= Cardinality(Handles)
               /\ Start(LayOf(ev.L)) /\ live' = TRUE
TraceCOpen ==
   /\ IsEvent("COpen") /\ live /\ ev.r = "ok" /\ ev.i \in Ents
   /\ ev.pwkind # "wrong"                                     \* a wrong password never opens an entry, whatever other handles did before
   \* (re-opening on a handle releases its previous entry first)
   /\ ent' = [ent EXCEPT ![ev.h] = ev.i] /\ off' = [off EXCEPT ![ev.h] = 0]
   /\ rpos' = [rpos EXCEPT ![ev.h] = ev.dstart]               \* where the handle's reader really is
   /\ cache' = [cache EXCEPT ![ev.i] = ev.dstart]
   /\ Check(ev.usize = lay[ev.i].len)
   /\ UNCHANGED <<lay, ok, half, tpos>> /\ UNCHANGED live
TraceCRead ==
   /\ IsEvent("CRead") /\ live /\ ev.r = "ok" /\ ent[ev.h] # 0
   /\ LET want == IF off[ev.h] + ev.k <= lay[ent[ev.h]].len THEN ev.k ELSE lay[ent[ev.h]].len - off[ev.h] IN
      /\ Check(ev.got = want /\ ev.plen = want /\ ev.crc = ev.pcrc)       \* the slice it would read alone
      /\ off' = [off EXCEPT ![ev.h] = off[ev.h] + ev.got]
      /\ rpos' = [rpos EXCEPT ![ev.h] = rpos[ev.h] + ev.got]
   /\ UNCHANGED <<lay, ent, cache, ok, half, live, tpos>>
\* an open that failed because the handle's own reader failed (injected): the handle has no entry; nothing shared may change
TraceCOpenFault == /\ IsEvent("COpenFault") /\ live /\ ev.r # "panic" /\ ent' = [ent EXCEPT ![ev.h] = 0]
                   /\ UNCHANGED <<lay, off, rpos, cache, ok, half, live, tpos>>
\* what an open entry reports does not change while other handles open, fail to open, or read
TraceCStat == /\ IsEvent("CStat") /\ live /\ ev.r = "ok" /\ ent[ev.h] # 0
              /\ Check(ev.dstart = lay[ent[ev.h]].ds /\ ev.usize = lay[ent[ev.h]].len)
              /\ UNCHANGED <<lay, ent, off, rpos, cache, ok, half, live, tpos>>
TraceCClose == IsEvent("CClose") /\ live /\ ent' = [ent EXCEPT ![ev.h] = 0] /\ UNCHANGED <<lay, off, rpos, cache, ok, half, live, tpos>>
\* handle h replaced by a fresh clone of handle g's archive (Clones!CloneFrom): it starts without an entry, wherever its reader is
TraceCClone == /\ IsEvent("CClone") /\ live /\ ev.r = "ok" /\ ent' = [ent EXCEPT ![ev.h] = 0] /\ off' = [off EXCEPT ![ev.h] = 0]
               /\ UNCHANGED <<lay, rpos, cache, ok, half, live, tpos>>

\* the property in its own words, for archives of ANY kind (damaged entries, wrong passwords that pass the check byte, methods that
\* cannot be decoded): what handle h observed step by step while the other handles were busy is what it observes when its steps run
\* on an archive opened afresh and used by nobody else
TraceCAlone == /\ IsEvent("CAlone") /\ ev.r = "ok" /\ Check(ev.shared = ev.alone /\ Len(ev.shared) > 0)
               /\ UNCHANGED <<vars, live>>

TraceInit == /\ l = 1 /\ live = FALSE /\ lay = <<>> /\ ent = [h \in Handles |-> 0] /\ off = [h \in Handles |-> 0]
             /\ rpos = [h \in Handles |-> 0] /\ cache = <<>> /\ ok = [h \in Handles |-> TRUE] /\ half = [h \in Handles |-> 0]
             /\ tpos = [h \in Handles |-> 0]
TraceNext == TraceReset \/ TraceCStart \/ TraceCOpen \/ TraceCOpenFault \/ TraceCStat \/ TraceCRead \/ TraceCClose \/ TraceCClone \/ TraceCAlone
TraceSpec == TraceInit /\ [][TraceNext]_tvars
\* the model's invariants on the real run: the cache only ever holds the value the bytes determine
TraceInv == live => (CacheIdempotent /\ PerHandleView)
TraceAccepted ==
   LET d == TLCGet("stats").diameter IN
   IF d - 1 = Len(Rec) THEN TRUE ELSE Print(<<"REJECTED", d, ToJson(Rec[d])>>, FALSE)
TraceDiag == /\ l <= Len(Rec) /\ PrintT(<<"DIAG-STATE", ev.sc, l, live, lay, ent, off, cache>>) /\ FALSE /\ UNCHANGED tvars
TraceSpecDiag == TraceInit /\ [][TraceNext \/ TraceDiag]_tvars
=============================================================================
