CONSTANTS
  BUG = "month3"
  Emit = FALSE
SPECIFICATION Spec
INVARIANT WordsRoundTrip
INVARIANT FieldsRoundTrip
INVARIANT CtorFits
INVARIANT CtorCoversCalendar
INVARIANT Calendar
POSTCONDITION Post
CHECK_DEADLOCK FALSE
