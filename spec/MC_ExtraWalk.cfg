CONSTANTS
  WBUG = "none"
  Mark = 99
  MaxRecs = 4
  Emit = FALSE
SPECIFICATION Spec
INVARIANT OnBoundary
INVARIANT WalkFaithful
INVARIANT ValidateExact
PROPERTY Progress
CHECK_DEADLOCK FALSE
