CONSTANTS
  BUG = "none"
  DefFile = 420
  DefDir = 493
SPECIFICATION TraceSpec
POSTCONDITION TraceAccepted
CHECK_DEADLOCK FALSE
