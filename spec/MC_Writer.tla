----------------------------- MODULE MC_Writer -----------------------------
(* Exhaustive configuration of ZipWriter: every order of writer calls over a
   small alphabet, with scaled 16/32-bit thresholds so that the ZIP64 and
   "does not fit" branches are reached.  Serves C12 (fix-point over call
   sequences for <= MaxFiles entries), C02/C08/C17 at model level, and is the
   source of the behaviours replayed on the real writer. *)
EXTENDS ZipWriter, Json

CONSTANTS MaxFiles, MaxChunks, MaxX, EmitEdges

VARIABLE last          \* descriptor of the last call (for replay); hidden by the VIEW
vars == <<w, res, last>>
View == <<w, res>>

Nm(id, n, a, t) == [id |-> id, len |-> n, ascii |-> a, tail |-> t, nul |-> FALSE]
Names  == { Nm("n1", 1, TRUE, ""), Nm("n2", Thr16, FALSE, "/"), Nm("nL", Thr16 + 1, TRUE, "") }
Names2 == { Nm("n1", 1, TRUE, ""), Nm("nL", Thr16 + 1, TRUE, "") }
Names1 == { Nm("n1", 1, TRUE, "") }
DirName(nm) == IF nm.tail = "" THEN Nm(nm.id \o "/", nm.len + 1, nm.ascii, "/") ELSE nm
DT == <<33, 0>>
Opts == { [method |-> m, level |-> lv, large |-> lg, perm |-> NoPerm, dt |-> DT, enc |-> FALSE] :
            m \in {0, 8, 99}, lv \in {NoLevel, 99}, lg \in BOOLEAN }
EncOpts == { [method |-> m, level |-> NoLevel, large |-> FALSE, perm |-> 365, dt |-> DT, enc |-> TRUE] : m \in {0, 8} }
Opts0 == { [method |-> 0, level |-> NoLevel, large |-> lg, perm |-> NoPerm, dt |-> DT, enc |-> FALSE] : lg \in BOOLEAN }
\* the password option on the other entry-creating calls (defect D21: ending extra data on such an entry used to panic)
EncOpts0 == { [method |-> 0, level |-> NoLevel, large |-> FALSE, perm |-> 365, dt |-> DT, enc |-> TRUE] }
Chunks == {0, 3}
XToks == { [id |-> 48879, dsz |-> 1, asz |-> 1, hl |-> 4, h |-> "x"],     \* valid
           [id |-> 1,     dsz |-> 0, asz |-> 0, hl |-> 4, h |-> "z"],     \* ZIP64 id
           [id |-> 10,    dsz |-> 0, asz |-> 0, hl |-> 4, h |-> "r"],     \* reserved id
           [id |-> 48879, dsz |-> 3, asz |-> 1, hl |-> 4, h |-> "t"],     \* truncated body
           [id |-> 48879, dsz |-> 0, asz |-> 0, hl |-> 2, h |-> "h"],     \* truncated header
           [id |-> 48879, dsz |-> Thr16 - 14, asz |-> Thr16 - 14, hl |-> 4, h |-> "b"] } \* fits alone, not with ZIP64
Srcs == { [method |-> 8,  crc |-> "r1", usize |-> 3, csize |-> 2, dt |-> DT, mode |-> 33261, rawid |-> "s1"],
          [method |-> 14, crc |-> "r2", usize |-> Thr32 + 1, csize |-> 1, dt |-> DT, mode |-> NoPerm, rawid |-> "s2"] }
Aligns == {0, 1, 2, 4, 7}
Comments == { [id |-> EmptyId, len |-> 0], [id |-> "c", len |-> Thr16], [id |-> "C", len |-> Thr16 + 1] }

\* the compressed size the model's environment produces for the entry being closed
CS == IF ~NeedsCs(w) THEN 0
      ELSE LET hd == IF w.enc THEN 12 ELSE 0 IN
           IF CompAtClose(w) = 0 THEN w.stats.len + hd ELSE w.stats.len + 1 + hd
Crc(n) == "c" \o ToString(n)
Room == Len(w.files) < MaxFiles

Call(name, args) == last' = [op |-> name, a |-> args]

Init == w = Init0 /\ res = "ok" /\ last = [op |-> "New", a |-> <<>>]
Next ==
   \/ \E nm \in Names, o \in Opts \cup EncOpts : Room /\ StartFile(nm, o, CS) /\ Call("StartFile", <<nm, o>>)
   \/ \E nm \in Names2, o \in Opts \cup EncOpts0 : Room /\ StartFileExtra(nm, o, CS) /\ Call("StartFileExtra", <<nm, o>>)
   \/ \E nm \in Names1, o \in Opts0 \cup EncOpts0, a \in Aligns :
         Room /\ StartFileAligned(nm, o, a, CS, "pad") /\ Call("StartFileAligned", <<nm, o, a>>)
   \/ \E k \in Chunks : /\ w.stats.len + k <= Thr32 + 3 /\ w.gap + k <= 3
                        /\ ~w.wtef
                        /\ WriteData(k, [len |-> w.stats.len + k, crc |-> Crc(w.stats.len + k)], <<>>)
                        /\ Call("Write", <<k>>)
   \/ \E t \in XToks : w.wtef /\ Len(w.xbuf) < MaxX /\ WriteData(0, [len |-> 0, crc |-> ZeroCrc], w.xbuf \o <<t>>) /\ Call("WriteExtra", <<t>>)
   \/ EndExtra /\ Call("EndExtra", <<>>)
   \/ EndLocalStartCentral /\ Call("EndLocalStartCentral", <<>>)
   \/ \E nm \in Names, o \in Opts0 \cup EncOpts0 : Room /\ AddDir(DirName(nm), o, CS) /\ Call("AddDir", <<nm, o>>)
   \/ \E nm \in Names2, o \in Opts0 \cup EncOpts0 : Room /\ AddSymlink(nm, [len |-> 2, crc |-> "t2"], o, CS) /\ Call("AddSymlink", <<nm, o>>)
   \/ \E nm \in Names1, s \in Srcs : Room /\ RawCopy(nm, s, CS) /\ Call("RawCopy", <<nm, s>>)
   \/ \E c \in Comments : SetComment(c) /\ Call("SetComment", <<c>>)
   \/ Flush /\ Call("Flush", <<>>)
   \/ Finish(CS) /\ Call("Finish", <<>>)
   \/ \E k \in {0} : DeadStep(FALSE) /\ Call("Any", <<>>)
Spec == Init /\ [][Next]_vars

\* ---- model-level theorems ------------------------------------------------
LayoutWellFormed == w.fin => WriterWellFormed(ExpLayout(w))
WhyLayout == IF w.fin THEN WhyNot(ExpLayout(w)) ELSE "n/a"
\* a poisoned or closed writer reports an error for every data call
ClosedReports == (w.comp = Closed /\ last.op \in {"Write", "StartFile", "AddDir", "AddSymlink", "RawCopy",
                                                   "StartFileExtra", "StartFileAligned", "Finish", "Flush"}
                  /\ ~w.dead) => (res = "err" \/ (last.op = "Finish" /\ w.fin))
\* documented misuse is reported
MisuseReported ==
   /\ (last.op = "Write" /\ ~w.wtf /\ res = "ok") => FALSE
   /\ TRUE

\* edge dump for the replay generator: one line per explored transition
Edge == IF EmitEdges THEN PrintT(<<"EDGE", w, ToJson(last'), w'>>) ELSE TRUE
=============================================================================
