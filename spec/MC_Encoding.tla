---------------------------- MODULE MC_Encoding ----------------------------
(* Exhaustive sanity of the decoding operators over all one- and two-byte
   strings, both flag values: totality, length laws, ASCII identity, and the
   structural characterisation of valid two-byte UTF-8. *)
EXTENDS Encoding, TLC
VARIABLES a, b, flag
Init == a \in 0..255 /\ b \in -1..255 /\ flag \in BOOLEAN
Next == UNCHANGED <<a, b, flag>>
Spec == Init /\ [][Next]_<<a, b, flag>>
Str == IF b = -1 THEN <<a>> ELSE <<a, b>>
Laws ==
   /\ Len(DecodeCp437(Str)) = Len(Str)
   /\ \A i \in 1..Len(Str) : (Str[i] \in 32..126 => DecodeCp437(Str)[i] = Str[i])
   /\ \A i \in 1..Len(Str) : (Str[i] >= 128 => DecodeCp437(Str)[i] >= 160)          \* high half never maps into ASCII
   /\ (b = -1 => (ValidUtf8(Str) <=> a < 128))
   /\ (b # -1 => (ValidUtf8(Str) <=> ((a < 128 /\ b < 128) \/ (a \in 194..223 /\ b \in 128..191))))
   /\ (ValidUtf8(Str) /\ b # -1 /\ a >= 128 => Utf8(Str) = <<(a - 192) * 64 + b - 128>> /\ Utf8(Str)[1] >= 128)
   /\ Decoded(flag, Str, <<65533>>) # <<-1>>
Injective == \A x \in 0..255 : (Cp437[x + 1] = Cp437[a + 1] => x = a)                  \* the table is a bijection onto its image
=============================================================================
