----------------------------- MODULE AlignProof -----------------------------
(* start_file_aligned for UNBOUNDED offsets, for Apalache (SMT): for every data start ds (any natural) and every
   alignment a in 2..65535, the padding record ZipWriter!AlignedF requires - header 4 bytes + PadLen(ds, a) zero bytes -
   moves the data start to a multiple of a, the padding is smaller than a, and no record is needed exactly when ds is
   aligned already.  MC_Writer checks the same law (invariant Aligned) on its small grid only.
     apalache-mc check --init=AnyInit --inv=Aligned --length=0 AlignProof.tla
     apalache-mc check --init=AnyInit --inv=WrongLaw --length=0 AlignProof.tla      (must FAIL: forgets the record header) *)
EXTENDS Integers
VARIABLES
  \* @type: Int;
  ds,
  \* @type: Int;
  a
Pad == (a - ((ds + 4) % a)) % a                    \* ZipWriter!PadLen
NewStart == IF ds % a = 0 THEN ds ELSE ds + 4 + Pad \* ZipWriter!AlignedF: a record only when needed
AnyInit == ds \in Nat /\ a \in 2..65535
Next == UNCHANGED <<ds, a>>
Aligned == NewStart % a = 0 /\ Pad >= 0 /\ Pad < a /\ NewStart >= ds /\ NewStart - ds <= a + 3
WrongLaw == (ds + Pad) % a = 0
=============================================================================
