---------------------------- MODULE MC_Producer ----------------------------
(* Exhaustive check of Producer.tla: every per-entry freedom of an independent producer (sizes around the
   32-bit limit x forced ZIP64 subsets x position of the ZIP64 record among other records x local ZIP64
   record x differing local extra x data-descriptor style) for one entry, and for two entries additionally
   prepended bytes, bytes between entries, the central directory in either order and duplicate names.
   Theorem ReaderFaithful: the reader model locates the directory (ZipOpen!Locate on the archive's tail)
   and decodes, for the k-th central record, exactly the truth about the entry it describes; lookup by
   name yields the last entry carrying the name.  The realisable cases (small sizes) are printed as CASE
   lines and materialised by the independent builder for the real reader (spec -> implementation). *)
EXTENDS Producer, Json
CONSTANTS N, Full, Emit
RD == INSTANCE ZipOpen WITH OBUG <- "none"

VARIABLE A
Sizes == { <<0, 0>>, <<3, 3>>, <<3, 2>>, <<Thr32 - 1, 2>>, <<Thr32, Thr32>>, <<Thr32 + 1, 2>>, <<Thr32 + 1, Thr32 + 1>>, <<2, Thr32>> }
SmallSizes == { <<3, 3>>, <<3, 2>>, <<Thr32 + 1, 2>> }
Ch(sz, forced, zlast, nother, lz64, lother, lzl, dd, k, aes) ==
   [us |-> sz[1], cs |-> sz[2], forced |-> forced, zlast |-> zlast, nother |-> nother, lz64 |-> lz64, lother |-> lother,
    lzl |-> lzl, dd |-> dd, nlen |-> k, crc |-> IF k = 1 THEN "c1" ELSE "c2", aes |-> aes]
\* (positions of records only matter when there is something to be placed relative to)
Legal(c) == /\ (c.nother = 0 /\ c.aes = "none" => ~c.zlast) /\ (~(c.lz64 /\ (c.lother = 1 \/ c.aes # "none")) => ~c.lzl)
            /\ (c.dd \in {"sig64", "nosig64"} => c.lz64)
            /\ (c.aes = "after" => c.nother = 1 \/ c.lother = 1)         \* (without other records "after" is "before")
            /\ (c.aes # "none" => c.dd = "none" /\ c.cs >= 3)             \* (an encrypted entry is never shorter than its salt, verifier, code)
FullChoices(k) == { c \in { Ch(sz, f, zl, no, lz, lo, lzl, dd, k, ae) :
                             sz \in Sizes, f \in SUBSET {"us", "cs", "off"}, zl \in BOOLEAN, no \in {0, 1}, lz \in BOOLEAN,
                             lo \in {0, 1}, lzl \in BOOLEAN, dd \in DDs, ae \in {"none", "before", "after"} } : Legal(c) }
FewChoices(k) == { c \in { Ch(sz, f, FALSE, 0, lz, lo, FALSE, dd, k, "none") :
                            sz \in SmallSizes, f \in {{}, {"off"}, {"us", "cs", "off"}}, lz \in BOOLEAN, lo \in {0, 1},
                            dd \in {"none", "sig32"} } : Legal(c) }
Archives1 == { [prefix |-> p, gaps |-> <<0>>, order |-> <<1>>, dup |-> FALSE, ents |-> <<c>>] : p \in {0, 7}, c \in FullChoices(1) }
\* (the AE-x record is a one-entry matter: two-entry archives keep it out so that the full product stays enumerable)
C1Set == IF Full = "full" THEN {c \in FullChoices(1) : c.aes = "none"} ELSE FewChoices(1)
Init == IF N = 1 THEN A \in Archives1
        ELSE \E p \in (IF Full = "tiny" THEN {7} ELSE {0, 7}), g \in (IF Full = "tiny" THEN {2} ELSE {0, 2}),
                o \in {<<1, 2>>, <<2, 1>>}, d \in BOOLEAN, c1 \in C1Set, c2 \in FewChoices(2) :
                A = [prefix |-> p, gaps |-> <<0, g>>, order |-> o, dup |-> d, ents |-> <<c1, c2>>]
Next == UNCHANGED A
Spec == Init /\ [][Next]_A

\* ---- layout of the archive ---------------------------------------------------
RECURSIVE PosOf(_, _)
PosOf(a, i) == IF i = 1 THEN a.prefix + a.gaps[1] ELSE PosOf(a, i - 1) + EntryLen(a.ents[i - 1]) + a.gaps[i]
NE(a) == Len(a.ents)
CdStart(a) == PosOf(a, NE(a)) + EntryLen(a.ents[NE(a)])
CdRecLen(a, i) == CDHSize + a.ents[i].nlen + XLenOf(CentralExtra(a.ents[i], PosOf(a, i) - a.prefix))
CdSizeOf(a) == SumSeq([k \in 1..NE(a) |-> CdRecLen(a, a.order[k])])
NameOf(a, i) == IF a.dup THEN "n" ELSE IF i = 1 THEN "n1" ELSE "n2"
TailOf(a) == [p |-> a.prefix, b |-> CdStart(a) - a.prefix, s |-> CdSizeOf(a), n |-> NE(a), c |-> 0, g |-> 0,
              z |-> NeedZ64End(NE(a), CdSizeOf(a), CdStart(a) - a.prefix), sent |-> FALSE, dsent |-> FALSE]
\* the reader's by-name index: later records replace earlier ones
ByName(a, nm) ==
   LET S == {k \in 1..NE(a) : NameOf(a, a.order[k]) = nm} IN
   IF S = {} THEN 0 ELSE IF RBUG = "first_dup" THEN CHOOSE k \in S : \A j \in S : k <= j ELSE CHOOSE k \in S : \A j \in S : j <= k

ReaderFaithful ==
   LET loc == RD!Locate(TailOf(A)) IN
   /\ RD!LocatePre(TailOf(A)) /\ loc.ok /\ loc.offset = A.prefix /\ loc.dir = CdStart(A) /\ loc.n = NE(A)
   \* the k-th entry the reader lists is the one the k-th central record describes, decoded exactly
   /\ \A k \in 1..NE(A) : LET i == A.order[k] IN
         ReadEntry(EmitCentral(A.ents[i], PosOf(A, i) - A.prefix), EmitLocal(A.ents[i]), loc.offset) = Truth(A.ents[i], PosOf(A, i))
   \* lookup by name: the last record of that name in directory order
   /\ \A i \in 1..NE(A) : LET k == ByName(A, NameOf(A, i)) IN
         k > 0 /\ NameOf(A, A.order[k]) = NameOf(A, i) /\ \A j \in 1..NE(A) : NameOf(A, A.order[j]) = NameOf(A, i) => j <= k
\* the producer's own records are well formed: each 32-bit field holds its value or the sentinel with the value in the record
ProducerSane ==
   \A i \in 1..NE(A) : LET ch == A.ents[i] off == PosOf(A, i) - A.prefix c == EmitCentral(ch, off) vals == ZVals(ch, off)
                           p == ParseZ64(c.us32, c.cs32, c.off32, vals # <<>>, vals) IN
      p.exact /\ p.us = ch.us /\ p.cs = ch.cs /\ p.off = off
Realisable(c) == c.us < 4 /\ c.cs < 4
EmitCase == (Emit /\ \A i \in 1..NE(A) : Realisable(A.ents[i])) =>
              PrintT(<<"CASE", ToJson([prefix |-> A.prefix, gaps |-> A.gaps, order |-> A.order, dup |-> A.dup,
                                       ents |-> [i \in 1..NE(A) |-> [k \in DOMAIN A.ents[i] |->
                                                   IF k = "forced" THEN [f \in {"us", "cs", "off"} |-> f \in A.ents[i].forced] ELSE A.ents[i][k]]]])>>)
=============================================================================
