----------------------------- MODULE ZipStream -----------------------------
(***************************************************************************)
(* The front-to-back reader over a non-seekable stream (DESIGN §5.6).      *)
(* The stream position must sit exactly on a record boundary whenever the  *)
(* next header is parsed -- however much of the previous entry the         *)
(* consumer read (none, part, all): releasing an entry drains the rest of  *)
(* its COMPRESSED bytes.  After the last entry the central directory       *)
(* signature ends the iteration; the visitor then delivers one metadata    *)
(* record per central record, in order.                                    *)
(*   E     sequence of entries [hl: header length, cs: compressed size,    *)
(*         ok: streamable (not encrypted, no data descriptor)]             *)
(*   spos  position in the stream;  cur  index of the open entry (0: none) *)
(*   pulled  compressed bytes of the open entry consumed so far            *)
(*   phase "files" | "central" | "done" | "error"                          *)
(*   nfile / nmeta  callbacks delivered by the visitor                      *)
(* BUG: "none" | "no_drain" | "drain_one_short" | "meta_skipped"           *)
(***************************************************************************)
EXTENDS Naturals, Sequences

CONSTANTS MaxEntries, Sizes, BUG
VARIABLES E, spos, cur, pulled, phase, done, nfile, nmeta
vars == <<E, spos, cur, pulled, phase, done, nfile, nmeta>>

Entry == [hl : {30, 31}, cs : Sizes, ok : BOOLEAN]
RECURSIVE Start(_, _)
Start(es, i) == IF i = 1 THEN 0 ELSE Start(es, i - 1) + es[i - 1].hl + es[i - 1].cs
CdStart(es) == Start(es, Len(es) + 1)

Init == /\ E \in UNION {[1..n -> Entry] : n \in 1..MaxEntries}
        /\ spos = 0 /\ cur = 0 /\ pulled = 0 /\ phase = "files" /\ done = 0 /\ nfile = 0 /\ nmeta = 0

\* parse the next local header (or find the central directory)
NextEntry ==
   /\ phase = "files" /\ cur = 0
   /\ IF done = Len(E)
      THEN phase' = "central" /\ UNCHANGED <<E, spos, cur, pulled, done, nfile, nmeta>>
      ELSE LET e == E[done + 1] IN
           IF ~e.ok
           THEN phase' = "error" /\ spos' = spos + e.hl /\ UNCHANGED <<E, cur, pulled, done, nfile, nmeta>>
           ELSE /\ cur' = done + 1 /\ spos' = spos + e.hl /\ pulled' = 0 /\ nfile' = nfile + 1
                /\ UNCHANGED <<E, phase, done, nmeta>>
\* the consumer reads: the decoder pulls k more compressed bytes
Read(k) ==
   /\ cur # 0 /\ k > 0 /\ pulled + k <= E[cur].cs
   /\ pulled' = pulled + k /\ spos' = spos + k
   /\ UNCHANGED <<E, cur, phase, done, nfile, nmeta>>
\* the consumer moves on: the rest of the compressed bytes is drained
Release ==
   /\ cur # 0
   /\ LET rest == E[cur].cs - pulled
          drained == IF BUG = "no_drain" THEN 0
                     ELSE IF BUG = "drain_one_short" /\ rest > 0 THEN rest - 1 ELSE rest IN
      spos' = spos + drained
   /\ done' = cur /\ cur' = 0 /\ pulled' = 0
   /\ UNCHANGED <<E, phase, nfile, nmeta>>
\* visitor: one metadata callback per central record, in order, after all files
Meta ==
   /\ phase = "central" /\ nmeta < Len(E)
   /\ nmeta' = nmeta + (IF BUG = "meta_skipped" THEN 2 ELSE 1)
   /\ phase' = (IF nmeta' >= Len(E) THEN "done" ELSE "central")
   /\ UNCHANGED <<E, spos, cur, pulled, done, nfile>>
Next == NextEntry \/ (\E k \in 1..3 : Read(k)) \/ Release \/ Meta
Spec == Init /\ [][Next]_vars

\* ---- invariants ---------------------------------------------------------
OnRecordBoundary ==
   (phase = "files" /\ cur = 0) => spos = Start(E, done + 1)
InsideEntry == cur # 0 => spos = Start(E, cur) + E[cur].hl + pulled
EndAtDirectory == phase \in {"central", "done"} => (spos = CdStart(E) /\ done = Len(E) /\ nfile = Len(E))
VisitOrder == /\ (nmeta > 0 => nfile = Len(E))          \* metadata only after all files
              /\ (phase = "done" => nmeta = Len(E))      \* exactly once per central record
              /\ nmeta <= Len(E)
=============================================================================
