CONSTANTS
  Thr16 = 40
  ThrN = 0
  Thr32 = 6
  MaxFiles = 1
  MaxChunks = 2
  MaxX = 2
  EmitEdges = FALSE
SPECIFICATION CSpec
VIEW CView
ACTION_CONSTRAINT Cover
CHECK_DEADLOCK FALSE
