---------------------------- MODULE MC_WriterSim ----------------------------
(* MC_Writer with a history of the calls made, for `tlc -simulate`: every
   behaviour of length Depth is printed once as JSON and replayed on the real
   writer (spec -> implementation direction). *)
EXTENDS MC_Writer
CONSTANT Depth
VARIABLE hist
SimInit == Init /\ hist = <<>>
SimNext == Next /\ hist' = Append(hist, last')
SimSpec == SimInit /\ [][SimNext]_<<vars, hist>>
Emit == (Len(hist) = Depth) => PrintT(<<"BEHAVIOUR", ToJson(hist)>>)
=============================================================================
