-------------------------------- MODULE Lies --------------------------------
(***************************************************************************)
(* C05: structure-aware adversarial archives.  A lie replaces one numeric  *)
(* field of an otherwise valid archive by a boundary value; the set below  *)
(* is the full product of (record, field) x value class (filtered by field *)
(* width), and LiePairs the pairs that sit in cooperating records (both in *)
(* the archive trailer, or in the central and local header of one entry).  *)
(* TLC enumerates them (MC_Lies); the conformance driver realises each on  *)
(* several seed archives.  The only requirement on the outcome is          *)
(* Acceptable: every call returns a value or an error.                     *)
(***************************************************************************)
EXTENDS Naturals, Sequences, FiniteSets
\* [rec, f, off (byte offset of the field inside its record), w (width in bytes)]
F(rec, f, off, w) == [rec |-> rec, f |-> f, off |-> off, w |-> w]
Fields == {
   F("eocd", "disk", 4, 2), F("eocd", "cddisk", 6, 2), F("eocd", "n_disk", 8, 2), F("eocd", "n_total", 10, 2),
   F("eocd", "cd_size", 12, 4), F("eocd", "cd_offset", 16, 4), F("eocd", "clen", 20, 2),
   F("z64rec", "rec_size", 4, 8), F("z64rec", "disk", 16, 4), F("z64rec", "cddisk", 20, 4), F("z64rec", "n_disk", 24, 8),
   F("z64rec", "n_total", 32, 8), F("z64rec", "cd_size", 40, 8), F("z64rec", "cd_offset", 48, 8),
   F("z64loc", "disk", 4, 4), F("z64loc", "off", 8, 8), F("z64loc", "ndisks", 16, 4),
   F("central", "flags", 8, 2), F("central", "method", 10, 2), F("central", "crc", 16, 4), F("central", "csize", 20, 4),
   F("central", "usize", 24, 4), F("central", "nlen", 28, 2), F("central", "xlen", 30, 2), F("central", "klen", 32, 2),
   F("central", "disk", 34, 2), F("central", "off", 42, 4), F("central", "sig", 0, 4),
   F("local", "flags", 6, 2), F("local", "method", 8, 2), F("local", "crc", 14, 4), F("local", "csize", 18, 4),
   F("local", "usize", 22, 4), F("local", "nlen", 26, 2), F("local", "xlen", 28, 2), F("local", "sig", 0, 4),
   F("cz64", "len", 2, 2), F("cz64", "v1", 4, 8), F("cz64", "v2", 12, 8), F("cz64", "v3", 20, 8),
   F("lz64", "len", 2, 2), F("lz64", "v1", 4, 8), F("lz64", "v2", 12, 8),
   F("aesx", "len", 2, 2), F("aesx", "version", 4, 2), F("aesx", "vendor", 6, 2), F("aesx", "strength", 8, 1), F("aesx", "inner", 9, 2) }
\* value classes: relative to the honest value ("dec", "inc", "dbl"), absolute boundaries, special codes
Vals(fd) ==
   {"zero", "one", "dec", "inc", "max"}
   \cup (IF fd.w >= 2 THEN {"t16m1", "m99", "m8", "m12", "m93", "m14"} ELSE {})
   \cup (IF fd.w >= 4 THEN {"t16", "t16p1", "t32m1", "half32"} ELSE {})
   \cup (IF fd.w = 8 THEN {"t32", "t32p1", "half64", "max64m1"} ELSE {})
   \cup (IF fd.f = "flags" THEN {"enc", "dd", "enc_dd", "utf8", "strong"} ELSE {})
Lie(fd, v, ent) == [rec |-> fd.rec, f |-> fd.f, off |-> fd.off, w |-> fd.w, v |-> v, ent |-> ent]
PerEntry(fd) == fd.rec \in {"central", "local", "cz64", "lz64", "aesx"}
Singles(nent) == UNION {{Lie(fd, v, e) : v \in Vals(fd), e \in (IF PerEntry(fd) THEN 1..nent ELSE {1})} : fd \in Fields}
Trailer == {"eocd", "z64rec", "z64loc"}
Cooperate(a, b) ==
   /\ <<a.rec, a.f, a.ent>> # <<b.rec, b.f, b.ent>>
   /\ \/ (a.rec \in Trailer /\ b.rec \in Trailer)
      \/ (a.ent = b.ent /\ a.rec \notin Trailer /\ b.rec \notin Trailer)
      \/ (a.rec = "eocd" /\ a.f \in {"n_total", "cd_size", "cd_offset"} /\ b.rec = "central" /\ b.f \in {"nlen", "xlen", "klen", "off"})
(***************************************************************************)
(* Injections: records a liar ADDS to an otherwise honest entry (a lie     *)
(* about a field can only reach records the seed already has).             *)
(*  - a WinZip AES record (0x9901) in the local header, the central header *)
(*    or both, naming any inner method, with and without the encryption    *)
(*    flag, under a supported or unsupported outer method: the readers     *)
(*    take the effective method from the record, so every place that       *)
(*    decides "can I decode this" must look at the SAME method;            *)
(*  - a ZIP64 record with 0..4 values in the local / central header of an  *)
(*    entry whose 32-bit fields hold sentinels in any subset (a record     *)
(*    shorter or longer than the sentinels call for).                      *)
(***************************************************************************)
Wheres == {"local", "central", "both"}
AesInjections == [kind : {"aes"}, outer : {0, 8, 99}, inner : {0, 8, 14, 99}, enc : BOOLEAN, where : Wheres,
                  ver : {1, 2}, strength : {0, 1, 3, 4}]
Z64Injections == [kind : {"z64"}, where : Wheres, nvals : 0..4, sus : BOOLEAN, scs : BOOLEAN, soff : BOOLEAN]
Injections == AesInjections \cup Z64Injections
\* the verdict on any call of the reader surface
Acceptable(class) == class \in {"ok", "err", "io", "invalid", "unsupported", "notfound", "password_required", "invalid_password", "end"}
=============================================================================
