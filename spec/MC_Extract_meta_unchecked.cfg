CONSTANTS
  BUG = "meta_unchecked"
  DefFile = 420
  DefDir = 493
  MaxEntries = 1
  MaxComps = 2
  Diverge = TRUE
  NameSet = "small"
SPECIFICATION Spec
INVARIANT OutsideUntouched
CHECK_DEADLOCK FALSE
