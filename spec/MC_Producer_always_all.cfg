CONSTANTS
  OBUG = "none"
  RBUG = "always_all"
  Thr16 = 5
  ThrN = 2
  Thr32 = 60
  N = 1
  Full = "few"
  Emit = FALSE
SPECIFICATION Spec
INVARIANT ReaderFaithful
INVARIANT ProducerSane
CHECK_DEADLOCK FALSE
