----------------------------- MODULE MC_Zip64 -----------------------------
(* Ties Zip64.tla (two-limb numbers, used at the real thresholds) to the integer formulations in
   ZipFormat.tla / ZipWriter.tla: with a small base (every carry and borrow path is taken) and the
   scaled thresholds of the exhaustive configurations, for ALL values in a grid around the limits,
   the Big arithmetic equals integer arithmetic and every restated rule equals the rule it restates. *)
EXTENDS ZipWriter
CONSTANTS B, MaxV, ZBUG
Z == INSTANCE Zip64 WITH Base <- B, T32hi <- Thr32 \div B, T32lo <- Thr32 % B, TN <- ThrN, BUG <- ZBUG
VARIABLES a, b, c, fl
vars == <<a, b, c, fl, w, res>>        \* (w, res: the writer machine's variables, unused here)
Init == a \in 0..MaxV /\ b \in 0..MaxV /\ c \in 0..MaxV /\ fl \in BOOLEAN /\ w = Init0 /\ res = "ok"
Next == UNCHANGED vars
Spec == Init /\ [][Next]_vars
Bi(n) == Z!BInt(n)
Arithmetic ==
   /\ Z!IsBig(Bi(a)) /\ Z!ToInt(Bi(a)) = a
   /\ Z!ToInt(Z!BAdd(Bi(a), Bi(b))) = a + b /\ Z!IsBig(Z!BAdd(Bi(a), Bi(b)))
   /\ (a >= b => Z!ToInt(Z!BSub(Bi(a), Bi(b))) = a - b /\ Z!IsBig(Z!BSub(Bi(a), Bi(b))))
   /\ (Z!BLe(Bi(a), Bi(b)) <=> a <= b) /\ (Z!BLt(Bi(a), Bi(b)) <=> a < b) /\ (Z!BEq(Bi(a), Bi(b)) <=> a = b)
   /\ Z!ToInt(Z!BMin(Bi(a), Bi(b))) = Min(a, b)
Rules ==
   /\ (Z!Need(Bi(a)) <=> NeedZ64(a)) /\ (Z!NeedC(Bi(a)) <=> NeedZ64C(a))
   /\ Z!ToInt(Z!Clamp(Bi(a))) = Clamp32(a)
   /\ Z!CentralFields(Bi(a), Bi(b), Bi(c)) = [i \in 1..Len(CentralZ64Fields(a, b, c)) |-> Bi(CentralZ64Fields(a, b, c)[i])]
   /\ (Z!NeedEnd(a, Bi(b), Bi(c)) <=> NeedZ64End(a, b, c))
   /\ Z!ClampN(a) = ClampN(a)
   /\ (Z!F32(Bi(a), Bi(b), fl) <=> F32(a, b, fl))
\* the oversize rule: writing c more bytes into an entry holding a, declared large or not - ZipWriter!WriteDataF
WriteRule ==
   LET o  == [method |-> 0, level |-> NoLevel, large |-> fl, perm |-> NoPerm, dt |-> <<33, 0>>, enc |-> FALSE]
       nm == [id |-> "n", len |-> 1, ascii |-> TRUE, tail |-> "", nul |-> FALSE]
       w0 == StartFileF(Init0, nm, o, 0).w
       w1 == [w0 EXCEPT !.stats.len = a]
       r  == WriteDataF(w1, c, [len |-> a + c, crc |-> ZeroCrc], <<>>)
   IN /\ (r.ok <=> Z!WriteOk(Bi(a), Bi(c), fl))
      /\ (~r.ok => r.w.comp = Closed)                  \* poisoned: no finished archive can follow
      /\ (~r.ok => ~FinalizeF(r.w, 0).ok)
=============================================================================
