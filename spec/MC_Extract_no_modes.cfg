CONSTANTS
  BUG = "no_modes"
  DefFile = 420
  DefDir = 493
  MaxEntries = 1
  MaxComps = 2
  NameSet = "full"
SPECIFICATION Spec
INVARIANT TreeExact
CHECK_DEADLOCK FALSE
