----------------------------- MODULE ZipWriter -----------------------------
(***************************************************************************)
(* The archive writer as a state machine, structured like the              *)
(* implementation: one action per public call; the implicit sub-steps      *)
(* (close of the previous entry, end of extra data, switch of compressor,  *)
(* finalisation) are separate step functions with the code's names so a    *)
(* rejected trace can be localised.  This is REQUIRED behaviour (APPNOTE +  *)
(* the crate's documentation + properties C01,C02,C12,C13,C14,C17), with   *)
(* the deliberate quirks of the implementation kept as named branches      *)
(* (DESIGN §5.3).                                                          *)
(*                                                                         *)
(* State is one record `w` (fields named after the struct fields):         *)
(*   comp   0 Stored | 8 | 12 | 93 = active compressor, -1 = Closed        *)
(*   enc    ZipCrypto buffer active                                        *)
(*   wtf, wtef, wcef, wraw   the four mode flags                           *)
(*   files  sequence of entry records                                      *)
(*   xbuf   extra-data records collected so far (tokens); xpre = the part  *)
(*          of it the writer itself put there (alignment padding)          *)
(*   stats  [start, len, crc] of the data written to the open entry        *)
(*   gap    bytes written after a raw copy (absorbed, quirk)               *)
(*   comment, pos (sink position; -1 = not determined: a compressor or the *)
(*   cipher buffer holds bytes), dead (an error left the sink mid-record)  *)
(***************************************************************************)
EXTENDS ZipFormat, TLC

EmptyId == "cbf29ce484222325"      \* identity (FNV-1a) of the empty byte string in the harness's abstraction
NoLevel == -1000
NoPerm  == -1
Closed  == -1

Compressing == {8, 12, 93}
Writable    == {0, 8, 12, 93}
\* documented level ranges (write.rs: FileOptions::compression_level)
LevelOk(m, lv) ==
   \/ lv = NoLevel
   \/ m = 8  /\ lv \in 0..9
   \/ m = 12 /\ lv \in 1..9
   \/ m = 93 /\ lv \in (0-7)..22
   \/ m \notin Compressing          \* StoredIgnoresLevel (quirk: not rejected)

\* header IDs reserved by APPNOTE 4.5.2 / 4.6.1 (plus everything <= 31)
MappedIds == {1, 7, 8, 9, 10, 12, 13, 14, 15, 20, 21, 22, 23, 24, 25, 32, 33, 34, 35, 101, 102,
              18064, 1992, 9733, 9989, 10245, 13133, 17217, 17491, 18180, 18191, 19270, 19521,
              19785, 20300, 21334, 21589, 21838, 22613, 25461, 25922, 28789, 30062, 30805,
              41246, 41504, 64842, 39169, 39170}
ReservedId(id) == id <= 31 \/ id \in MappedIds

\* ---- extra-data tokens: [id, dsz (declared), asz (actual), hl (header bytes present), h] ----
XLen(x)   == SumSeq([i \in 1..Len(x) |-> x[i].hl + x[i].asz])
XTokOk(t) == t.hl = 4 /\ t.id # 1 /\ ~ReservedId(t.id) /\ t.dsz = t.asz
XValid(x) == XLen(x) <= Thr16 /\ \A i \in 1..Len(x) : XTokOk(x[i])
XTlv(x)   == [i \in 1..Len(x) |-> [id |-> x[i].id, len |-> x[i].dsz, h |-> x[i].h]]

\* ---- entries ------------------------------------------------------------
LargeX(f) == IF f.large THEN LocalZ64X ELSE 0
HdrLen(nm, large) == LFHSize + nm.len + (IF large THEN LocalZ64X ELSE 0)
NewEntry(nm, kind, m, lv, large, enc, dt, mode, hdr, crc, us, cs) ==
   [name |-> nm, kind |-> kind, method |-> m, level |-> lv, large |-> large, enc |-> enc,
    dt |-> dt, mode |-> mode, sys |-> 3, crc |-> crc, usize |-> us, csize |-> cs,
    hdr |-> hdr, dstart |-> hdr + HdrLen(nm, large), lx |-> <<>>, cx |-> <<>>, fresh |-> TRUE,
    rawsrc |-> "", klen |-> 0, elo |-> 0, lname |-> nm.id, aesinner |-> -1, ae2 |-> FALSE]

ZeroCrc == "00000000"
LastIx(w) == Len(w.files)
Last(w)   == w.files[Len(w.files)]

Init0 == [comp |-> 0, enc |-> FALSE, wtf |-> FALSE, wtef |-> FALSE, wcef |-> FALSE, wraw |-> FALSE,
          files |-> <<>>, xbuf |-> <<>>, xpre |-> <<>>, stats |-> [start |-> 0, len |-> 0, crc |-> ZeroCrc], gap |-> 0,
          comment |-> [id |-> EmptyId, len |-> 0], pos |-> 0, dead |-> FALSE, foreign |-> FALSE,
          fin |-> FALSE, cdstart |-> 0, al |-> 0, gaps |-> <<>>, strict |-> TRUE, baselen |-> 0]

Ok(w) == [w |-> w, ok |-> TRUE]
Er(w) == [w |-> w, ok |-> FALSE]
Poison(w) == [w EXCEPT !.comp = Closed, !.enc = FALSE, !.pos = -1]

(***************************************************************************)
(* end_extra_data                                                          *)
(***************************************************************************)
EndExtraF(w) ==
   IF ~w.wtef THEN Er(w)                                    \* never begun: misuse
   ELSE IF w.comp = Closed THEN Er(w)                       \* poisoned writer: every call errs
   ELSE IF ~XValid(w.xbuf) \/ XLen(w.xbuf) + LargeX(Last(w)) > Thr16
        THEN Er(w)                                          \* StuckOnInvalidExtra: nothing cleared
   ELSE LET k == LastIx(w) E == Last(w) IN
        IF w.wcef
        THEN Ok([w EXCEPT !.files[k].cx = XTlv(w.xbuf), !.wtef = FALSE, !.wcef = FALSE])
        ELSE LET n  == XLen(w.xbuf)
                 w1 == [w EXCEPT !.files[k].lx = XTlv(w.xbuf), !.files[k].cx = XTlv(w.xbuf),
                                 !.files[k].dstart = E.dstart + n, !.pos = E.dstart + n,
                                 !.stats.start = E.dstart + n]
             IN IF E.method \in Writable /\ LevelOk(E.method, E.level)
                THEN Ok([w1 EXCEPT !.comp = E.method, !.wtef = FALSE, !.wcef = FALSE, !.files[k].level = NoLevel,
                                   !.pos = IF E.method = 0 THEN w1.pos ELSE -1])
                ELSE Er(Poison(w1))                          \* PoisonOnBadLevel / unsupported method

(***************************************************************************)
(* finish_file: implicit close of the previous entry.  `cs` is the         *)
(* compressed size the environment (compressor) produced for it.           *)
(***************************************************************************)
\* data start of the last entry once a pending extra-data phase has been ended
DStartAtClose(w) ==
   IF w.wtef /\ ~w.wcef /\ XValid(w.xbuf) THEN Last(w).dstart + XLen(w.xbuf) ELSE Last(w).dstart
\* compressor active at close time
CompAtClose(w) ==
   IF w.wtef /\ ~w.wcef THEN Last(w).method ELSE w.comp
CsOk(w, cs) ==
   LET hd == IF w.enc THEN 12 ELSE 0 IN
   IF CompAtClose(w) = 0 THEN cs = w.stats.len + hd ELSE cs >= hd
NeedsCs(w) == w.files # <<>> /\ ~w.wraw

FinishFileF(w, cs) ==
   LET r1 == IF w.wtef THEN EndExtraF(w) ELSE Ok(w) IN
   IF ~r1.ok THEN r1
   ELSE LET w1 == r1.w IN
        IF w1.comp = Closed THEN Er(w1)
        ELSE IF w1.files = <<>> \/ w1.wraw
             THEN Ok([w1 EXCEPT !.comp = 0, !.enc = FALSE, !.wtf = FALSE, !.wraw = FALSE, !.gap = 0,
                                \* WriteAfterRawCopyIsGap: the absorbed bytes stay in the file, unaccounted
                                !.gaps = IF w1.gap > 0 /\ w1.pos # -1
                                         THEN Append(w1.gaps, [from |-> w1.pos - w1.gap, to |-> w1.pos]) ELSE w1.gaps])
             ELSE LET k == LastIx(w1) E == Last(w1) IN
                  IF ~E.large /\ cs > Thr32
                  THEN Er([w1 EXCEPT !.dead = TRUE, !.pos = -1])   \* sizes do not fit: sink left inside the header
                  ELSE Ok([w1 EXCEPT !.files[k].crc = w1.stats.crc, !.files[k].usize = w1.stats.len,
                                     !.files[k].csize = cs, !.pos = E.dstart + cs,
                                     !.comp = 0, !.enc = FALSE, !.wtf = FALSE, !.wraw = FALSE, !.gap = 0])

(***************************************************************************)
(* start_entry                                                             *)
(***************************************************************************)
StartEntryF(w, nm, kind, m, lv, large, enc, dt, mode, cs, raw) ==
   IF nm.len > Thr16 THEN Er(w)                              \* Unrepresentable => err (C02)
   ELSE LET r1 == FinishFileF(w, cs) IN
        IF ~r1.ok THEN r1
        ELSE LET w1 == r1.w
                 e  == NewEntry(nm, kind, m, lv, large, enc, dt, mode, w1.pos,
                                raw.crc, raw.usize, raw.csize)
             IN Ok([w1 EXCEPT !.files = Append(w1.files, e), !.pos = e.dstart, !.enc = enc,
                              !.stats = [start |-> e.dstart, len |-> 0, crc |-> ZeroCrc],
                              !.xbuf = <<>>, !.xpre = <<>>])
NoRaw == [crc |-> ZeroCrc, usize |-> 0, csize |-> 0]

FileMode(perm)    == (IF perm = NoPerm THEN 420 ELSE perm % 512) + 32768      \* 0o644 | 0o100000
DirMode(perm)     == (IF perm = NoPerm THEN 493 ELSE perm % 512) + 16384      \* 0o755 | 0o040000
SymlinkMode(perm) == (IF perm = NoPerm THEN 511 ELSE perm % 512) + 40960      \* 0o777 | 0o120000

\* options record o: [method, level, large, perm, dt, enc]
StartFileF(w, nm, o, cs) ==
   LET r == StartEntryF(w, nm, "file", o.method, o.level, o.large, o.enc, o.dt, FileMode(o.perm), cs, NoRaw) IN
   IF ~r.ok THEN r
   ELSE IF o.method \in Writable /\ LevelOk(o.method, o.level)
        THEN Ok([r.w EXCEPT !.comp = o.method, !.wtf = TRUE, !.files[Len(r.w.files)].level = NoLevel,
                            !.pos = IF o.method = 0 /\ ~o.enc THEN r.w.pos ELSE -1])
        ELSE Er(Poison(r.w))                                 \* header already emitted; writer poisoned

StartFileExtraF(w, nm, o, cs) ==
   LET r == StartEntryF(w, nm, "file", o.method, o.level, o.large, o.enc, o.dt, FileMode(o.perm), cs, NoRaw) IN
   IF ~r.ok THEN r ELSE Ok([r.w EXCEPT !.wtf = TRUE, !.wtef = TRUE])

\* write: k bytes accepted, acc = [len, crc] of everything accepted for this entry so far
\* xt = the extra-data records formed by ALL bytes written since the extra phase began
WriteDataF(w, k, acc, xt) ==
   IF ~w.wtf THEN Er(w)                                      \* no file started / after dir, symlink, finish
   ELSE IF w.comp = Closed THEN Er(w)
   ELSE IF w.wtef THEN Ok([w EXCEPT !.xbuf = w.xpre \o xt]) \* extra phase: bytes are collected, not written
   ELSE IF w.wraw
        THEN Ok([w EXCEPT !.gap = w.gap + k, !.pos = IF w.pos = -1 THEN -1 ELSE w.pos + k]) \* WriteAfterRawCopyIsGap
   ELSE LET n  == w.stats.len + k
            w1 == [w EXCEPT !.stats.len = n, !.stats.crc = acc.crc,
                            !.pos = IF w.comp = 0 /\ ~w.enc /\ w.pos # -1 THEN w.pos + k ELSE -1]
        IN IF n > Thr32 /\ ~Last(w).large THEN Er(Poison(w1))   \* PoisonOnOversize
           ELSE Ok(w1)

EndLocalStartCentralF(w) ==
   LET r == EndExtraF(w) IN
   IF ~r.ok THEN r
   ELSE Ok([r.w EXCEPT !.files[LastIx(w)].cx = <<>>, !.xbuf = <<>>, !.xpre = <<>>, !.wtef = TRUE, !.wcef = TRUE])

\* start_file_aligned: pad record 0x617a so that the data start becomes a multiple of `a`
PadLen(ds, a) == (a - ((ds + 4) % a)) % a
AlignedF(w, nm, o, a, cs, padh) ==
   LET r == StartFileExtraF(w, nm, o, cs) IN
   IF ~r.ok THEN [w |-> r.w, ok |-> FALSE, ret |-> 0]
   ELSE LET w1 == r.w
            ds == Last(w1).dstart
        IN IF a > 1 /\ ds % a # 0
           THEN LET pl  == PadLen(ds, a)
                    tok == [id |-> 24954, dsz |-> pl, asz |-> pl, hl |-> 4, h |-> padh]
                    r2  == EndLocalStartCentralF([w1 EXCEPT !.xbuf = <<tok>>, !.xpre = <<tok>>])
                IN IF ~r2.ok THEN [w |-> r2.w, ok |-> FALSE, ret |-> 0]
                   ELSE LET r3 == EndExtraF(r2.w) IN [w |-> r3.w, ok |-> r3.ok, ret |-> 4 + pl]
           ELSE LET r3 == EndExtraF(w1) IN [w |-> r3.w, ok |-> r3.ok, ret |-> 0]

AddDirF(w, dnm, o, cs) ==
   LET r == StartEntryF(w, dnm, "dir", 0, o.level, o.large, o.enc, o.dt, DirMode(o.perm), cs, NoRaw) IN
   IF ~r.ok THEN r ELSE Ok([r.w EXCEPT !.wtf = FALSE])
AddSymlinkF(w, nm, tgt, o, cs) ==
   LET r == StartEntryF(w, nm, "sym", 0, o.level, o.large, o.enc, o.dt, SymlinkMode(o.perm), cs, NoRaw) IN
   IF ~r.ok THEN r
   ELSE Ok([r.w EXCEPT !.wtf = FALSE, !.stats.len = tgt.len, !.stats.crc = tgt.crc,
                       !.pos = IF o.enc THEN -1 ELSE r.w.pos + tgt.len])

\* raw copy: src = the source entry as the reader presents it
\*   [method, crc, usize, csize, dt, mode (or NoPerm), rawid]
RawCopyF(w, nm, src, cs) ==
   LET large == Max(src.csize, src.usize) > Thr32
       mode  == IF src.mode = NoPerm THEN 33188 ELSE src.mode % 512     \* RawCopyKeepsPermBitsOnly
       r == StartEntryF(w, nm, "raw", src.method, NoLevel, large, FALSE, src.dt, mode, cs,
                        [crc |-> src.crc, usize |-> src.usize, csize |-> src.csize])
   IN IF ~r.ok THEN r
      ELSE Ok([r.w EXCEPT !.wtf = TRUE, !.wraw = TRUE, !.pos = r.w.pos + src.csize,
                          !.files[Len(r.w.files)].rawsrc = src.rawid])

(***************************************************************************)
(* new_append: the writer continues an existing archive.  L is the base as *)
(* the independent lexer sees it.  Entries keep their (absolute) header    *)
(* offsets; the directory is re-emitted from what a reader of the base     *)
(* knows: name (as decoded, re-encoded as UTF-8), method, time, CRC, sizes, *)
(* attributes and central extra                                            *)
(* data (file comments are not carried).  The sink is positioned on the    *)
(* old directory; the last old entry must not be patched (wraw).           *)
(***************************************************************************)
SysOf(vmade) == LET s == vmade \div 256 IN IF s \in {0, 3} THEN s ELSE 4
OldEntry(L, i) ==
   LET c == L.cd[i] lf == L.lf[i] IN
   [name |-> c.dname, kind |-> "old", method |-> c.method, level |-> NoLevel, large |-> c.zcount > 0,
    enc |-> FEnc(c.flags), dt |-> <<c.date, c.time>>, mode |-> c.eattr_hi, sys |-> SysOf(c.vmade), crc |-> c.crc,
    usize |-> c.usize, csize |-> c.csize, hdr |-> L.prefix + c.off, dstart |-> lf.dstart,
    lx |-> <<>>, cx |-> [j \in 1..Len(c.extra) |-> [id |-> c.extra[j].id, len |-> c.extra[j].len, h |-> c.extra[j].h]],
    fresh |-> FALSE, rawsrc |-> lf.rawcrc, klen |-> 0, elo |-> c.eattr_lo, lname |-> lf.name.id,
    \* (an old WinZip-AES entry: its header method field stays 99 - as in its local header, defect D19 - and the reader reports the
    \*  real method named by its AE-x record)
    aesinner |-> IF c.aes # <<>> THEN c.aes[1].inner ELSE -1, ae2 |-> (c.aes # <<>> /\ c.aes[1].ver = 2)]
NewAppendF(L, strict) ==
   [Init0 EXCEPT !.files = [i \in 1..NEntries(L) |-> OldEntry(L, i)],
                 !.comment = [id |-> L.eocd.comment.id, len |-> L.eocd.comment.len],
                 !.pos = L.cd_start, !.wraw = TRUE, !.foreign = TRUE, !.strict = strict, !.baselen = L.len,
                 !.gaps = (IF L.prefix > 0 THEN <<[from |-> 0, to |-> L.prefix]>> ELSE <<>>)
                          \o [j \in 1..Len(L.gaps) |-> [from |-> L.gaps[j].from, to |-> L.gaps[j].to]]]

\* finalize: central directory + end records
CdLen(f) == CDHSize + f.name.len + CentralZ64Len(f.usize, f.csize, f.hdr) + XBytes(f.cx)
CdSize(fs) == SumSeq([i \in 1..Len(fs) |-> CdLen(fs[i])])
CdFits(fs) == \A i \in 1..Len(fs) : CentralZ64Len(fs[i].usize, fs[i].csize, fs[i].hdr) + XBytes(fs[i].cx) <= Thr16
FinalizeF(w, cs) ==
   IF w.comment.len > Thr16 THEN Er(w)                       \* Unrepresentable => err (C02)
   ELSE LET r == FinishFileF(w, cs) IN
        IF ~r.ok THEN r
        ELSE IF ~CdFits(r.w.files) THEN Er([r.w EXCEPT !.dead = TRUE, !.pos = -1])
        ELSE LET w1 == r.w
                 cds == CdSize(w1.files)
                 tail(at) == (IF NeedZ64End(Len(w1.files), cds, at) THEN Z64Rec + Z64Loc ELSE 0) + EOCDSize + w1.comment.len
                 \* appending: the re-emitted directory + end records must not end before the archive they overwrite did
                 \* (the old end record would otherwise survive behind the new one); the directory is moved up by a gap
                 end0 == w1.pos + cds + tail(w1.pos)
                 gap == IF end0 < w1.baselen THEN w1.baselen - end0 ELSE 0
                 at == w1.pos + gap
             IN Ok([w1 EXCEPT !.pos = at + cds + tail(at), !.comp = Closed, !.fin = TRUE, !.cdstart = at,
                              \* (a gap that continues the previous one - the old directory's place after an earlier shrinking
                              \*  append - is one uncovered range)
                              !.gaps = IF gap = 0 THEN w1.gaps
                                       ELSE IF w1.gaps # <<>> /\ w1.gaps[Len(w1.gaps)].to = w1.pos
                                            THEN [w1.gaps EXCEPT ![Len(w1.gaps)].to = at]
                                            ELSE Append(w1.gaps, [from |-> w1.pos, to |-> at])])

(***************************************************************************)
(* The state machine.  `res` is the result class of the last call.         *)
(***************************************************************************)
VARIABLES w, res
wvars == <<w, res>>

Step(r) == w' = [r.w EXCEPT !.al = 0] /\ res' = (IF r.ok THEN "ok" ELSE "err")
\* a dead writer (an earlier error left the sink inside a record): later calls may do anything
\* but panic, and finishing must not succeed
DeadStep(isFinish) == w.dead /\ w' = w /\ res' \in (IF isFinish THEN {"err"} ELSE {"ok", "err"})

New          == w' = Init0 /\ res' = "ok"
\* (on a finished writer the comment can still be set but no longer reaches any bytes)
SetComment(c) == w' = (IF w.fin THEN w ELSE [w EXCEPT !.comment = c]) /\ res' = "ok"
StartFile(nm, o, cs)       == ~w.dead /\ Step(StartFileF(w, nm, o, cs))
StartFileExtra(nm, o, cs)  == ~w.dead /\ Step(StartFileExtraF(w, nm, o, cs))
StartFileAligned(nm, o, a, cs, padh) ==
   ~w.dead /\ LET r == AlignedF(w, nm, o, a, cs, padh) IN
      w' = [r.w EXCEPT !.al = IF r.ok THEN a ELSE 0] /\ res' = (IF r.ok THEN "ok" ELSE "err")
WriteData(k, acc, xt) == ~w.dead /\ Step(WriteDataF(w, k, acc, xt))
EndExtra            == ~w.dead /\ Step(EndExtraF(w))
EndLocalStartCentral == ~w.dead /\ Step(EndLocalStartCentralF(w))
AddDir(dnm, o, cs)  == ~w.dead /\ Step(AddDirF(w, dnm, o, cs))
AddSymlink(nm, tgt, o, cs) == ~w.dead /\ Step(AddSymlinkF(w, nm, tgt, o, cs))
RawCopy(nm, src, cs) == ~w.dead /\ Step(RawCopyF(w, nm, src, cs))
Flush  == ~w.dead /\ w' = w /\ res' = (IF w.comp = Closed THEN "err" ELSE "ok")
Finish(cs) == ~w.dead /\ Step(FinalizeF(w, cs))
\* Drop: as Finish when not closed, errors swallowed; otherwise nothing
Drop(cs) == /\ ~w.dead /\ res' = "ok"
            /\ w' = IF w.comp = Closed THEN w ELSE FinalizeF(w, cs).w

(***************************************************************************)
(* Invariants (DESIGN §5.3)                                                *)
(***************************************************************************)
ModeConsistent ==          \* the facts the code's unwrap()/get_plain() rely on   [C12]
   /\ (w.wtef => w.wtf /\ w.files # <<>>)
   /\ (w.wcef => w.wtef)
   /\ (w.comp \in Compressing => w.wtf)
   /\ (w.enc => w.files # <<>> \/ w.comp = Closed)      \* (a directory or symlink created with a password keeps the cipher until the next call closes it)
   /\ (w.wraw /\ w.wtf => w.files # <<>>)
   /\ (w.wtf => w.files # <<>>)

\* an aligned start that succeeded really is aligned                                  [C17]
Aligned == w.al > 1 => Last(w).dstart % w.al = 0
\* nothing the format cannot represent survives to a finished archive                [C02]
NoTruncation == w.fin =>
   /\ w.comment.len <= Thr16
   /\ \A i \in 1..Len(w.files) : LET f == w.files[i] IN
         f.name.len <= Thr16 /\ LargeX(f) + XBytes(f.lx) <= Thr16
         /\ CentralZ64Len(f.usize, f.csize, f.hdr) + XBytes(f.cx) <= Thr16
\* no finished archive carries sizes that do not fit their fields                     [C08]
NoWrappedSizes == w.fin => \A i \in 1..Len(w.files) :
   LET f == w.files[i] IN (~f.large /\ f.fresh /\ f.kind # "raw") => (f.usize <= Thr32 /\ f.csize <= Thr32)
\* entries other than the last are never touched again                               [C13]
ClosedEntriesImmutable ==
   [][Len(w'.files) >= Len(w.files) => \A i \in 1..(Len(w.files) - 1) : w'.files[i] = w.files[i]]_wvars

\* the layout the writer is required to have produced when finish succeeded: every entry as a
\* (central, local) record pair in the shape ZipFormat!WellFormed judges
FlagsOf(f) == (IF f.enc THEN 1 ELSE 0) + (IF f.name.ascii THEN 0 ELSE 2048)
ExpCentral(f, at) ==
   [pos |-> at, size |-> CdLen(f), flags |-> FlagsOf(f), method |-> f.method, time |-> f.dt[2], date |-> f.dt[1],
    crc |-> f.crc, csize32 |-> Clamp32(f.csize), usize32 |-> Clamp32(f.usize), off32 |-> Clamp32(f.hdr),
    usize |-> f.usize, csize |-> f.csize, off |-> f.hdr, nlen |-> f.name.len, name |-> f.name,
    xlen |-> CentralZ64Len(f.usize, f.csize, f.hdr) + XBytes(f.cx), klen |-> 0, xjunk |-> 0,
    zcount |-> IF CentralZ64Len(f.usize, f.csize, f.hdr) > 0 THEN 1 ELSE 0, zvals |-> CentralZ64Fields(f.usize, f.csize, f.hdr),
    \* what a reader recovers from the emitted fields must be the entry's values (not true by fiat: D17)
    z64_exact |-> LET vals == CentralZ64Fields(f.usize, f.csize, f.hdr)
                      p == ParseZ64(Clamp32(f.usize), Clamp32(f.csize), Clamp32(f.hdr), vals # <<>>, vals)
                  IN p.exact /\ p.us = f.usize /\ p.cs = f.csize /\ p.off = f.hdr,
    eattr_hi |-> f.mode, eattr_lo |-> f.elo, vmade |-> f.sys * 256 + 46, extra |-> f.cx]
ExpLocal(f) ==
   [ok |-> TRUE, pos |-> f.hdr, flags |-> FlagsOf(f), method |-> f.method, time |-> f.dt[2], date |-> f.dt[1],
    crc |-> f.crc, usize |-> f.usize, csize |-> f.csize, nlen |-> f.name.len, name |-> f.name,
    xlen |-> LargeX(f) + XBytes(f.lx), dstart |-> f.dstart, xjunk |-> 0, zcount |-> IF f.large THEN 1 ELSE 0,
    z64_ok |-> TRUE, data_in_range |-> TRUE, dd |-> <<>>,
    dec |-> [tried |-> FALSE, ok |-> FALSE, len |-> 0, crc |-> ZeroCrc], extra |-> f.lx]
RECURSIVE CdPositions(_, _)
CdPositions(fs, at) == IF fs = <<>> THEN <<>> ELSE <<at>> \o CdPositions(Tail(fs), at + CdLen(Head(fs)))
ExpLayout(ww) ==
   LET fs  == ww.files
       cdstart == ww.cdstart
       n   == Len(fs)
       cps == CdPositions(fs, cdstart)
       cde == cdstart + CdSize(fs)
       z   == NeedZ64End(n, cde - cdstart, cdstart)
       ep  == cde + (IF z THEN Z64Rec + Z64Loc ELSE 0)
   IN [ok |-> TRUE, prefix |-> 0, n |-> n, cd_start |-> cdstart, cd_end |-> cde,
       cd |-> [i \in 1..n |-> ExpCentral(fs[i], cps[i])], lf |-> [i \in 1..n |-> ExpLocal(fs[i])],
       eocd |-> [pos |-> ep, disk |-> 0, cddisk |-> 0, n_disk |-> ClampN(n), n_total |-> ClampN(n),
                 cd_size |-> Clamp32(cde - cdstart), cd_offset |-> Clamp32(cdstart),
                 clen |-> ww.comment.len, comment |-> ww.comment, trailing |-> 0],
       z64 |-> IF z THEN <<[loc_pos |-> cde + Z64Rec, loc_disk |-> 0, loc_off |-> cde, loc_ndisks |-> 1,
                            rec_pos |-> cde, rec_size |-> 44, disk |-> 0, cddisk |-> 0, n_disk |-> n,
                            n_total |-> n, cd_size |-> cde - cdstart, cd_offset |-> cdstart]>> ELSE <<>>,
       gaps |-> ww.gaps, overlaps |-> <<>>, big |-> <<>>]
=============================================================================
