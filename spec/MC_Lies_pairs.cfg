CONSTANTS
  NEnt = 2
  Pairs = TRUE
SPECIFICATION Spec
INVARIANT Sane
INVARIANT Emit
CHECK_DEADLOCK FALSE
