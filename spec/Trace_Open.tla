----------------------------- MODULE Trace_Open -----------------------------
(***************************************************************************)
(* Trace validation of reader scenarios (harness: rexec).  The harness     *)
(* logs the independent lexer's layout of the bytes next to everything the *)
(* real seekable reader reports; the expectations are ZipOpen!View of that *)
(* layout and ZipOpen!OpenDecision.                                        *)
(***************************************************************************)
EXTENDS ZipOpen, Encoding, Json, IOUtils, Sequences

Rec == ndJsonDeserialize(IOEnv.TRACE)
VARIABLES l, cur, opened
tvars == <<l, cur, opened>>
ev == Rec[l]
IsEvent(e) == l <= Len(Rec) /\ Rec[l].ev = e /\ l' = l + 1
NoLayout == [ok |-> FALSE]
\* (TLC splits disjunctions inside actions into separate successor computations: observation
\*  predicates are evaluated as plain Boolean values)
Check(P) == IF P THEN TRUE ELSE FALSE

TraceReset == IsEvent("Reset") /\ cur' = NoLayout /\ opened' = FALSE
\* C03: a readable archive opens, and the archive-level view is exact.  Whatever the bytes are,
\* opening never panics (C05 is decided elsewhere; here it is simply never explainable).
TraceROpen ==
   /\ IsEvent("ROpen") /\ ev.r # "panic"
   /\ cur' = ev.L /\ opened' = (ev.r = "ok")
   /\ TLCSet(1, TLCGet(1) + (IF ev.L.ok /\ Readable(ev.L) THEN 1 ELSE 0))        \* non-vacuity counter
   /\ Check((ev.L.ok /\ Readable(ev.L)) =>
         /\ ev.r = "ok" /\ ev.n = NEntries(ev.L) /\ ev.offset = ev.L.prefix
         /\ ev.comment.id = ev.L.eocd.comment.id /\ ev.nnames = DistinctNames(ev.L)
         /\ ev.is_empty = (NEntries(ev.L) = 0))
Good == opened /\ cur.ok /\ Readable(cur)
TlvOf(x) == [j \in 1..Len(x) |-> [id |-> x[j].id, len |-> x[j].len, h |-> x[j].h]]
TraceREntry ==
   /\ IsEvent("REntry") /\ ev.r # "panic" /\ ev.rc # "panic" /\ ev.ropen # "panic"
   /\ Check(Good => /\ ev.i \in 1..NEntries(cur)
              /\ LET v == EntryView(cur, ev.i) IN
                 /\ ev.r = "ok" /\ ev.rraw = "ok"
                 /\ ev.name.id = v.name /\ ev.rawname.id = v.rawname /\ ev.fcomment.id = v.fcomment
                 /\ ev.method = v.method /\ ev.date = v.date /\ ev.time = v.time
                 /\ ev.crc = v.crc /\ ev.usize = v.usize /\ ev.csize = v.csize
                 /\ ev.hdr = v.hdr /\ ev.dstart = v.dstart /\ ev.chs = v.chs /\ ev.mode = v.mode
                 /\ TlvOf(ev.extra) = v.extra /\ ev.is_dir = v.is_dir /\ ev.is_file = ~v.is_dir
                 /\ ev.rawlen = v.csize /\ ev.rawcrc = cur.lf[ev.i].rawcrc       \* raw bytes verbatim
                 /\ ev.ropen = OpenDecision(v, "none", FALSE, FALSE)
                 \* a supported, unencrypted entry reads to exactly the original bytes
                 /\ (ev.ropen = "ok" => /\ ev.rc = "ok" /\ ev.content.len = v.usize /\ ev.content.crc = v.crc
                                        /\ ev.dstart_open = v.dstart))
   /\ UNCHANGED <<cur, opened>>
TraceRName ==
   /\ IsEvent("RName") /\ ev.r # "panic"
   /\ Check(Good => LET i == LastWith(cur, ev.name.id) IN
                 /\ i > 0
                 /\ LET d == OpenDecision(EntryView(cur, i), "none", FALSE, FALSE) IN
                      /\ ev.r = d
                      /\ (d = "ok" => ev.chs = cur.cd[i].pos))          \* the LAST entry of that name
   /\ UNCHANGED <<cur, opened>>
TraceRAbsent == IsEvent("RAbsent") /\ Check(Good => ev.r = "notfound") /\ ev.r # "panic" /\ UNCHANGED <<cur, opened>>
TraceRIndexOut ==
   /\ IsEvent("RIndexOut") /\ Check(Good => (ev.r = "notfound" /\ ev.rraw = "notfound")) /\ ev.r # "panic"
   /\ UNCHANGED <<cur, opened>>
\* C15 / C16: the password decision table, and what a completed read may have returned
TraceRPw ==
   /\ IsEvent("RPw") /\ ev.r # "panic" /\ ev.rc # "panic"
   /\ Check(Good => /\ ev.i \in 1..NEntries(cur)
              /\ LET v == EntryView(cur, ev.i) IN
                 /\ ev.r = OpenDecision(v, ev.kind, ev.chk, ev.vok)
                 \* the right password yields exactly the original bytes
                 /\ (ev.kind = "right" /\ ev.r = "ok" =>
                        ev.rc = "ok" /\ ev.content.len = ev.exp.len /\ ev.content.crc = ev.exp.crc)
                 /\ (ev.kind = "right" /\ v.enc => ev.r = "ok")
                 \* any completed read returned the original bytes (never other data)
                 /\ (ev.r = "ok" /\ ev.rc = "ok" => ev.content.len = ev.exp.len /\ ev.content.crc = ev.exp.crc))
   /\ UNCHANGED <<cur, opened>>

\* C19: decoding by the flagged encoding, raw bytes kept
TraceRDecode ==
   /\ IsEvent("RDecode")
   /\ Check(ev.got = Decoded(ev.flag, ev.raw, ev.lossy) /\ LossyPlausible(ev.raw, ev.lossy))
   /\ Check(ev.field = "name" => ev.rawgot = ev.raw)
   /\ UNCHANGED <<cur, opened>>

\* C03: prepended data of EVERY length (and, without ZIP64 end records, trailing bytes up to the search limit) changes nothing but
\* the reported offset: one event per length of a dense range, compared with the archive as validated above
TrailOk(L, t) == ~HasZ64(L) /\ L.eocd.clen + L.eocd.trailing + t <= Thr16
TraceRSweep ==
   /\ IsEvent("RSweep") /\ ev.r # "panic"
   /\ Check(Good /\ ev.what = "prefix" => ev.r = "ok" /\ ev.offset = ev.offset0 + ev.p /\ ev.n = NEntries(cur) /\ ev.same)
   /\ Check(Good /\ ev.what = "trailing" /\ TrailOk(cur, ev.p) => ev.r = "ok" /\ ev.offset = ev.offset0 /\ ev.n = NEntries(cur) /\ ev.same)
   /\ UNCHANGED <<cur, opened>>

\* the method table: converting a 16-bit code to a method and back is the identity for all 65 536 codes; the build declares exactly
\* the methods the open decision treats as supported; the named methods carry their APPNOTE codes
TraceRMethodTable ==
   /\ IsEvent("RMethodTable")
   /\ Check(ev.bad = <<>> /\ {ev.supported[i] : i \in 1..Len(ev.supported)} = Supported /\ ev.named = <<0, 8, 12, 93>>)
   /\ UNCHANGED <<cur, opened>>

TraceInit == l = 1 /\ cur = NoLayout /\ opened = FALSE /\ TLCSet(1, 0)
TraceNext == TraceReset \/ TraceROpen \/ TraceREntry \/ TraceRName \/ TraceRAbsent \/ TraceRIndexOut \/ TraceRPw \/ TraceRDecode \/ TraceRSweep \/ TraceRMethodTable
TraceSpec == TraceInit /\ [][TraceNext]_tvars
TraceAccepted ==
   LET d == TLCGet("stats").diameter IN
   IF d - 1 = Len(Rec) THEN PrintT(<<"STATS", "readable", TLCGet(1)>>)
   ELSE Print(<<"REJECTED", d, ToJson(Rec[d])>>, FALSE)

\* ---- diagnostics ---------------------------------------------------------
TraceDiag ==
   /\ l <= Len(Rec)
   /\ \/ /\ ev.ev \in {"REntry", "RPw"} /\ cur.ok /\ ev.i \in 1..NEntries(cur)
         /\ PrintT(<<"DIAG-STATE", ev.sc, l, "readable", Readable(cur), "why", WhyNot(cur), EntryView(cur, ev.i)>>)
      \/ /\ ev.ev \notin {"REntry", "RPw"}
         /\ PrintT(<<"DIAG-STATE", ev.sc, l, "opened", opened,
                     IF ev.ev = "ROpen" /\ ev.L.ok THEN <<"readable", Readable(ev.L), WhyNot(ev.L), NEntries(ev.L), ev.L.prefix, DistinctNames(ev.L)>> ELSE <<>> >>)
   /\ FALSE /\ UNCHANGED tvars
TraceSpecDiag == TraceInit /\ [][TraceNext \/ TraceDiag]_tvars
=============================================================================
