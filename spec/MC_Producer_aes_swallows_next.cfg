CONSTANTS
  OBUG = "none"
  RBUG = "aes_swallows_next"
  Thr16 = 5
  ThrN = 2
  Thr32 = 60
  N = 1
  Full = "few"
  Emit = FALSE
SPECIFICATION Spec
INVARIANT ReaderFaithful
INVARIANT ProducerSane
CHECK_DEADLOCK FALSE
