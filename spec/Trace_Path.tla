----------------------------- MODULE Trace_Path -----------------------------
(* C06: what enclosed_name / mangled_name return for the names of real archives (seekable reader:
   RPath events; streaming metadata: SPath events) must be exactly PathSan!Enclosed / Mangled of
   the name; all other events of those traces are skipped here (other trace specs judge them). *)
EXTENDS PathSan, Json, IOUtils, TLC
Rec == ndJsonDeserialize(IOEnv.TRACE)
VARIABLE l
ev == Rec[l]
Check(P) == IF P THEN TRUE ELSE FALSE
IsPath == ev.ev \in {"RPath", "SPath"}
TracePath == /\ l <= Len(Rec) /\ IsPath /\ l' = l + 1
             /\ Check(~ev.panic)
             /\ Check(ev.enclosed = Enclosed(ev.raw))            \* accepted iff relative, NUL-free and never climbing; path = name
             /\ Check(ev.mangled = Mangled(ev.raw) /\ ~ev.mangled_abs)
             /\ Check(EnclosedSafe(ev.raw) /\ MangledSafe(ev.raw))
             /\ TLCSet(1, TLCGet(1) + 1)
TraceFromPath == /\ l <= Len(Rec) /\ ev.ev = "WFromPath" /\ l' = l + 1
                 /\ Check(ev.r = "ok" /\ ev.got = FromPath(ev.raw, ev.dir))
                 /\ Check(FromPathSafe(ev.raw))
                 /\ TLCSet(1, TLCGet(1) + 1)
TraceOther == l <= Len(Rec) /\ ~IsPath /\ ev.ev # "WFromPath" /\ l' = l + 1
TraceInit == l = 1 /\ TLCSet(1, 0)
TraceSpec == TraceInit /\ [][TracePath \/ TraceFromPath \/ TraceOther]_l
TraceAccepted ==
   LET d == TLCGet("stats").diameter IN
   IF d - 1 = Len(Rec) THEN PrintT(<<"STATS", "paths", TLCGet(1)>>) ELSE Print(<<"REJECTED", d, ToJson(Rec[d])>>, FALSE)
=============================================================================
