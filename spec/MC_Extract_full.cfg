CONSTANTS
  BUG = "none"
  DefFile = 420
  DefDir = 493
  MaxEntries = 2
  MaxComps = 3
  Diverge = FALSE
  NameSet = "full"
SPECIFICATION Spec
INVARIANT OutsideUntouched
INVARIANT UnsafeFails
INVARIANT TreeExact
INVARIANT ExtractorsAgree
CHECK_DEADLOCK FALSE
