--------------------------- MODULE MC_WriterCover ---------------------------
(* Transition coverage of the writer model for replay on the real writer (C12): MC_Writer's state graph is
   explored exhaustively (same VIEW, so every distinct writer state once, reached by a shortest call
   sequence `hist`), and for every distinct (class of the source state, call with its arguments, result)
   the first transition found is printed as the call sequence that takes it.  The classes are the mode
   machine: compressor, the six flags, entry count, finished/dead, state of the collected extra data, kind /
   large / method of the open entry, comment representable or not, bytes absorbed after a raw copy.
   Replaying the printed sequences drives the real ZipWriter through every such transition of the model
   (one implementation test per transition class); Trace_Writer judges every call of every sequence. *)
EXTENDS MC_Writer
VARIABLE hist
CInit == Init /\ hist = <<>> /\ TLCSet(1, {})
CNext == Next /\ hist' = Append(hist, last')
CSpec == CInit /\ [][CNext]_<<vars, hist>>
CView == <<w, res>>
XCls(ww) == IF ww.xbuf = <<>> THEN "e" ELSE IF XValid(ww.xbuf) /\ XLen(ww.xbuf) + (IF ww.files # <<>> /\ Last(ww).large THEN LocalZ64X ELSE 0) <= Thr16 THEN "v" ELSE "i"
Cls(ww) == <<ww.comp, ww.enc, ww.wtf, ww.wtef, ww.wcef, ww.wraw, Len(ww.files), ww.fin, ww.dead, XCls(ww),
             IF ww.files = <<>> THEN <<>> ELSE <<Last(ww).kind, Last(ww).large, Last(ww).method>>,
             ww.comment.len > Thr16, ww.gap > 0,
             IF ww.stats.len < Thr32 THEN "lt" ELSE IF ww.stats.len = Thr32 THEN "eq" ELSE "gt">>
Cover == LET k == ToJson([c |-> Cls(w), l |-> last', r |-> res']) IN      \* (a string: TLC cannot compare the heterogeneous argument tuples)
         IF k \in TLCGet(1) THEN TRUE
         ELSE TLCSet(1, TLCGet(1) \cup {k}) /\ PrintT(<<"COVER", ToJson(hist')>>)
=============================================================================
