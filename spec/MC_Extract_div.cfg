CONSTANTS
  BUG = "none"
  DefFile = 420
  DefDir = 493
  MaxEntries = 2
  MaxComps = 3
  Diverge = TRUE
  NameSet = "small"
SPECIFICATION Spec
INVARIANT OutsideUntouched
INVARIANT UnsafeFails
INVARIANT TreeExact
INVARIANT ExtractorsAgree
CHECK_DEADLOCK FALSE
