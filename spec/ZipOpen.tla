------------------------------ MODULE ZipOpen ------------------------------
(***************************************************************************)
(* The seekable reader's decisions (DESIGN §5.4, Appendix D).              *)
(*  1. Locate: how the end record, the optional ZIP64 records, the amount  *)
(*     of prepended data and the directory are found, on an abstract tail  *)
(*     description T; theorem LocateFaithful (checked by TLC in MC_Open).   *)
(*  2. View(L): what a faithful reader must report for an archive whose    *)
(*     record-level layout (from the independent lexer) is L: entries in   *)
(*     central-directory order, name lookup (last duplicate wins), modes,  *)
(*     offsets, per-entry open decisions.  Used by Trace_Open.             *)
(***************************************************************************)
EXTENDS ZipFormat, TLC

(***************************************************************************)
(* 1. Locate                                                               *)
(* T = [p: prepended bytes, b: bytes of the local entries, s: directory    *)
(*      size, n: entries, c: comment length, g: garbage after the comment, *)
(*      z: ZIP64 end records present, sent: the 16/32-bit end-record       *)
(*      fields hold sentinels although the values would fit, dsent: its    *)
(*      two disk-number fields are deferred to the ZIP64 records (0xFFFF)] *)
(***************************************************************************)
TailLen(T) == (IF T.z THEN Z64Rec + Z64Loc ELSE 0) + EOCDSize + T.c + T.g
FileLen(T) == T.p + T.b + T.s + TailLen(T)
EocdPos(T) == T.p + T.b + T.s + (IF T.z THEN Z64Rec + Z64Loc ELSE 0)
\* the fields of the end record as a producer writes them
Eocd(T) == [disk |-> IF T.z /\ T.dsent THEN ThrN ELSE 0,
            n    |-> IF T.z /\ T.sent THEN ThrN  ELSE ClampN(T.n),
            size |-> IF T.z /\ T.sent THEN Thr32 ELSE Clamp32(T.s),
            off  |-> IF T.z /\ T.sent THEN Thr32 ELSE Clamp32(T.b)]
ProducerOK(T) == (NeedZ64End(T.n, T.s, T.b) => T.z)          \* what a conforming producer emits

\* "this record is too small to hold the values": some field of the short end record is at its sentinel, so its
\* disk numbers say nothing and must not be compared with the ZIP64 locator's (multi-disk archives are refused)
RecordTooSmall(f) == f.disk = ThrN \/ f.n = ThrN \/ f.size = Thr32 \/ f.off = Thr32
CONSTANT OBUG          \* "none" | "no_too_small_guard" (spec mutant)
Err == [ok |-> FALSE, offset |-> 0, dir |-> 0, n |-> 0]
\* backward search for the end-record signature, bounded by 22 + 65535 bytes from the end
EocdFound(T) == FileLen(T) >= EOCDSize /\ EocdPos(T) + EOCDSize + Thr16 >= FileLen(T)
\* the locator is probed at a position counted from the END OF THE FILE (42 + comment length)
LocatorFound(T) == T.z /\ T.g = 0
Locate(T) ==
   IF ~EocdFound(T) THEN Err
   ELSE LET e == EocdPos(T) f == Eocd(T) IN
        IF ~LocatorFound(T)
        THEN IF e < f.size + f.off THEN Err                      \* "Invalid central directory size or offset"
             ELSE LET ao == e - f.size - f.off IN
                  [ok |-> TRUE, offset |-> ao, dir |-> f.off + ao, n |-> f.n]
        ELSE \* forward search for the ZIP64 end record from its nominal (relative) offset
             LET nominal == T.b + T.s
                 at == T.p + T.b + T.s IN
             IF (~RecordTooSmall(f) \/ OBUG = "no_too_small_guard") /\ f.disk # 0 THEN Err       \* taken for a multi-disk archive
             ELSE IF e < 60 \/ at > e - 60 THEN Err
             ELSE [ok |-> TRUE, offset |-> at - nominal, dir |-> T.b + (at - nominal), n |-> T.n]
\* Theorem: every conforming archive, with any amount of prepended data, any comment, and garbage
\* after the comment only when there are no ZIP64 records, is located exactly.
Faithful(T) == Locate(T) = [ok |-> TRUE, offset |-> T.p, dir |-> T.p + T.b, n |-> T.n]
LocatePre(T) == ProducerOK(T) /\ T.c + T.g <= Thr16 /\ (T.z => T.g = 0)

(***************************************************************************)
(* 2. View(L)                                                              *)
(***************************************************************************)
\* AES extra record (0x9901): the lexer decodes it as aes = <<>> or <<[ver, strength, inner]>>
SysView(vmade) == LET s == vmade \div 256 IN IF s \in {0, 3} THEN s ELSE 4
EffMethod(c) == IF c.method = 99 /\ Len(c.aes) = 1 THEN c.aes[1].inner ELSE c.method
Supported == {0, 8, 12, 93}
EntryView(L, i) ==
   LET c == L.cd[i] lf == L.lf[i] IN
   [name |-> c.dname.id, rawname |-> c.name.id, fcomment |-> c.dfcomment.id, method |-> EffMethod(c),
    date |-> c.date, time |-> c.time, crc |-> c.crc, usize |-> c.usize, csize |-> c.csize,
    hdr |-> L.prefix + c.off, dstart |-> lf.dstart, chs |-> c.pos,
    mode |-> UnixModeOf(SysView(c.vmade), c.eattr_hi, c.eattr_lo),
    extra |-> [j \in 1..Len(c.extra) |-> [id |-> c.extra[j].id, len |-> c.extra[j].len, h |-> c.extra[j].h]],
    is_dir |-> c.dname.tail # "", enc |-> FEnc(c.flags), aes |-> c.aes, dd |-> FDD(c.flags)]
View(L) == [n |-> NEntries(L), offset |-> L.prefix, comment |-> L.eocd.comment.id,
            files |-> [i \in 1..NEntries(L) |-> EntryView(L, i)]]
\* lookup by name: the last entry carrying that (decoded) name
LastWith(L, nameid) ==
   LET S == {i \in 1..NEntries(L) : L.cd[i].dname.id = nameid} IN
   IF S = {} THEN 0 ELSE CHOOSE i \in S : \A j \in S : j <= i
DistinctNames(L) == Cardinality({L.cd[i].dname.id : i \in 1..NEntries(L)})

\* what the reader can be required to open faithfully: a well-formed archive; unaccounted bytes
\* between records and (without ZIP64 records) garbage after the comment are tolerated
Readable(L) ==
   /\ L.ok /\ L.big = <<>> /\ W1(L) /\ W2(L) /\ W4(L) /\ W6(L) /\ W7(L) /\ W10(L) /\ W11(L)
   /\ \A i \in 1..NEntries(L) : L.cd[i].xjunk = 0 /\ L.lf[i].data_in_range
   \* (a record under the AE-x id that is not an AE-x record - wrong length - is malformed: such an archive may be refused)
   /\ \A i \in 1..NEntries(L) : \A j \in 1..Len(L.cd[i].extra) : L.cd[i].extra[j].id = 39169 => L.cd[i].extra[j].len = 7 /\ Len(L.cd[i].aes) = 1
   /\ (HasZ64(L) => L.eocd.trailing = 0)
   /\ L.eocd.clen + L.eocd.trailing <= Thr16

(***************************************************************************)
(* Per-entry open decision (password table).  pw \in {"none","right","wrong"} *)
(* chk = whether the 12-byte ZipCrypto header's check byte, decrypted with *)
(* the offered password, equals the expected byte (CRC high byte, or the   *)
(* DOS time high byte for data-descriptor entries) -- logged by the harness *)
(* from its own ZipCrypto implementation.                                   *)
(***************************************************************************)
OpenDecision(v, pw, chk, vok) ==
   IF v.enc /\ pw = "none" THEN "password_required"
   ELSE IF v.method \notin Supported THEN "unsupported"
   ELSE IF ~v.enc /\ Len(v.aes) = 1 THEN "password_required"   \* AES record without the flag: still encrypted
   ELSE IF ~v.enc THEN "ok"                                   \* a password nobody needs is ignored
   ELSE IF Len(v.aes) = 1 THEN (IF vok THEN "ok" ELSE "invalid_password")    \* AE-x: 2-byte verifier
   ELSE IF chk THEN "ok" ELSE "invalid_password"               \* ZipCrypto check byte
=============================================================================
