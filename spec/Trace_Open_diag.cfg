CONSTANTS
  OBUG = "none"
  Thr16 = 65535
  ThrN = 65535
  Thr32 = 2147483647
SPECIFICATION TraceSpecDiag
POSTCONDITION TraceAccepted
CHECK_DEADLOCK FALSE
