--------------------------- MODULE Trace_Robust ---------------------------
(* C05: one PRun event per untrusted input (truncations, byte substitutions, multi-site mutations, arbitrary
   bytes, and the structure-aware lies of Lies.tla realised on seed archives).  Each event lists every
   (api, result class) pair observed over the whole reader surface (seekable reader incl. by-index/by-name/raw/
   decrypting opens and reads and all accessors, clone, streaming reader with full and partial consumption,
   visitor, opening for append), the peak heap growth while opening, and whether the case crashed or stalled the
   worker process.  Required: every class is Lies!Acceptable, no crash, no stall, memory within the bound. *)
EXTENDS Lies, Integers, Json, IOUtils, TLC
CONSTANTS MemBase, MemPerByte
Rec == ndJsonDeserialize(IOEnv.TRACE)
VARIABLE l
ev == Rec[l]
Check(P) == IF P THEN TRUE ELSE FALSE
IsEvent(e) == l <= Len(Rec) /\ Rec[l].ev = e /\ l' = l + 1
TraceReset == IsEvent("Reset")
TracePRun ==
   /\ IsEvent("PRun")
   /\ Check(~ev.hang /\ ~ev.abort)
   /\ Check(\A i \in 1..Len(ev.classes) : Acceptable(ev.classes[i][2]))
   /\ Check(ev.panics = <<>>)
   /\ Check(ev.peak <= MemBase + MemPerByte * ev.len)
   /\ TLCSet(1, TLCGet(1) + 1) /\ TLCSet(2, TLCGet(2) + ev.calls)
TraceInit == l = 1 /\ TLCSet(1, 0) /\ TLCSet(2, 0)
TraceSpec == TraceInit /\ [][TraceReset \/ TracePRun]_l
TraceAccepted ==
   LET d == TLCGet("stats").diameter IN
   IF d - 1 = Len(Rec) THEN PrintT(<<"STATS", "inputs", TLCGet(1)>>) /\ PrintT(<<"STATS", "calls", TLCGet(2)>>)
   ELSE Print(<<"REJECTED", d, ToJson(Rec[d])>>, FALSE)
=============================================================================
