----------------------------- MODULE ZipFormat -----------------------------
(***************************************************************************)
(* The ZIP container format (APPNOTE 6.3.9), independent of any            *)
(* implementation: record sizes, the ZIP64 rules, what it means for a      *)
(* record-level layout L (as produced by the harness's independent lexer,  *)
(* or synthesised by a spec) to be well formed, and what directory it      *)
(* denotes.  Thr16 / Thr32 are the 16/32-bit limits: 0xFFFF / 0xFFFFFFFF   *)
(* in trace validation, small numbers in exhaustive configurations so that *)
(* "one below / at / one above" is cheap to enumerate.                     *)
(***************************************************************************)
EXTENDS Naturals, Integers, Sequences, FiniteSets

CONSTANTS Thr16,   \* largest value of a 16-bit length field
          ThrN,    \* largest entry count the 16-bit end record can hold (same as Thr16 in reality)
          Thr32    \* largest value of a 32-bit size / offset field

LFHSize   == 30
CDHSize   == 46
EOCDSize  == 22
Z64Rec    == 56
Z64Loc    == 20
LocalZ64X == 20        \* local ZIP64 extra: 4 + usize(8) + csize(8), always both

Min(a, b) == IF a < b THEN a ELSE b
Max(a, b) == IF a > b THEN a ELSE b
Clamp32(v) == Min(v, Thr32)
ClampN(v) == Min(v, ThrN)

RECURSIVE SumSeq(_)
SumSeq(s) == IF s = <<>> THEN 0 ELSE Head(s) + SumSeq(Tail(s))

\* an extra field as a TLV list of records [id, len, h]; bytes it occupies
XBytes(x) == SumSeq([i \in 1..Len(x) |-> 4 + x[i].len])

\* ---- general-purpose flag bits -----------------------------------------
Bit(flags, k) == (flags \div (2 ^ k)) % 2 = 1
FEnc(flags)  == Bit(flags, 0)
FDD(flags)   == Bit(flags, 3)
FUtf8(flags) == Bit(flags, 11)

\* ---- ZIP64 rules -------------------------------------------------------
\* a value that does not fit its 32-bit field
NeedZ64(v) == v > Thr32
\* which of <<usize, csize, offset>> must be carried by the central ZIP64 record: every value whose 32-bit
\* field would hold the sentinel - a value that does not fit, AND a value EQUAL to the sentinel, which is
\* indistinguishable from the marker (APPNOTE 4.4.8/4.4.9/4.4.16; D17).  NeedZ64C is the rule; the
\* configuration MC_Writer_central_gt overrides it with NeedZ64 (the defect) as a spec mutant.
NeedZ64C(v) == v >= Thr32
CentralZ64Fields(us, cs, off) ==
   (IF NeedZ64C(us) THEN <<us>> ELSE <<>>) \o (IF NeedZ64C(cs) THEN <<cs>> ELSE <<>>)
     \o (IF NeedZ64C(off) THEN <<off>> ELSE <<>>)
CentralZ64Len(us, cs, off) ==
   LET n == Len(CentralZ64Fields(us, cs, off)) IN IF n = 0 THEN 0 ELSE 4 + 8 * n
\* how every reader decodes a central record (APPNOTE 4.5.3): for each of usize, csize, offset WHOSE 32-BIT FIELD
\* HOLDS THE SENTINEL, in this fixed order, the next 8-byte value of the ZIP64 record `vals`; `has` = a ZIP64
\* record is present.  exact = the record held precisely the values the sentinels call for.
ParseZ64(us32, cs32, off32, has, vals) ==
   LET a == IF has /\ us32 = Thr32 THEN 1 ELSE 0
       b == IF has /\ cs32 = Thr32 THEN 1 ELSE 0
       c == IF has /\ off32 = Thr32 THEN 1 ELSE 0
       at(k) == IF k <= Len(vals) THEN vals[k] ELSE Thr32           \* a missing value leaves the sentinel in place
   IN [exact |-> Len(vals) = a + b + c,
       us  |-> IF a = 1 THEN at(1) ELSE us32,
       cs  |-> IF b = 1 THEN at(a + 1) ELSE cs32,
       off |-> IF c = 1 THEN at(a + b + 1) ELSE off32]
\* ZIP64 end records are required when ...
NeedZ64End(n, cdsize, cdoff) == n > ThrN \/ cdsize > Thr32 \/ cdoff > Thr32

(***************************************************************************)
(* WellFormed(L): L is a layout record from the lexer (see lexer.rs):      *)
(*   ok, len, prefix, eocd, z64 (<<>> or <<rec>>), n, cd_start, cd_end,    *)
(*   cd (central records), lf (local records, same indices), gaps,         *)
(*   overlaps.  Each conjunct is named after DESIGN §5.2 (W1..W12).        *)
(***************************************************************************)
NEntries(L) == Len(L.cd)
HasZ64(L)   == Len(L.z64) = 1

W1(L) == \A i \in 1..NEntries(L) : L.lf[i].ok                       \* central points at a local header
W2Entry(c, l) ==
   /\ l.name.id = c.name.id /\ l.nlen = c.nlen
   /\ FEnc(l.flags) = FEnc(c.flags) /\ FDD(l.flags) = FDD(c.flags) /\ FUtf8(l.flags) = FUtf8(c.flags)
   /\ l.method = c.method /\ l.time = c.time /\ l.date = c.date
   /\ (~FDD(l.flags) => (l.crc = c.crc /\ l.usize = c.usize /\ l.csize = c.csize))
W2(L) == \A i \in 1..NEntries(L) : L.lf[i].ok => W2Entry(L.cd[i], L.lf[i])
\* bit 11 is set whenever the name is not ASCII
W3(L) == \A i \in 1..NEntries(L) : (~L.cd[i].name.ascii => FUtf8(L.cd[i].flags))
\* ... and, for this crate's writer, only then
W3Writer(L) == \A i \in 1..NEntries(L) : (L.cd[i].name.ascii => ~FUtf8(L.cd[i].flags))
\* 32-bit fields: a ZIP64 record, if present, carries exactly the sentinel-valued fields
\* a 32-bit field either holds its value, or holds the sentinel and the value is carried by the
\* ZIP64 record (a producer may force that on a small value; a too-large value must use it)
F32(v32, v, z) == (v32 = v /\ (v < Thr32 \/ ~z)) \/ (v32 = Thr32 /\ z)
W4Entry(c, l) ==
   /\ c.z64_exact /\ c.zcount <= 1
   /\ F32(c.usize32, c.usize, c.zcount = 1) /\ F32(c.csize32, c.csize, c.zcount = 1) /\ F32(c.off32, c.off, c.zcount = 1)
   /\ (l.ok => (l.z64_ok /\ l.zcount <= 1))
W4(L) == \A i \in 1..NEntries(L) : W4Entry(L.cd[i], L.lf[i])
\* this crate's writer never forces a sentinel in the central record
W4Writer(L) == \A i \in 1..NEntries(L) :
   LET c == L.cd[i] IN
   /\ c.zcount = (IF CentralZ64Len(c.usize, c.csize, c.off) > 0 THEN 1 ELSE 0)
   /\ c.usize32 = Clamp32(c.usize) /\ c.csize32 = Clamp32(c.csize) /\ c.off32 = Clamp32(c.off)
\* end records
W5(L) ==
   LET e == L.eocd
       n == NEntries(L)
       cdsize == L.cd_end - L.cd_start
       cdoff == L.cd_start - L.prefix
   IN /\ (NeedZ64End(n, cdsize, cdoff) => HasZ64(L))
      /\ e.n_disk = ClampN(n) /\ e.n_total = ClampN(n)
      /\ e.cd_size = Clamp32(cdsize) /\ e.cd_offset = Clamp32(cdoff)
      /\ e.disk = 0 /\ e.cddisk = 0
      /\ (HasZ64(L) => LET z == L.z64[1] IN
            /\ z.n_disk = n /\ z.n_total = n /\ z.cd_size = cdsize /\ z.cd_offset = cdoff
            /\ z.disk = 0 /\ z.cddisk = 0 /\ z.rec_size = 44
            /\ z.loc_off = z.rec_pos - L.prefix /\ z.loc_disk = 0 /\ z.loc_ndisks = 1
            /\ z.rec_pos = L.cd_end /\ z.loc_pos = z.rec_pos + Z64Rec /\ e.pos = z.loc_pos + Z64Loc)
      /\ (~HasZ64(L) => e.pos = L.cd_end)
W5Writer(L) == HasZ64(L) = NeedZ64End(NEntries(L), L.cd_end - L.cd_start, L.cd_start - L.prefix)
\* the directory is what the end record says; the lexer read exactly n contiguous records
W6(L) == L.n = NEntries(L)
\* regions are pairwise disjoint and nothing is unaccounted for (W7, W12)
W7(L) == L.overlaps = <<>>
W12(L) == L.gaps = <<>>
\* every length field equals the length of what it describes (W8): the lexer slices by the
\* length fields, so a wrong length shows up as a name/extra/comment mismatch, a bad signature
\* or junk; the data region must lie inside the file
W8(L) == /\ \A i \in 1..NEntries(L) : L.cd[i].xjunk = 0 /\ (L.lf[i].ok => (L.lf[i].xjunk = 0 /\ L.lf[i].data_in_range))
         /\ L.eocd.trailing = 0
\* stored CRC / sizes equal those of the decoded data (when the lexer could decode it)
W10Entry(c, l) ==
   (l.ok /\ l.dec.tried) => (l.dec.ok /\ l.dec.len = c.usize /\ l.dec.crc = c.crc)
W10(L) == \A i \in 1..NEntries(L) : W10Entry(L.cd[i], L.lf[i])
\* data descriptor present exactly when flagged
W11(L) == \A i \in 1..NEntries(L) : L.lf[i].ok => (FDD(L.lf[i].flags) <=> Len(L.lf[i].dd) = 1)

WellFormed(L) ==
   /\ L.ok /\ L.big = <<>>
   /\ W1(L) /\ W2(L) /\ W4(L) /\ W5(L) /\ W6(L) /\ W7(L) /\ W8(L) /\ W10(L) /\ W11(L)
\* what additionally holds of everything this crate's writer emits from scratch
WriterWellFormed(L) == WellFormed(L) /\ W3(L) /\ W3Writer(L) /\ W4Writer(L) /\ W5Writer(L)
\* ... and no byte is unaccounted for (unless the caller wrote bytes where no entry was open)
NoGaps(L) == W12(L)

\* first violated conjunct, for diagnostics
WhyNot(L) ==
   IF ~L.ok THEN "lexer" ELSE IF L.big # <<>> THEN "big" ELSE IF ~W1(L) THEN "W1" ELSE IF ~W2(L) THEN "W2"
   ELSE IF ~W4(L) THEN "W4" ELSE IF ~W5(L) THEN "W5" ELSE IF ~W6(L) THEN "W6" ELSE IF ~W7(L) THEN "W7"
   ELSE IF ~W8(L) THEN "W8" ELSE IF ~W10(L) THEN "W10" ELSE IF ~W11(L) THEN "W11"
   ELSE IF ~W3(L) THEN "W3" ELSE IF ~W3Writer(L) THEN "W3w" ELSE IF ~W4Writer(L) THEN "W4w" ELSE IF ~W5Writer(L) THEN "W5w"
   ELSE "ok"

\* what is left of well-formedness when an archive was extended in place by another producer's
\* rules (append onto a foreign base: re-emitted central records may drop the data-descriptor
\* flag and keep a stale ZIP64 record next to exact 32-bit fields)
WellFormedLoose(L) ==
   /\ L.ok /\ L.big = <<>> /\ W1(L) /\ W5(L) /\ W6(L) /\ W7(L) /\ W8(L) /\ W10(L)

\* Unix mode the attributes denote (made-by system, high and low halves of the external attributes)
UnixModeOf(sys, hi, lo) ==
   IF hi = 0 /\ lo = 0 THEN -1
   ELSE IF sys = 3 THEN hi
   ELSE IF sys = 0
        THEN LET m == IF (lo \div 16) % 2 = 1 THEN 16893 ELSE 33204 IN      \* 0o40775 / 0o100664
             IF lo % 2 = 1 THEN (IF m = 16893 THEN 365 ELSE 292) ELSE m      \* read-only: & 0o555 (DosReadOnlyStripsTypeBits)
        ELSE -1

(***************************************************************************)
(* Directory(L): the meaning of an archive -- the sequence of entries the  *)
(* central directory denotes.                                              *)
(***************************************************************************)
DirEntry(c) == [name |-> c.name.id, nlen |-> c.name.len, method |-> c.method, time |-> c.time,
                date |-> c.date, crc |-> c.crc, usize |-> c.usize, csize |-> c.csize,
                mode |-> c.eattr_hi, system |-> c.vmade \div 256, enc |-> FEnc(c.flags)]
Directory(L) == [i \in 1..NEntries(L) |-> DirEntry(L.cd[i])]
=============================================================================
