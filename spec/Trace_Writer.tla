---------------------------- MODULE Trace_Writer ----------------------------
(***************************************************************************)
(* Trace validation of writer programs executed on the real ZipWriter      *)
(* (harness: wexec).  Every event is one public call logged at its return; *)
(* each trace action is  IsEvent(..) /\ <bind logged fields> /\ the        *)
(* ZipWriter action.  The compressed size of the entry being closed is not *)
(* logged: it is inferred from the sink position the event reports and     *)
(* must satisfy CsOk.  After Finish/Drop the harness logs the layout its   *)
(* independent lexer found and the real reader's view of the archive; the  *)
(* Layout / Open / Entry actions require them to equal the spec's.         *)
(***************************************************************************)
EXTENDS ZipWriter, Json, IOUtils, Sequences

Rec == ndJsonDeserialize(IOEnv.TRACE)

VARIABLE l
tvars == <<w, res, l>>
ev == Rec[l]
IsEvent(e) == l <= Len(Rec) /\ Rec[l].ev = e /\ l' = l + 1

\* TLC splits a disjunction that occurs in an ACTION into separate successor computations; every
\* observation predicate is therefore evaluated as a plain Boolean value through Check.
Check(P) == IF P THEN TRUE ELSE FALSE

OptsOf(o) == [method |-> o.method, level |-> o.level, large |-> o.large, perm |-> o.perm,
              dt |-> <<o.dt[1], o.dt[2]>>, enc |-> o.enc]

\* ---- inferring the compressed size of the entry a call closes ------------
PreClose(ww) == IF ww.wtef /\ ww.comp # Closed THEN EndExtraF(ww).w ELSE ww
CloseWorks(ww) == ww.comp # Closed /\ (ww.wtef => EndExtraF(ww).ok)
\* position of the sink when the previous entry has been closed = where the next record starts
CsFrom(nextRecordAt) == IF NeedsCs(w) THEN nextRecordAt - DStartAtClose(w) ELSE 0
\* the environment's choice must be one a compressor can make
CloseGuard(cs, nmlen) == Check((nmlen <= Thr16 /\ ~w.dead /\ NeedsCs(w) /\ CloseWorks(w)) => CsOk(w, cs))
ResIs == res' = ev.r
PosOk == Check(w'.pos = -1 \/ w'.pos = ev.pos)

TraceReset == IsEvent("Reset") /\ w' = Init0 /\ res' = "ok"
TraceNew   == IsEvent("New") /\ New /\ ev.pos = 0
\* a base that looks like this writer's own output: the appended archive must then be strictly
\* well formed again; otherwise (data descriptors, file comments, prefix, gaps, forced ZIP64)
\* the re-emitted directory legitimately differs from the untouched local records
PlainBase(L) ==
   /\ WriterWellFormed(L) /\ L.prefix = 0 /\ L.gaps = <<>>
   /\ \A i \in 1..NEntries(L) : ~FDD(L.cd[i].flags) /\ L.cd[i].klen = 0 /\ L.cd[i].vmade \div 256 = 3
\* an archive that opens must be accepted for append; the base is judged like any foreign archive
TraceNewAppend ==
   /\ IsEvent("NewAppend") /\ ev.r # "panic"
   /\ Check(WellFormedLoose(ev.L) => ev.r = "ok")
   /\ IF ev.r = "ok" /\ ev.L.ok
      THEN w' = NewAppendF(ev.L, PlainBase(ev.L)) /\ ev.pos = ev.L.cd_start
      ELSE w' = [Init0 EXCEPT !.dead = TRUE]
   /\ res' = ev.r
\* calls the driver could not make because no writer exists (failed new_append)
TraceNoWriter == IsEvent("NoWriter") /\ UNCHANGED <<w, res>>
TraceSetComment == IsEvent("SetComment") /\ SetComment([id |-> ev.c.id, len |-> ev.c.len]) /\ ResIs

\* A method that cannot be written or a level outside its range must be REFUSED (C12); what the refusal leaves behind is the
\* implementation's choice: ZipWriter.tla describes the pinned tree (the header is out already, the writer is poisoned -
\* PoisonOnBadLevel), but refusing up front with nothing written and nothing changed is just as good.  TLC follows both
\* explanations; the calls and the layout that follow decide.
BadOpts(o) == ~(o.method \in Writable /\ LevelOk(o.method, o.level))
CleanRefusal == ev.r = "err" /\ BadOpts(OptsOf(ev.o)) /\ ~w.dead /\ w' = w /\ res' = "err"
TraceStartFile ==
   /\ IsEvent("StartFile")
   /\ \/ /\ LET o == OptsOf(ev.o) cs == CsFrom(ev.pos - HdrLen(ev.name, o.large)) IN
               CloseGuard(cs, ev.name.len) /\ StartFile(ev.name, o, cs)
         /\ ResIs /\ PosOk
      \/ CleanRefusal
TraceStartFileExtra ==
   /\ IsEvent("StartFileExtra")
   /\ \/ /\ LET o == OptsOf(ev.o) cs == CsFrom(ev.pos - HdrLen(ev.name, o.large)) IN
               CloseGuard(cs, ev.name.len) /\ StartFileExtra(ev.name, o, cs)
         /\ ResIs /\ PosOk
         /\ Check(ev.r = "ok" => ev.ret = Last(w').dstart)
      \/ CleanRefusal
\* the compressed size of the entry this call closes is inferred from where the sink stands afterwards.  When the
\* call fails after the padding record went out (unsupported method / bad level found at the end of the extra
\* phase) no padding is returned, so the candidates are all sizes c with  header(c) + padding(header(c)) = position
PadTot(ds, a) == IF a > 1 /\ ds % a # 0 THEN 4 + PadLen(ds, a) ELSE 0
AlignedCs(o) ==
   LET direct == CsFrom(ev.pos - ev.ret - HdrLen(ev.name, o.large))
       hl == HdrLen(ev.name, o.large)
       alt == {c \in {ev.pos - hl - DStartAtClose(w) - p : p \in 4..(3 + Max(ev.align, 1))} :
                  c >= 0 /\ CsOk(w, c) /\ LET ds == DStartAtClose(w) + c + hl IN ds + PadTot(ds, ev.align) = ev.pos}
   IN IF ev.r = "ok" \/ ~NeedsCs(w) \/ ~CloseWorks(w) \/ CsOk(w, direct) \/ alt = {} THEN direct
      ELSE CHOOSE c \in alt : \A d \in alt : c <= d
TraceStartFileAligned ==
   /\ IsEvent("StartFileAligned")
   /\ \/ /\ LET o == OptsOf(ev.o) cs == AlignedCs(o) IN
               /\ CloseGuard(cs, ev.name.len) /\ ~w.dead
               /\ LET r == AlignedF(w, ev.name, o, ev.align, cs, ev.padh) IN
                    /\ w' = [r.w EXCEPT !.al = IF r.ok THEN ev.align ELSE 0]
                    /\ res' = (IF r.ok THEN "ok" ELSE "err")
                    /\ Check(r.ok => r.ret = ev.ret)            \* returned padding = local extra added
         /\ ResIs /\ PosOk
         /\ Check(ev.r = "ok" /\ ev.align > 1 => ev.pos % ev.align = 0)
      \/ CleanRefusal
\* Write and WriteExtra differ only in what the harness put into the bytes
TraceWrite ==
   /\ (IsEvent("Write") \/ IsEvent("WriteExtra"))
   /\ WriteData(ev.k, ev.acc, ev.xacc)
   /\ ResIs /\ PosOk
   /\ Check(w.wtf /\ ~w.wraw /\ w.comp # Closed => IF w.wtef THEN XLen(w.xpre) + XLen(ev.xacc) = XLen(w.xbuf) + ev.k
                                                      ELSE ev.acc.len = w'.stats.len)
   /\ Check(ev.r = "ok" => ev.k = ev.n)
TraceEndExtra ==
   /\ IsEvent("EndExtra") /\ EndExtra /\ ResIs /\ PosOk
   /\ Check(ev.r = "ok" => ev.ret = Last(w').dstart)
TraceEndLocalStartCentral ==
   /\ IsEvent("EndLocalStartCentral") /\ EndLocalStartCentral /\ ResIs /\ PosOk
   /\ Check(ev.r = "ok" => ev.ret = Last(w').dstart)
TraceAddDir ==
   /\ IsEvent("AddDir")
   /\ LET o == OptsOf(ev.o) cs == CsFrom(ev.pos - HdrLen(ev.dname, o.large)) IN
        CloseGuard(cs, ev.dname.len) /\ AddDir(ev.dname, o, cs)
   /\ ResIs /\ PosOk
TraceAddSymlink ==
   /\ IsEvent("AddSymlink")
   \* (with a password the target stays in the cipher's buffer until the next call closes the entry: it is not in the sink yet)
   /\ LET o == OptsOf(ev.o) cs == CsFrom(ev.pos - (IF o.enc /\ ev.r = "ok" THEN 0 ELSE ev.target.len) - HdrLen(ev.name, o.large)) IN
        CloseGuard(cs, ev.name.len) /\ AddSymlink(ev.name, ev.target, o, cs)
   /\ ResIs /\ PosOk
SrcOf(s) == [method |-> s.method, crc |-> s.crc, usize |-> s.usize, csize |-> s.csize,
             dt |-> <<s.date, s.time>>, mode |-> s.mode, rawid |-> s.rawcrc]
TraceRawCopy ==
   /\ IsEvent("RawCopy")
   /\ Check(ev.src.r = "ok" /\ ev.src.rraw = "ok" /\ ev.src.rawlen = ev.src.csize)
   /\ LET nm == IF ev.rename THEN ev.name ELSE ev.src.name
          large == Max(ev.src.csize, ev.src.usize) > Thr32
          cs == CsFrom(ev.pos - ev.src.csize - HdrLen(nm, large)) IN
        CloseGuard(cs, nm.len) /\ RawCopy(nm, SrcOf(ev.src), cs)
   /\ ResIs /\ PosOk
TraceFlush == IsEvent("Flush") /\ Flush /\ ResIs

\* bytes finalize appends after the last entry
TailLen(ww) == LET fs == PreClose(ww).files IN
   CdSize(fs) + (IF Len(fs) > ThrN THEN Z64Rec + Z64Loc ELSE 0) + EOCDSize + ww.comment.len
\* The compressed size of the entry finalize closes is inferred from where the sink stands afterwards.  When the directory
\* of an appended archive was moved up to the old end (FinalizeF's gap, D10) that position no longer determines it; the
\* independently lexed layout that follows the call binds the value instead (csize is the environment's choice).
NextLayout == LET S == {k \in (l + 1)..(IF l + 3 < Len(Rec) THEN l + 3 ELSE Len(Rec)) : Rec[k].ev = "Layout" /\ Rec[k].sc = ev.sc} IN
              IF S = {} THEN 0 ELSE CHOOSE k \in S : \A j \in S : k <= j
FinCs ==
   LET direct == CsFrom(ev.pos - TailLen(w))
       k == NextLayout
       n == Len(PreClose(w).files) IN
   IF ~NeedsCs(w) \/ ~w.foreign \/ k = 0 \/ n = 0 THEN direct
   ELSE LET lexed == IF Rec[k].L.ok /\ Len(Rec[k].L.cd) = n THEN Rec[k].L.cd[n].csize ELSE direct IN
        \* (both "large entry, no gap" and "small entry, gap" can explain the same final position: the lexed size decides)
        IF CsOk(w, lexed) /\ FinalizeF(w, lexed).ok /\ FinalizeF(w, lexed).w.pos = ev.pos THEN lexed ELSE direct
TraceFinish ==
   /\ IsEvent("Finish")
   /\ LET cs == FinCs IN CloseGuard(cs, w.comment.len) /\ Finish(cs)
   /\ ResIs /\ PosOk
TraceDrop ==
   /\ IsEvent("Drop")
   /\ LET cs == FinCs IN
        Check(w.comp # Closed /\ FinalizeF(w, cs).ok => CloseGuard(cs, w.comment.len)) /\ Drop(cs)
   /\ ResIs
   /\ Check(w'.fin => PosOk)

(***************************************************************************)
(* Observations                                                            *)
(***************************************************************************)
NoZ64(x) == SelectSeq(x, LAMBDA r : r.id # 1)
Tlv(x) == [i \in 1..Len(x) |-> [id |-> x[i].id, len |-> x[i].len, h |-> x[i].h]]
CentralMatches(c, x, f) ==
   /\ c.pos = x.pos /\ c.flags = x.flags /\ c.method = x.method /\ c.time = x.time /\ c.date = x.date
   /\ c.crc = x.crc /\ c.usize = x.usize /\ c.csize = x.csize /\ c.off = x.off
   /\ c.nlen = x.nlen /\ c.name.id = x.name.id /\ c.klen = 0 /\ c.xlen = x.xlen
   /\ c.eattr_hi = x.eattr_hi /\ c.eattr_lo = x.eattr_lo /\ c.vmade \div 256 = f.sys
   /\ Tlv(NoZ64(c.extra)) = NoZ64(f.cx)
\* an entry that was already in the archive when it was opened for append: its local record and
\* data are where they were, byte for byte
OldLocalMatches(lf, f) ==
   /\ lf.ok /\ lf.pos = f.hdr /\ lf.dstart = f.dstart /\ lf.name.id = f.lname /\ lf.method = f.method
   /\ lf.rawcrc = f.rawsrc
LocalMatches(lf, x, f) ==
   IF ~f.fresh THEN OldLocalMatches(lf, f) ELSE
   /\ lf.ok /\ lf.pos = x.pos /\ lf.flags = x.flags /\ lf.method = x.method /\ lf.time = x.time
   /\ lf.date = x.date /\ lf.crc = x.crc /\ lf.usize = x.usize /\ lf.csize = x.csize
   /\ lf.nlen = x.nlen /\ lf.name.id = x.name.id /\ lf.dstart = x.dstart /\ lf.xlen = x.xlen
   /\ Tlv(NoZ64(lf.extra)) = f.lx
   /\ (f.kind = "raw" => lf.rawcrc = f.rawsrc)                      \* RawVerbatim (C14)
LayoutMatches(L, ww) ==
   LET X == ExpLayout(ww) IN
   /\ NEntries(L) = Len(ww.files) /\ L.prefix = 0
   /\ L.cd_start = X.cd_start /\ L.cd_end = X.cd_end /\ L.eocd.pos = X.eocd.pos
   /\ L.eocd.comment.id = ww.comment.id /\ L.eocd.clen = ww.comment.len
   /\ L.len = ww.pos
   /\ [i \in 1..Len(L.gaps) |-> [from |-> L.gaps[i].from, to |-> L.gaps[i].to]] = ww.gaps   \* only declared gaps
   /\ \A i \in 1..Len(ww.files) :
        /\ CentralMatches(L.cd[i], X.cd[i], ww.files[i])
        /\ LocalMatches(L.lf[i], X.lf[i], ww.files[i])
\* (when the specification says no archive was completed -- e.g. a poisoned writer was dropped --
\*  the observations of whatever bytes are in the sink are not constrained, except: no panic)
TraceLayout ==
   /\ IsEvent("Layout")
   /\ Check(w.fin => /\ (IF w.strict THEN WriterWellFormed(ev.L) ELSE WellFormedLoose(ev.L))   \* C02
                     /\ LayoutMatches(ev.L, w))  \* ... and say what the call history says
   /\ UNCHANGED <<w, res>>
TraceOpen ==
   /\ IsEvent("Open") /\ ev.r # "panic"
   /\ Check(w.fin => (ev.r = "ok" /\ ev.n = Len(w.files) /\ ev.comment.id = w.comment.id /\ ev.offset = 0))
   /\ UNCHANGED <<w, res>>
TraceEntryUnfinished ==
   /\ IsEvent("Entry") /\ ~w.fin /\ ev.r # "panic" /\ ev.rraw # "panic"
   /\ UNCHANGED <<w, res>>
Decodable(f) == f.method \in Writable
TraceEntry ==
   /\ IsEvent("Entry") /\ w.fin /\ ev.i \in 1..Len(w.files)
   /\ LET f == w.files[ev.i] x == ExpLayout(w).cd[ev.i] IN Check(
        /\ ev.r = "ok" /\ ev.rraw = "ok"
        /\ ev.name.id = f.name.id /\ ev.rawname.id = f.name.id
        /\ ev.method = (IF f.aesinner >= 0 THEN f.aesinner ELSE f.method) /\ ev.date = f.dt[1] /\ ev.time = f.dt[2]
        /\ ev.mode = UnixModeOf(f.sys, f.mode, f.elo) /\ ev.usize = f.usize /\ ev.csize = f.csize /\ ev.crc = f.crc
        /\ ev.hdr = f.hdr /\ ev.dstart = f.dstart /\ ev.chs = x.pos
        /\ ev.rawlen = f.csize
        /\ Tlv(NoZ64(ev.extra)) = NoZ64(f.cx) /\ ev.xjunk = 0
        /\ ev.is_dir = (f.name.tail # "")
        /\ (f.kind \in {"raw", "old"} => ev.rawcrc = f.rawsrc)
        /\ (Decodable(f) /\ f.kind # "raw" => ev.rc = "ok")
        /\ (ev.rc = "ok" => ev.content.len = f.usize /\ (f.ae2 \/ ev.content.crc = f.crc))     \* (AE-2 declares no CRC)
        /\ ev.rc # "panic")
   /\ UNCHANGED <<w, res>>

\* verdict of an external parser (CPython zipfile, Info-ZIP unzip) on the bytes just judged
TraceReferee == /\ IsEvent("Referee") /\ Check(w.fin => ev.verdict \in {"ok", "skip"}) /\ UNCHANGED <<w, res>>
TraceDumped  == IsEvent("Dumped") /\ UNCHANGED <<w, res>>
TraceSinkOps == IsEvent("SinkOps") /\ ~ev.drop_panic /\ UNCHANGED <<w, res>>   \* bookkeeping; a panicking Drop is never acceptable
TraceLoad    == IsEvent("Load") /\ UNCHANGED <<w, res>>       \* a foreign archive made available as a source
\* finish() and drop produced identical bytes for the same program (C01)
\* finish() and drop (or two sinks with different short-write behaviour) produced the same bytes - whenever both runs completed
TraceCompare == IsEvent("Compare") /\ Check(ev.both => ev.eq) /\ UNCHANGED <<w, res>>

\* ---- diagnostics: explain a rejection of an observation event (never enables a step) ---------
FirstBad(n, P(_)) == IF \E i \in 1..n : ~P(i) THEN CHOOSE i \in 1..n : ~P(i) /\ \A j \in 1..(i-1) : P(j) ELSE 0
LayoutDiag(L, ww) ==
   LET X == ExpLayout(ww) n == Min(NEntries(L), Len(ww.files))
       bc == FirstBad(n, LAMBDA i : CentralMatches(L.cd[i], X.cd[i], ww.files[i]))
       bl == FirstBad(n, LAMBDA i : LocalMatches(L.lf[i], X.lf[i], ww.files[i]))
   IN <<"wellformed", WhyNot(L), "n", NEntries(L), Len(ww.files), "cd", L.cd_start, X.cd_start, L.cd_end, X.cd_end,
        "eocd", L.eocd.pos, X.eocd.pos, "len", L.len, ww.pos, "badcentral", bc,
        IF bc > 0 THEN <<L.cd[bc], X.cd[bc]>> ELSE <<>>, "badlocal", bl, IF bl > 0 THEN <<L.lf[bl], X.lf[bl]>> ELSE <<>> >>
TraceDiag ==
   /\ l <= Len(Rec)
   /\ \/ /\ ev.ev = "Layout" /\ w.fin /\ ~(WriterWellFormed(ev.L) /\ LayoutMatches(ev.L, w))
         /\ PrintT(<<"DIAG", ev.sc, LayoutDiag(ev.L, w)>>)
      \/ /\ ev.ev = "Entry" /\ w.fin /\ ev.i \in 1..Len(w.files)
         /\ PrintT(<<"DIAG-ENTRY", ev.sc, ev.i, w.files[ev.i], ExpLayout(w).cd[ev.i].pos>>)
      \/ /\ ev.ev \notin {"Layout", "Entry"}
         /\ PrintT(<<"DIAG-STATE", ev.sc, l, [w EXCEPT !.files = <<>>], IF w.files # <<>> THEN Last(w) ELSE <<>> >>)
   /\ FALSE /\ UNCHANGED tvars

TraceInit == w = Init0 /\ res = "ok" /\ l = 1
TraceNext ==
   \/ TraceReset \/ TraceNew \/ TraceNewAppend \/ TraceNoWriter \/ TraceSetComment \/ TraceStartFile \/ TraceStartFileExtra
   \/ TraceStartFileAligned \/ TraceWrite \/ TraceEndExtra
   \/ TraceEndLocalStartCentral \/ TraceAddDir \/ TraceAddSymlink \/ TraceRawCopy \/ TraceFlush
   \/ TraceFinish \/ TraceDrop \/ TraceLayout \/ TraceOpen \/ TraceEntry \/ TraceEntryUnfinished \/ TraceCompare \/ TraceReferee \/ TraceDumped \/ TraceLoad \/ TraceSinkOps
TraceSpec == TraceInit /\ [][TraceNext]_tvars
TraceSpecDiag == TraceInit /\ [][TraceNext \/ TraceDiag]_tvars

\* the invariants of the specification are evaluated at every step of the implementation's trace
TraceInv == ModeConsistent /\ Aligned /\ NoTruncation /\ NoWrappedSizes

TraceAccepted ==
   LET d == TLCGet("stats").diameter IN
   IF d - 1 = Len(Rec) THEN TRUE
   ELSE Print(<<"REJECTED", d, ToJson(Rec[d])>>, FALSE)
=============================================================================
