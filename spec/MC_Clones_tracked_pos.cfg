CONSTANTS
  Handles = {1, 2, 3}
  NEnt = 2
  Len0 = 3
  BUG = "tracked_pos"
SPECIFICATION Spec
INVARIANT PerHandleView
INVARIANT CacheIdempotent
CHECK_DEADLOCK FALSE
