------------------------------- MODULE Clones -------------------------------
(***************************************************************************)
(* Cloned archive handles (DESIGN §5.7): N handles share the immutable     *)
(* metadata (and one mutable cell per entry: the cached data offset) but   *)
(* each owns its reader.  Every interleaving of per-handle operations must *)
(* give each handle the view it would have alone.                          *)
(*   ent[h]   entry open on handle h (0 = none);  off[h] bytes delivered   *)
(*   rpos[h]  position of h's own underlying reader                        *)
(*   cache[i] cached data start of entry i (0 = not yet computed)          *)
(*   ok[h]    every byte h has received so far came from the right place   *)
(* BUG: "none" | "shared_reader" (one position for all handles)            *)
(*      | "two_step_cache" (a partial value is visible between two stores) *)
(*      | "tracked_pos" (the archive remembers where it believes its reader *)
(*        is and skips seeks that "would not move it"; a clone inherits the *)
(*        belief but its cloned reader is wherever ITS Clone puts it)      *)
(*   tpos[h]  the position handle h's archive believes its reader has      *)
(*            (only consulted by the tracked_pos variant)                  *)
(* CloneFrom(h, g): handle h is replaced by a fresh clone of g taken at    *)
(* any moment; the cloned reader's position is the reader type's business  *)
(* (a Cursor keeps it, a reader that reopens its file starts at 0).        *)
(***************************************************************************)
EXTENDS Naturals, Sequences, FiniteSets
CONSTANTS Handles, NEnt, Len0, BUG
VARIABLES lay,      \* the archive: lay[i] = [ds: data start, len: content length] (immutable)
          ent, off, rpos, cache, ok, half, tpos
vars == <<lay, ent, off, rpos, cache, ok, half, tpos>>
Ents == 1..Len(lay)
DataStart(i) == lay[i].ds
Partial(i) == lay[i].ds - 10               \* header start + fixed part: what a two-step store exposes
UniformLay == [i \in 1..NEnt |-> [ds |-> (i - 1) * (40 + Len0) + 40, len |-> Len0]]

Start(L) == /\ lay' = L /\ ent' = [h \in Handles |-> 0] /\ off' = [h \in Handles |-> 0] /\ rpos' = [h \in Handles |-> 0]
            /\ cache' = [i \in 1..Len(L) |-> 0] /\ ok' = [h \in Handles |-> TRUE] /\ half' = [h \in Handles |-> 0]
            /\ tpos' = [h \in Handles |-> 0]
Init == /\ lay = UniformLay /\ ent = [h \in Handles |-> 0] /\ off = [h \in Handles |-> 0] /\ rpos = [h \in Handles |-> 0]
        /\ cache = [i \in Ents |-> 0] /\ ok = [h \in Handles |-> TRUE] /\ half = [h \in Handles |-> 0]
        /\ tpos = [h \in Handles |-> 0]
Pos(h) == IF BUG = "shared_reader" THEN rpos[CHOOSE x \in Handles : TRUE] ELSE rpos[h]
SetPos(h, p) == IF BUG = "shared_reader" THEN rpos' = [x \in Handles |-> p] ELSE rpos' = [rpos EXCEPT ![h] = p]

HdrLen0 == 40                               \* the local header in front of each entry's data (UniformLay)
\* where h's reader is after the open: the header is read from its start, which the archive seeks to -
\* unless (tracked_pos) it believes the reader is already there
AfterSeek(h, i) ==
   IF BUG = "tracked_pos" /\ tpos[h] = DataStart(i) - HdrLen0 THEN Pos(h) + HdrLen0 ELSE DataStart(i)
\* open entry i on handle h: locate the data (through the cache when it is filled), seek there
Open(h, i) ==
   /\ ent[h] = 0 /\ half[h] = 0
   /\ IF BUG = "two_step_cache" /\ cache[i] = 0
      THEN /\ cache' = [cache EXCEPT ![i] = Partial(i)] /\ half' = [half EXCEPT ![h] = i]
           /\ UNCHANGED <<lay, ent, off, rpos, ok, tpos>>
      ELSE LET ds == IF BUG = "two_step_cache" /\ cache[i] # 0 THEN cache[i] ELSE DataStart(i) IN
           /\ cache' = [cache EXCEPT ![i] = ds]
           /\ ent' = [ent EXCEPT ![h] = i] /\ off' = [off EXCEPT ![h] = 0]
           /\ SetPos(h, IF BUG = "tracked_pos" THEN AfterSeek(h, i) ELSE ds)
           /\ tpos' = [tpos EXCEPT ![h] = DataStart(i)]
           /\ UNCHANGED <<lay, ok, half>>
OpenFinish(h) ==
   /\ half[h] # 0
   /\ LET i == half[h] IN
      /\ cache' = [cache EXCEPT ![i] = DataStart(i)]
      /\ ent' = [ent EXCEPT ![h] = i] /\ off' = [off EXCEPT ![h] = 0] /\ SetPos(h, DataStart(i))
      /\ half' = [half EXCEPT ![h] = 0] /\ UNCHANGED <<lay, ok, tpos>>
Read(h, k) ==
   /\ ent[h] # 0 /\ k > 0 /\ off[h] + k <= lay[ent[h]].len
   /\ ok' = [ok EXCEPT ![h] = ok[h] /\ Pos(h) = DataStart(ent[h]) + off[h]]
   /\ SetPos(h, Pos(h) + k) /\ off' = [off EXCEPT ![h] = off[h] + k]
   /\ tpos' = [tpos EXCEPT ![h] = tpos[h] + k]
   /\ UNCHANGED <<lay, ent, cache, half>>
Close(h) == /\ ent[h] # 0 /\ ent' = [ent EXCEPT ![h] = 0] /\ UNCHANGED <<lay, off, rpos, cache, ok, half, tpos>>
\* handle h (idle) is replaced by a clone of g's archive, taken now: what the archive believes is copied; the cloned
\* reader is where g's is (a Cursor) or at the start (a reader that reopens its source)
CloneFrom(h, g) ==
   /\ h # g /\ ent[h] = 0 /\ half[h] = 0 /\ half[g] = 0
   /\ \E p \in {0, Pos(g)} : rpos' = [rpos EXCEPT ![h] = p]
   /\ tpos' = [tpos EXCEPT ![h] = tpos[g]] /\ off' = [off EXCEPT ![h] = 0]
   /\ UNCHANGED <<lay, ent, cache, ok, half>>
Next == \E h \in Handles : (\E i \in Ents : Open(h, i)) \/ OpenFinish(h) \/ (\E k \in 1..2 : Read(h, k)) \/ Close(h)
                         \/ (\E g \in Handles : CloneFrom(h, g))
Spec == Init /\ [][Next]_vars

PerHandleView == \A h \in Handles : ok[h]
CacheIdempotent == \A i \in Ents : cache[i] \in {0, DataStart(i)} \/ (\E h \in Handles : half[h] = i)
=============================================================================
