------------------------------ MODULE Extract ------------------------------
(***************************************************************************)
(* C07: extraction of an archive into a directory, as an abstract machine  *)
(* over an abstract file system (host = Unix, no symbolic links inside the *)
(* sandbox: the extractors never create any).                              *)
(*                                                                         *)
(* The sandbox root <<>> contains the target directory T and a canary      *)
(* sibling.  A path is a sequence of components (each a byte sequence)     *)
(* below the sandbox root; fs maps existing paths to nodes.                *)
(*                                                                         *)
(* Two formulations are given and TLC checks that they agree:              *)
(*  - operational: the loop the documentation describes (validated path,   *)
(*    trailing '/' => directory, parents created, file created/truncated,  *)
(*    mode applied - at once by the seekable extractor, from the central   *)
(*    records after all files by the streaming one), with the OS resolving *)
(*    '.' and '..' physically while walking;                               *)
(*  - declarative: the tree denoted by the lexically normalised names.     *)
(* An entry is [name, cname, mode, data]: name = the name in the local     *)
(* header (what a front-to-back reader sees while writing files), cname =  *)
(* the name in the central directory (what the seekable extractor uses for *)
(* everything, and the streaming one for the permission phase); a producer *)
(* may make them differ.  mode = Unix mode or -1, data = content token.    *)
(***************************************************************************)
EXTENDS PathSan, FiniteSets, TLC
CONSTANTS BUG,          \* "none" or a known-bad variant (spec mutants)
          DefFile, DefDir   \* permission bits a freshly created file / directory gets (umask)

TName == <<84>>                         \* "T": the extraction directory, a child of the sandbox root
TRoot == <<TName>>
NoData == <<0, "-">>                 \* content tokens are pairs (length, checksum / tag)
DirNode(perm) == [kind |-> "dir", perm |-> perm, data |-> NoData]
FileNode(perm, data) == [kind |-> "file", perm |-> perm, data |-> data]
Parent(p) == IF p = <<>> THEN <<>> ELSE SubSeq(p, 1, Len(p) - 1)
Exists(fs, p) == p \in DOMAIN fs
IsDir(fs, p) == p = <<>> \/ (Exists(fs, p) /\ fs[p].kind = "dir")
Put(fs, p, node) == [q \in DOMAIN fs \cup {p} |-> IF q = p THEN node ELSE fs[q]]
EndsWithSlash(n) == Len(n) > 0 /\ n[Len(n)] = SLASH
Perm(mode) == mode % 4096

\* ---- the OS: create_dir_all along raw components, resolving '.' and '..' physically
RECURSIVE MkAll(_, _, _)
MkAll(fs, cur, cs) ==
   IF cs = <<>> THEN [ok |-> TRUE, fs |-> fs, cur |-> cur]
   ELSE LET c == Head(cs) IN
        IF c = <<>> \/ IsCur(c) THEN MkAll(fs, cur, Tail(cs))
        ELSE IF IsParent(c) THEN MkAll(fs, Parent(cur), Tail(cs))
        ELSE LET p == Append(cur, c) IN
             IF Exists(fs, p)
             THEN (IF fs[p].kind = "dir" THEN MkAll(fs, p, Tail(cs)) ELSE [ok |-> FALSE, fs |-> fs, cur |-> cur])
             ELSE MkAll(Put(fs, p, DirNode(DefDir)), p, Tail(cs))
\* resolving an existing path (for chmod): every component must exist
RECURSIVE Lookup(_, _, _)
Lookup(fs, cur, cs) ==
   IF cs = <<>> THEN [ok |-> TRUE, cur |-> cur]
   ELSE LET c == Head(cs) IN
        IF c = <<>> \/ IsCur(c) THEN (IF IsDir(fs, cur) THEN Lookup(fs, cur, Tail(cs)) ELSE [ok |-> FALSE, cur |-> cur])
        ELSE IF IsParent(c) THEN (IF IsDir(fs, cur) THEN Lookup(fs, Parent(cur), Tail(cs)) ELSE [ok |-> FALSE, cur |-> cur])
        ELSE LET p == Append(cur, c) IN
             IF IsDir(fs, cur) /\ Exists(fs, p) THEN Lookup(fs, p, Tail(cs)) ELSE [ok |-> FALSE, cur |-> cur]

\* the path an entry is allowed to be written to: the validated-path accessor (C06); the spec mutants
\* model an extractor that trusts the raw name, or the always-succeeding accessor's components
SafeName(n) == IF BUG = "raw_name" THEN ~HasNul(n) ELSE Enclosed(n) # <<>>
\* a file entry needs an ordinary last component (a name such as "a/." cannot be created as a file)
LastComp(n) == LET cs == Split(n) IN cs[Len(cs)]
Front(n) == LET cs == Split(n) IN SubSeq(cs, 1, Len(cs) - 1)
FileNameOk(n) == IsNormal(LastComp(n))
\* where a walk starts: the extraction directory; an absolute name (only reachable in the raw_name mutant) starts at the sandbox root
Start(n) == IF Absolute(n) THEN <<>> ELSE TRoot

Chmod(fs, e) ==          \* [ok, fs]
   IF e.mode = -1 THEN [ok |-> TRUE, fs |-> fs]
   ELSE LET l == Lookup(fs, Start(e.name), Split(e.name)) IN
        IF l.ok /\ Exists(fs, l.cur) THEN [ok |-> TRUE, fs |-> [fs EXCEPT ![l.cur].perm = Perm(e.mode)]]
        ELSE [ok |-> FALSE, fs |-> fs]

\* one entry's files phase: [res \in {"ok", "unsafe", "fail"}, fs]
WriteEntry(fs, e) ==
   IF ~SafeName(e.name) THEN [res |-> "unsafe", fs |-> fs]
   ELSE IF EndsWithSlash(e.name)
   THEN LET r == MkAll(fs, Start(e.name), Split(e.name)) IN [res |-> IF r.ok THEN "ok" ELSE "fail", fs |-> r.fs]
   ELSE IF ~FileNameOk(e.name) THEN [res |-> "fail", fs |-> fs]
   ELSE LET r == MkAll(fs, Start(e.name), Front(e.name))
            p == Append(r.cur, LastComp(e.name)) IN
        IF ~r.ok THEN [res |-> "fail", fs |-> r.fs]
        ELSE IF Exists(r.fs, p) /\ r.fs[p].kind = "dir" THEN [res |-> "fail", fs |-> r.fs]
        ELSE [res |-> "ok", fs |-> Put(r.fs, p, FileNode(IF Exists(r.fs, p) THEN r.fs[p].perm ELSE DefFile, e.data))]

\* ---- the extraction loops.  Result: [res \in {"ok", "err"}, fs, clean]; clean = FALSE when a step failed
\* for a reason other than an unsafe name (conflicting names): the property leaves the tree unspecified then.
RECURSIVE SeekLoop(_, _, _)
SeekLoop(fs, es, i) ==
   IF i > Len(es) THEN [res |-> "ok", fs |-> fs, clean |-> TRUE]
   ELSE LET w == WriteEntry(fs, es[i]) IN
        IF w.res = "unsafe" THEN [res |-> "err", fs |-> w.fs, clean |-> TRUE]
        ELSE IF w.res = "fail" THEN [res |-> "err", fs |-> w.fs, clean |-> FALSE]
        ELSE LET c == Chmod(w.fs, es[i]) IN
             IF c.ok THEN SeekLoop(c.fs, es, i + 1) ELSE [res |-> "err", fs |-> c.fs, clean |-> FALSE]
RECURSIVE StreamFiles(_, _, _)
StreamFiles(fs, es, i) ==
   IF i > Len(es) THEN [res |-> "ok", fs |-> fs, clean |-> TRUE]
   ELSE LET w == WriteEntry(fs, es[i]) IN
        IF w.res = "unsafe" THEN [res |-> "err", fs |-> w.fs, clean |-> TRUE]
        ELSE IF w.res = "fail" THEN [res |-> "err", fs |-> w.fs, clean |-> FALSE]
        ELSE StreamFiles(w.fs, es, i + 1)
\* the permission phase works from the central records: their names are validated again
Central(e) == [e EXCEPT !.name = e.cname]
RECURSIVE StreamMeta(_, _, _)
StreamMeta(fs, es, i) ==
   IF i > Len(es) THEN [res |-> "ok", fs |-> fs, clean |-> TRUE]
   ELSE IF ~SafeName(es[i].cname) /\ BUG # "meta_unchecked" THEN [res |-> "err", fs |-> fs, clean |-> TRUE]
   ELSE LET c == Chmod(fs, Central(es[i])) IN
        IF c.ok THEN StreamMeta(c.fs, es, i + 1) ELSE [res |-> "err", fs |-> c.fs, clean |-> FALSE]
Run(fs0, es, via) ==
   IF via = "seek" THEN SeekLoop(fs0, [i \in 1..Len(es) |-> Central(es[i])], 1)
   ELSE LET f == StreamFiles(fs0, es, 1) IN
        IF f.res = "ok" THEN (IF BUG = "no_modes" THEN f ELSE StreamMeta(f.fs, es, 1)) ELSE f
Diverged(es) == \E i \in 1..Len(es) : es[i].cname # es[i].name

\* ---- declarative meaning of a list of safe, mutually consistent names
Norm(n) == Resolve(Split(n), <<>>).st                                  \* lexical normal form below the target
\* directories a lexical walk passes through (including those left again through '..')
RECURSIVE Visited(_, _)
Visited(cs, st) ==
   IF cs = <<>> THEN {}
   ELSE LET c == Head(cs) IN
        IF IsParent(c) THEN Visited(Tail(cs), Parent(st))
        ELSE IF IsNormal(c) THEN {Append(st, c)} \cup Visited(Tail(cs), Append(st, c))
        ELSE Visited(Tail(cs), st)
IsDirEntry(e) == EndsWithSlash(e.name)
FinalPath(e) == Norm(e.name)
DirsOf(e) == IF IsDirEntry(e) THEN Visited(Split(e.name), <<>>) ELSE Visited(Front(e.name), <<>>)
AllSafe(es) == \A i \in 1..Len(es) : Enclosed(es[i].name) # <<>> /\ Enclosed(es[i].cname) # <<>>
Consistent(es) ==
   /\ \A i \in 1..Len(es) : /\ FinalPath(es[i]) # <<>>
                            /\ (~IsDirEntry(es[i]) => FileNameOk(es[i].name))
   /\ \A i, j \in 1..Len(es) : ~IsDirEntry(es[i]) => FinalPath(es[i]) \notin DirsOf(es[j])       \* a file is nobody's directory
LastWith(es, p, P(_)) == LET S == {i \in 1..Len(es) : FinalPath(es[i]) = p /\ P(es[i])} IN
                         IF S = {} THEN 0 ELSE CHOOSE i \in S : \A j \in S : j <= i
HasMode(e) == e.mode # -1
AnyEntry(e) == TRUE
Expected(es) ==           \* function from paths below T (relative) to nodes
   LET files == {FinalPath(es[i]) : i \in {k \in 1..Len(es) : ~IsDirEntry(es[k])}}
       dirs == UNION {DirsOf(es[i]) : i \in 1..Len(es)}
       permOf(p, def) == LET k == LastWith(es, p, HasMode) IN IF k = 0 THEN def ELSE Perm(es[k].mode)
   IN [p \in files \cup dirs |->
         IF p \in files THEN FileNode(permOf(p, DefFile), es[LastWith(es, p, AnyEntry)].data)
         ELSE DirNode(permOf(p, DefDir))]
\* the part of a file system below the target directory, with paths relative to it
Below(fs) == LET D == {p \in DOMAIN fs : Len(p) > 1 /\ p[1] = TName} IN
             [q \in {SubSeq(p, 2, Len(p)) : p \in D} |-> fs[<<TName>> \o q]]
Outside(fs) == [p \in {q \in DOMAIN fs : q[1] # TName} |-> fs[p]]
=============================================================================
