---------------------------- MODULE StreamDrain ----------------------------
(***************************************************************************)
(* The loop behind ZipStream!Release (C10, C09, and the "no unbounded      *)
(* loop" clause of C05): when the consumer lets go of a streamed entry     *)
(* after reading `pulled` of its `cs` compressed bytes, the reader skips   *)
(* the remaining bytes by reading them from the underlying source in       *)
(* requests of at most B bytes.  The source is free to return FEWER bytes  *)
(* than requested (a short read), and a truncated stream returns 0 (end of *)
(* input) before the entry is complete.                                    *)
(*   rest     bytes of the entry not yet consumed (the Take limit)         *)
(*   avail    bytes the source still has (< rest: truncated stream)        *)
(*   skipped  bytes the loop has consumed                                  *)
(*   st       "run" | "ok" (loop left normally) | "err" (reported)         *)
(* Safety  (refines ZipStream!Release): st = "ok" => skipped = Rest0, i.e. *)
(*          the stream sits exactly on the next record.                    *)
(* Liveness: under weak fairness the loop always ends, whatever the source *)
(*          does - in "ok" when the bytes were there, in "err" otherwise.  *)
(* BUG: "none" | "stop_on_short" (leaves at the first read that returns    *)
(*      less than requested) | "count_requested" (books the bytes it asked *)
(*      for instead of the bytes it got) | "loop_on_eof" (a 0-byte read is *)
(*      retried for ever)                                                  *)
(***************************************************************************)
EXTENDS Naturals
CONSTANTS
    \* @type: Int;
    MaxRest,
    \* @type: Int;
    B,
    \* @type: Str;
    BUG
VARIABLES
    \* @type: Int;
    rest,
    \* @type: Int;
    avail,
    \* @type: Int;
    skipped,
    \* @type: Str;
    st,
    \* @type: Int;
    rest0,
    \* @type: Int;
    avail0
vars == <<rest, avail, skipped, st, rest0, avail0>>
Min(a, b) == IF a < b THEN a ELSE b

Init == /\ rest0 \in 0..MaxRest /\ avail0 \in 0..MaxRest /\ avail0 <= rest0      \* avail0 < rest0: the stream was cut short
        /\ rest = rest0 /\ avail = avail0 /\ skipped = 0 /\ st = "run"
\* one iteration: request min(B, rest) bytes; the source returns r of them (any 1..request that it has; 0 only at its end)
Step ==
   /\ st = "run"
   /\ IF rest = 0 THEN st' = "ok" /\ UNCHANGED <<rest, avail, skipped, rest0, avail0>>
      ELSE LET req == Min(B, rest) IN
           \E r \in 0..Min(req, avail) :
              /\ (r = 0 => avail = 0)                       \* a source with bytes left returns at least one
              /\ IF r = 0
                 THEN /\ UNCHANGED <<rest, avail, skipped, rest0, avail0>>
                      /\ st' = IF BUG = "loop_on_eof" THEN "run" ELSE "err"      \* end of input inside an entry: reported
                 ELSE /\ avail' = avail - r /\ skipped' = skipped + r
                      /\ rest' = IF BUG = "count_requested" THEN rest - req ELSE rest - r
                      /\ st' = IF BUG = "stop_on_short" /\ r < req THEN "ok" ELSE "run"
                      /\ UNCHANGED <<rest0, avail0>>
Spec == Init /\ [][Step]_vars /\ WF_vars(Step)

LandsOnBoundary == st = "ok" => skipped = rest0          \* what ZipStream!Release assumes of the loop
NeverOverruns   == skipped <= rest0                      \* the next record's bytes are never eaten
ErrOnlyIfCut    == st = "err" => avail0 < rest0          \* a complete stream is never refused
Terminates      == <>(st \in {"ok", "err"})
=============================================================================
