CONSTANTS
  OBUG = "none"
  RBUG = "first_dup"
  Thr16 = 5
  ThrN = 2
  Thr32 = 60
  N = 2
  Full = "tiny"
  Emit = FALSE
SPECIFICATION Spec
INVARIANT ReaderFaithful
INVARIANT ProducerSane
CHECK_DEADLOCK FALSE
