CONSTANTS
  NCalls = 1
  OpsPerCall = 1
  BUG = "none"
SPECIFICATION TraceSpec
POSTCONDITION TraceAccepted
CHECK_DEADLOCK FALSE
