CONSTANTS
  PLens = {0, 1, 5}
  Bufs = {0, 1, 2, 5}
  BUG = "no_drain_at_end"
SPECIFICATION Spec
INVARIANT CipherSync
INVARIANT MacAtEnd
INVARIANT EofIntegrity
INVARIANT TamperDetected
INVARIANT Accounting
INVARIANT ZeroAndSticky
CHECK_DEADLOCK FALSE
