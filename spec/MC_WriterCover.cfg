CONSTANTS
  Thr16 = 40
  ThrN = 1
  Thr32 = 6
  MaxFiles = 2
  MaxChunks = 2
  MaxX = 2
  EmitEdges = FALSE
SPECIFICATION CSpec
VIEW CView
ACTION_CONSTRAINT Cover
CHECK_DEADLOCK FALSE
