------------------------------ MODULE Producer ------------------------------
(***************************************************************************)
(* An INDEPENDENT PRODUCER at field level (C03, C08 "the reader likewise   *)
(* decodes ZIP64 fields from other producers in every layout the           *)
(* specification allows"), and the reader's field-level decoding of what   *)
(* it emits.                                                               *)
(*                                                                         *)
(* A producer decides, per entry (APPNOTE 6.3.9):                          *)
(*   us, cs     the true sizes                                             *)
(*   forced     which of usize / csize / offset it sends through the       *)
(*              central ZIP64 record although the value would fit (4.5.3); *)
(*              a value at or above the sentinel always goes there         *)
(*   zlast      the ZIP64 record sits after / before its other records     *)
(*   nother     other (unknown) records in the central extra field         *)
(*   lz64       the local header carries a ZIP64 record (both sizes behind *)
(*              sentinels, as 4.5.3 demands for local headers)             *)
(*   lother     other records in the LOCAL extra field (it may differ from *)
(*              the central one in number and length)                      *)
(*   dd         data-descriptor style: none | with/without signature x     *)
(*              32/64-bit sizes; then the local CRC and sizes are zero     *)
(*   lzl        (lz64 only) the local ZIP64 record is placed last          *)
(*   aes        the entry is WinZip-AES encrypted: an AE-x record (0x9901,  *)
(*              7 bytes: version, vendor, strength, the real method) sits   *)
(*              in both extra fields, before or after the other records     *)
(*              (the ZIP64 record is placed relative to all of them); the   *)
(*              header's method field says 99                              *)
(* and, per archive, the prepended bytes, the bytes between entries, and   *)
(* the order of the central directory.                                     *)
(*                                                                         *)
(* Emit*  = the bytes' meaning: what the records hold.                     *)
(* Read*  = what the seekable reader does with those fields (Appendix D of *)
(*          DESIGN.md), written as the code structures it: walk the extra  *)
(*          records; on 0x0001 take 8 bytes for each of usize, csize,      *)
(*          offset WHOSE CURRENT VALUE IS THE SENTINEL, in that order;     *)
(*          data start from the LOCAL header's own lengths; sizes and CRC  *)
(*          from the CENTRAL record.  RBUG selects known-bad variants.     *)
(* Theorem (TLC, MC_Producer): ReadEntry(Emit(ch)) = the truth, for every  *)
(* choice; and the archive-level composition with ZipOpen!View.            *)
(***************************************************************************)
EXTENDS ZipFormat, TLC

CONSTANT RBUG       \* "none" | "cs_first" | "either_both" | "always_all" | "central_xlen" | "local_sizes" | "first_record_only"
                    \* | "aes_swallows_next" (defect D18: the AE-x record's own bytes are skipped twice, so the walk lands inside
                    \*   the record that follows it and nothing after the AE-x record is understood)

DDs == {"none", "sig32", "nosig32", "sig64", "nosig64"}
DDLen(dd) == IF dd = "none" THEN 0 ELSE IF dd = "sig32" THEN 16 ELSE IF dd = "nosig32" THEN 12 ELSE IF dd = "sig64" THEN 24 ELSE 20
OtherRec(tag) == [id |-> 51966, len |-> 3, h |-> tag, vals |-> <<>>]      \* 0xcafe, 3 bytes: a record no reader knows
OtherLen == 7
AesRec == [id |-> 39169, len |-> 7, h |-> "AE", vals |-> <<>>]           \* 0x9901
WithAes(ch, oth) == IF ch.aes = "before" THEN <<AesRec>> \o oth ELSE IF ch.aes = "after" THEN oth \o <<AesRec>> ELSE oth

\* ---- emission -----------------------------------------------------------
Sent(v, f, ch) == v >= Thr32 \/ f \in ch.forced
ZVals(ch, off) ==
   (IF Sent(ch.us, "us", ch) THEN <<ch.us>> ELSE <<>>) \o (IF Sent(ch.cs, "cs", ch) THEN <<ch.cs>> ELSE <<>>)
     \o (IF Sent(off, "off", ch) THEN <<off>> ELSE <<>>)
ZRec(vals) == IF vals = <<>> THEN <<>> ELSE <<[id |-> 1, len |-> 8 * Len(vals), h |-> "z64", vals |-> vals]>>
CentralExtra(ch, off) ==
   LET oth == WithAes(ch, [j \in 1..ch.nother |-> OtherRec("c")]) IN
   IF ch.zlast THEN oth \o ZRec(ZVals(ch, off)) ELSE ZRec(ZVals(ch, off)) \o oth
LocalExtra(ch) ==
   LET oth == WithAes(ch, [j \in 1..ch.lother |-> OtherRec("l")])
       \* a data-descriptor entry does not know its sizes when the header is written
       z   == IF ch.lz64 THEN <<[id |-> 1, len |-> 16, h |-> "lz64",
                                 vals |-> IF ch.dd = "none" THEN <<ch.us, ch.cs>> ELSE <<0, 0>>]>> ELSE <<>>
   IN IF ch.lzl THEN oth \o z ELSE z \o oth
XLenOf(x) == SumSeq([j \in 1..Len(x) |-> 4 + x[j].len])
\* the fixed part of the central record
EmitCentral(ch, off) ==
   [us32 |-> IF Sent(ch.us, "us", ch) THEN Thr32 ELSE ch.us,
    cs32 |-> IF Sent(ch.cs, "cs", ch) THEN Thr32 ELSE ch.cs,
    off32 |-> IF Sent(off, "off", ch) THEN Thr32 ELSE off,
    crc |-> ch.crc, dd |-> ch.dd # "none", nlen |-> ch.nlen, extra |-> CentralExtra(ch, off),
    method |-> IF ch.aes = "none" THEN "m" ELSE "99"]
EmitLocal(ch) ==
   [us32 |-> IF ch.lz64 THEN Thr32 ELSE IF ch.dd = "none" THEN ch.us ELSE 0,
    cs32 |-> IF ch.lz64 THEN Thr32 ELSE IF ch.dd = "none" THEN ch.cs ELSE 0,
    crc |-> IF ch.dd = "none" THEN ch.crc ELSE "00000000", dd |-> ch.dd # "none", nlen |-> ch.nlen, extra |-> LocalExtra(ch),
    method |-> IF ch.aes = "none" THEN "m" ELSE "99"]
\* bytes an entry occupies: local header, data, data descriptor
EntryLen(ch) == LFHSize + ch.nlen + XLenOf(LocalExtra(ch)) + ch.cs + DDLen(ch.dd)

\* ---- the reader, field level ---------------------------------------------
\* one 0x0001 record against the values currently held
TakeZ64(st, vals) ==
   IF RBUG = "cs_first"
   THEN LET b == IF st.cs = Thr32 THEN 1 ELSE 0
            a == IF st.us = Thr32 THEN 1 ELSE 0
            c == IF st.off = Thr32 THEN 1 ELSE 0
            at(k) == IF k <= Len(vals) THEN vals[k] ELSE Thr32
        IN [st EXCEPT !.cs = IF b = 1 THEN at(1) ELSE st.cs, !.us = IF a = 1 THEN at(b + 1) ELSE st.us,
                      !.off = IF c = 1 THEN at(a + b + 1) ELSE st.off, !.exact = Len(vals) = a + b + c]
   ELSE LET either == st.us = Thr32 \/ st.cs = Thr32
            a == IF RBUG = "always_all" \/ (RBUG = "either_both" /\ either) \/ st.us = Thr32 THEN 1 ELSE 0
            b == IF RBUG = "always_all" \/ (RBUG = "either_both" /\ either) \/ st.cs = Thr32 THEN 1 ELSE 0
            c == IF RBUG = "always_all" \/ st.off = Thr32 THEN 1 ELSE 0
            at(k) == IF k <= Len(vals) THEN vals[k] ELSE Thr32          \* a short record: the read fails, the field keeps the sentinel
        IN [st EXCEPT !.us = IF a = 1 THEN at(1) ELSE st.us, !.cs = IF b = 1 THEN at(a + 1) ELSE st.cs,
                      !.off = IF c = 1 THEN at(a + b + 1) ELSE st.off, !.exact = Len(vals) = a + b + c]
RECURSIVE WalkExtra(_, _, _)
WalkExtra(x, st, k) ==
   IF x = <<>> THEN st
   ELSE LET r == Head(x) IN
        IF r.id = 1 /\ ~(RBUG = "first_record_only" /\ k > 1)
        THEN WalkExtra(Tail(x), TakeZ64(st, r.vals), k + 1)
        ELSE IF r.id = AesRec.id                                         \* the AE-x record: encryption info and the real method
        THEN IF RBUG = "aes_swallows_next" THEN [st EXCEPT !.aes = TRUE, !.method = "m"]
             ELSE WalkExtra(Tail(x), [st EXCEPT !.aes = TRUE, !.method = "m"], k + 1)
        ELSE WalkExtra(Tail(x), st, k + 1)                               \* unknown records are skipped by their length
\* what the reader reports for one entry: c, l = emitted central / local record; prefix = bytes prepended to the archive
ReadEntry(c, l, prefix) ==
   LET st == WalkExtra(c.extra, [us |-> c.us32, cs |-> c.cs32, off |-> c.off32, exact |-> TRUE, aes |-> FALSE, method |-> c.method], 1)
       hdr == prefix + st.off
       lx == IF RBUG = "central_xlen" THEN XLenOf(c.extra) ELSE XLenOf(l.extra)
       ls == WalkExtra(l.extra, [us |-> l.us32, cs |-> l.cs32, off |-> 0, exact |-> TRUE, aes |-> FALSE, method |-> l.method], 1)
   IN [usize |-> IF RBUG = "local_sizes" THEN ls.us ELSE st.us,
       csize |-> IF RBUG = "local_sizes" THEN ls.cs ELSE st.cs,
       crc |-> IF RBUG = "local_sizes" THEN l.crc ELSE c.crc,
       hdr |-> hdr, dstart |-> hdr + LFHSize + l.nlen + lx, exact |-> st.exact, aes |-> st.aes, method |-> st.method]
\* the truth about the entry placed at absolute position `at` of a file with `prefix` prepended bytes
Truth(ch, at) ==
   [usize |-> ch.us, csize |-> ch.cs, crc |-> ch.crc, hdr |-> at,
    dstart |-> at + LFHSize + ch.nlen + XLenOf(LocalExtra(ch)), exact |-> TRUE, aes |-> ch.aes # "none", method |-> "m"]
EntryFaithful(ch, at, prefix) == ReadEntry(EmitCentral(ch, at - prefix), EmitLocal(ch), prefix) = Truth(ch, at)
=============================================================================
