----------------------------- MODULE MC_PathSan -----------------------------
(* all names over {a, ., /, \, NUL} up to MaxLen characters *)
EXTENDS PathSan, TLC
CONSTANT MaxLen
VARIABLE n
Alphabet == {97, DOT, SLASH, BSLASH, NUL}
Init == n \in UNION {[1..k -> Alphabet] : k \in 0..MaxLen}
Next == UNCHANGED n
Spec == Init /\ [][Next]_n
Safe == EnclosedSafe(n) /\ EnclosedComplete(n) /\ MangledSafe(n) /\ FromPathSafe(n)
=============================================================================
