----------------------------- MODULE EntryRead -----------------------------
(***************************************************************************)
(* Reading one entry: the pull pipeline  limit -> decrypt -> (decode) ->   *)
(* checksum  under arbitrary read schedules (DESIGN §5.5).  Every layer    *)
(* keeps a counter that must advance in lock-step with the bytes actually  *)
(* transferred:                                                            *)
(*   remaining   bytes the limit reader may still hand out (ciphertext)    *)
(*   cipherPos   bytes the stream cipher / CTR key stream has advanced over *)
(*   macFed      ciphertext bytes fed to the HMAC;  macChecked             *)
(*   delivered   plaintext bytes handed to the caller;  hashed (CRC input) *)
(*   eof, failed                                                           *)
(* The environment chooses the caller's buffer length n (0 allowed) and    *)
(* how many bytes k <= n the underlying reader returns (short reads), and  *)
(* a damage class; a decoder facing damaged input may do anything but      *)
(* the integrity layers must stop a wrong result at end-of-file.           *)
(* BUG selects known-bad variants (spec mutants: the checker must find     *)
(* them); "none" is the required behaviour.                                *)
(***************************************************************************)
EXTENDS Naturals, Integers, TLC

CONSTANTS
    \* @type: Set(Int);
    PLens,       \* payload (ciphertext) lengths explored
    \* @type: Set(Int);
    Bufs,        \* caller buffer sizes
    \* @type: Str;
    BUG          \* "none" | "cipher_buf" | "no_mac" | "no_crc" | "zero_read_skips_crc" | "eof_not_sticky" | "no_drain_at_end"

VARIABLES
    \* @type: Int;
    plen,        \* payload (ciphertext) length of this entry
    \* @type: Str;
    kind,        \* "plain" | "zc" | "ae1" | "ae2"
    \* @type: Str;
    dmg,         \* "none" | "data" | "crc" | "mac"
    \* @type: Bool;
    comp,        \* a decompressor sits between the cipher and the checksum (it may end before the ciphertext does)
    \* @type: Int;
    remaining,
    \* @type: Int;
    cipherPos,
    \* @type: Int;
    macFed,
    \* @type: Bool;
    macChecked,
    \* @type: Int;
    delivered,
    \* @type: Int;
    hashed,
    \* @type: Bool;
    crcArmed,
    \* @type: Bool;
    eof,
    \* @type: Bool;
    failed,
    \* @type: Int;
    lastn,
    \* @type: Int;
    lastk
vars == <<plen, kind, dmg, comp, remaining, cipherPos, macFed, macChecked, delivered, hashed, crcArmed, eof, failed, lastn, lastk>>

Kinds == {"plain", "zc", "ae1", "ae2"}
Aes == kind \in {"ae1", "ae2"}
Dmgs(k) == IF k \in {"ae1", "ae2"} THEN {"none", "data", "crc", "mac"} ELSE {"none", "data", "crc"}

Init == /\ plen \in PLens /\ kind \in Kinds /\ dmg \in Dmgs(kind) /\ comp \in BOOLEAN
        /\ remaining = plen /\ cipherPos = 0 /\ macFed = 0 /\ macChecked = FALSE
        /\ delivered = 0 /\ hashed = 0 /\ crcArmed = TRUE /\ eof = FALSE /\ failed = FALSE /\ lastn = 0 /\ lastk = 0

\* what integrity looks like at end of data (stored payload: damaged data => CRC mismatch)
CrcBad == dmg = "crc" \/ (dmg = "data" /\ ~Aes) \/ (dmg = "data" /\ Aes)
MacBad == Aes /\ dmg \in {"data", "mac"}
Min(a, b) == IF a < b THEN a ELSE b

\* one call of read() with a buffer of n bytes; the underlying reader returns `k` bytes (k = 0
\* only at end of data); result recorded in lastk (or failed)
Read(n, k) ==
   /\ ~failed
   /\ lastn' = n
   /\ IF n = 0
      THEN /\ lastk' = 0
           /\ crcArmed' = (IF BUG = "zero_read_skips_crc" THEN FALSE ELSE crcArmed)
           /\ UNCHANGED <<plen, kind, dmg, comp, remaining, cipherPos, macFed, macChecked, delivered, hashed, eof, failed>>
      ELSE IF remaining = 0
      THEN \* the layers below are exhausted: this is where the checksum is compared
           /\ k = 0 /\ lastk' = 0
           /\ IF CrcBad /\ kind # "ae2" /\ BUG # "no_crc" /\ crcArmed /\ ~(eof /\ BUG = "eof_not_sticky")
              THEN failed' = TRUE /\ eof' = eof
              ELSE eof' = TRUE /\ failed' = failed
           /\ UNCHANGED <<plen, kind, dmg, comp, remaining, cipherPos, macFed, macChecked, delivered, hashed, crcArmed>>
      ELSE LET got == Min(Min(IF k = 0 THEN 1 ELSE k, n), remaining) IN
           /\ remaining' = remaining - got
           /\ cipherPos' = IF kind = "plain" THEN cipherPos ELSE cipherPos + (IF BUG = "cipher_buf" THEN n ELSE got)
           /\ macFed' = IF Aes THEN macFed + got ELSE macFed
           /\ IF Aes /\ remaining - got = 0
              THEN /\ macChecked' = (BUG # "no_mac")
                   /\ IF MacBad /\ BUG # "no_mac"
                      THEN failed' = TRUE /\ delivered' = delivered /\ hashed' = hashed /\ lastk' = 0
                      ELSE failed' = failed /\ delivered' = delivered + got /\ hashed' = hashed + got /\ lastk' = got
              ELSE /\ macChecked' = macChecked /\ failed' = failed
                   /\ delivered' = delivered + got /\ hashed' = hashed + got /\ lastk' = got
           /\ UNCHANGED <<plen, kind, dmg, comp, eof, crcArmed>>
\* A decompressor fed damaged data may report the end of its stream while ciphertext remains (a read with a
\* non-empty buffer returns 0 early).  Required: the rest of an AES entry's ciphertext is then read so that the
\* authentication code is compared; after that the checksum is compared as at a regular end of data.
DecoderEndsEarly(n) ==
   /\ comp /\ dmg = "data" /\ ~failed /\ ~eof /\ remaining > 0 /\ n > 0
   /\ lastn' = n /\ lastk' = 0
   /\ LET drain == Aes /\ BUG # "no_drain_at_end" IN
      /\ remaining' = IF drain THEN 0 ELSE remaining
      /\ cipherPos' = IF drain THEN plen ELSE cipherPos
      /\ macFed' = IF drain THEN plen ELSE macFed
      /\ macChecked' = (macChecked \/ (drain /\ BUG # "no_mac"))
      /\ IF (drain /\ MacBad /\ BUG # "no_mac") \/ (CrcBad /\ kind # "ae2" /\ BUG # "no_crc" /\ crcArmed)
         THEN failed' = TRUE /\ eof' = eof
         ELSE failed' = failed /\ eof' = TRUE
   /\ UNCHANGED <<plen, kind, dmg, comp, delivered, hashed, crcArmed>>
Next == \E n \in Bufs : (\E k \in 0..3 : Read(n, k)) \/ DecoderEndsEarly(n)
Spec == Init /\ [][Next]_vars

\* ---- invariants -----------------------------------------------------------
\* the cipher has advanced over exactly the ciphertext bytes transferred            [C09, C15]
CipherSync == kind # "plain" => cipherPos = plen - remaining
\* the authentication code is compared exactly when the last ciphertext byte arrived [C16]
MacAtEnd == (Aes /\ plen > 0 /\ eof /\ ~failed) => (macChecked /\ ~MacBad /\ macFed = plen)      \* also when a decoder ended early (D16)
\* a read that completed delivered uncorrupted data                                   [C04]
EofIntegrity == (eof /\ ~failed) => (~CrcBad \/ kind = "ae2")
\* no damage of a non-empty entry survives to a successful end-of-file                [C04, C16]
TamperDetected == (eof /\ ~failed /\ plen > 0) => (dmg = "none" \/ (kind = "ae2" /\ dmg = "crc"))
\* everything delivered went through the checksum; nothing beyond the entry            [C09]
Accounting == hashed = delivered /\ delivered <= plen /\ delivered + remaining <= plen
\* a zero-length read returns 0 and an exhausted entry keeps returning 0               [C09]
ZeroAndSticky == (lastn = 0 => lastk = 0) /\ (eof /\ ~failed => lastk = 0 \/ lastn = 0 \/ remaining = 0 \/ comp)
=============================================================================
