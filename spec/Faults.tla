------------------------------- MODULE Faults -------------------------------
(***************************************************************************)
(* Single I/O fault model (C11).  A scenario is a sequence of library      *)
(* calls, each performing some I/O operations on the underlying object;    *)
(* exactly one operation (index k over the whole run) fails hard.  The law *)
(* every run must satisfy:                                                 *)
(*    no call panics (then or later, finish and drop included), and        *)
(*    either some call reported an error, or the overall result is         *)
(*    identical to that of the failure-free run.                           *)
(* The small state machine below is the shape of a conforming              *)
(* implementation (a failed operation makes its call report an error;      *)
(* later calls may or may not succeed); TLC checks the law on it and on    *)
(* known-bad variants:                                                     *)
(*   "swallow"  the failing call reports success and the result differs    *)
(*   "panic_later"  a later call panics on the state the fault left        *)
(***************************************************************************)
EXTENDS Naturals, Integers, Sequences
CONSTANTS NCalls, OpsPerCall, BUG
VARIABLES call, op, k, anyerr, panic, damaged, done
vars == <<call, op, k, anyerr, panic, damaged, done>>
TotalOps == NCalls * OpsPerCall
Init == /\ call = 1 /\ op = 0 /\ k \in 0..(TotalOps - 1) /\ anyerr = FALSE /\ panic = FALSE /\ damaged = FALSE /\ done = FALSE
\* perform the next I/O operation of the current call
Step ==
   /\ ~done /\ call <= NCalls
   /\ LET idx == (call - 1) * OpsPerCall + op IN
      IF idx = k
      THEN \* the fault: the call ends here
           /\ damaged' = TRUE
           /\ anyerr' = (IF BUG = "swallow" THEN anyerr ELSE TRUE)
           /\ call' = call + 1 /\ op' = 0 /\ panic' = panic
      ELSE /\ panic' = (panic \/ (BUG = "panic_later" /\ damaged))
           /\ IF op + 1 = OpsPerCall THEN call' = call + 1 /\ op' = 0 ELSE call' = call /\ op' = op + 1
           /\ UNCHANGED <<anyerr, damaged>>
   /\ done' = (call' > NCalls) /\ UNCHANGED k
Next == Step \/ (done /\ UNCHANGED vars)
Spec == Init /\ [][Next]_vars
\* the result is identical to the fault-free one iff nothing was damaged
Same == ~damaged
Law(pn, ae, same) == ~pn /\ (~ae => same)
FaultLaw == done => Law(panic, anyerr, Same)
NoPanicEver == ~panic
=============================================================================
