--------------------------- MODULE Trace_DosTime ---------------------------
(* C18: every observation of zip::DateTime logged by the harness (texec) must be what
   DosTime.tla requires: constructor decisions and stored fields, from_msdos fields,
   datepart/timepart, to_time / TryFrom (calendar), archive round trips (words lexed
   independently from the written bytes), and the summary of the exhaustive 2^32 sweep
   against the tables TLC computed from the same module. *)
EXTENDS DosTime, Json, IOUtils, TLC
Rec == ndJsonDeserialize(IOEnv.TRACE)
VARIABLE l
ev == Rec[l]
Check(P) == IF P THEN TRUE ELSE FALSE
IsEvent(e) == l <= Len(Rec) /\ Rec[l].ev = e /\ l' = l + 1
Count(i) == TLCSet(i, TLCGet(i) + 1)
R6(s) == Rec6(s[1], s[2], s[3], s[4], s[5], s[6])

TraceReset == IsEvent("Reset")
\* the checked constructor accepts exactly the documented ranges, stores its arguments, packs them,
\* and the packed words unpack to the arguments at 2-second resolution; calendar conversion of the result
TraceCtor ==
   /\ IsEvent("TCtor") /\ ev.r # "panic"
   /\ LET a == ev.a  acc == CtorAccepts(a[1], a[2], a[3], a[4], a[5], a[6]) IN
      /\ Check(ev.r = (IF acc THEN "ok" ELSE "err"))
      /\ Check(acc => /\ ev.f = a
                      /\ ev.dp = PackDate(R6(a)) /\ ev.tp = PackTime(R6(a))
                      /\ R6(ev.g) = Floor2(R6(a))
                      /\ ev.tt.r = (IF ToTimeOk(R6(a)) THEN "ok" ELSE "err")
                      /\ (ToTimeOk(R6(a)) => ev.tt.days = Days(a[1], a[2], a[3]) /\ ev.tt.sod = SecOfDay(R6(a))))
   /\ Count(1)
\* from_msdos is total and exact on all words; datepart/timepart invert it; to_time succeeds exactly on
\* calendar moments, with the right day number and second of day; TryFrom inverts to_time
TraceWords ==
   /\ IsEvent("TWords") /\ ev.tt # "panic"
   /\ LET u == Unpack(ev.d, ev.t) IN
      /\ Check(R6(ev.f) = u /\ ev.dp = ev.d /\ ev.tp = ev.t)
      /\ Check(ev.tt = (IF ToTimeOk(u) THEN "ok" ELSE "err"))
      /\ Check(ToTimeOk(u) => /\ ev.days = Days(u.year, u.month, u.day) /\ ev.sod = SecOfDay(u) /\ ev.utc
                              /\ ev.back = "ok" /\ R6(ev.bf) = u)
   /\ Count(2)
\* TryFrom<OffsetDateTime>: accepted iff the year is 1980..2107; fields are the calendar fields; to_time inverts it
TraceTryFrom ==
   /\ IsEvent("TTryFrom") /\ ev.r # "panic"
   /\ Check(ev.r # "unrepresentable" =>
         /\ ev.r = (IF TryFromAccepts(ev.days) THEN "ok" ELSE "err")
         /\ (ev.r = "ok" => /\ R6(ev.f) = TryFromFields(ev.days, ev.sod)
                            /\ ev.legacy = ev.f
                            /\ ev.tt.r = "ok" /\ ev.tt.days = ev.days /\ ev.tt.sod = ev.sod)
         /\ (ev.r = "err" => ev.legacy = <<>>))
   /\ Count(3)
\* archive round trip: the words in the bytes (central and local header, lexed independently) are the
\* packed value, and the reader reports their unpacking -- the argument at 2-second resolution
TraceArchive ==
   /\ IsEvent("TArchive") /\ ev.r = "ok"
   /\ LET want == IF ev.mode = "ctor" THEN <<PackDate(R6(ev.a)), PackTime(R6(ev.a))>> ELSE <<ev.a[1], ev.a[2]>> IN
      /\ Check(ev.cd = want[1] /\ ev.ct = want[2] /\ ev.ld = want[1] /\ ev.lt = want[2])
      /\ Check(R6(ev.f) = Unpack(want[1], want[2]))
      /\ Check(R6(ev.sf) = Unpack(want[1], want[2]))                   \* the streaming reader (local header words) agrees
      /\ Check(ev.mode = "ctor" => R6(ev.f) = Floor2(R6(ev.a)))
   /\ Count(4)
\* a foreign archive's words are reported exactly, whatever they are
TraceForeign ==
   /\ IsEvent("TForeign") /\ ev.r = "ok"
   /\ Check(R6(ev.f) = Unpack(ev.cd, ev.ct) /\ ev.dp = ev.cd /\ ev.tp = ev.ct)
   /\ Count(5)
\* a timestamp read from any archive is re-written unchanged (through the writer: 2; through a raw copy: 3)
TraceRewrite ==
   /\ IsEvent("TRewrite")
   /\ Check(ev.cd2 = ev.cd /\ ev.ct2 = ev.ct /\ ev.ld2 = ev.cd /\ ev.lt2 = ev.ct)
   /\ Check(ev.cd3 = ev.cd /\ ev.ct3 = ev.ct /\ ev.ld3 = ev.cd /\ ev.lt3 = ev.ct)
   /\ Count(6)
\* the exhaustive sweep against DateTable/TimeTable of MC_DosTime found no disagreement
TraceSweep ==
   /\ IsEvent("TSweep")
   /\ Check(ev.mismatches = 0 /\ ev.panics = 0 /\ ev.dwords = 65536 /\ ev.twords * ev.tstep >= 65536)
   /\ Check(ev.to_time_ok_k > 0)
   /\ Count(7)
TraceInit == l = 1 /\ \A i \in 1..7 : TLCSet(i, 0)
TraceNext == TraceReset \/ TraceCtor \/ TraceWords \/ TraceTryFrom \/ TraceArchive \/ TraceForeign \/ TraceRewrite \/ TraceSweep
TraceSpec == TraceInit /\ [][TraceNext]_l
TraceAccepted ==
   LET d == TLCGet("stats").diameter IN
   IF d - 1 = Len(Rec)
   THEN /\ PrintT(<<"STATS", "ctor", TLCGet(1)>>) /\ PrintT(<<"STATS", "words", TLCGet(2)>>) /\ PrintT(<<"STATS", "tryfrom", TLCGet(3)>>)
        /\ PrintT(<<"STATS", "archive", TLCGet(4)>>) /\ PrintT(<<"STATS", "foreign", TLCGet(5)>>) /\ PrintT(<<"STATS", "rewrite", TLCGet(6)>>)
        /\ PrintT(<<"STATS", "sweep", TLCGet(7)>>)
   ELSE Print(<<"REJECTED", d, ToJson(Rec[d])>>, FALSE)
=============================================================================
