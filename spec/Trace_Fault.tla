---------------------------- MODULE Trace_Fault ----------------------------
(* Every run of the fault enumeration (one event per run: which operation
   failed, whether any call reported an error, whether anything panicked,
   digest of the overall result) is judged by Faults!Law against the
   failure-free run of the same scenario. *)
EXTENDS Faults, Json, IOUtils, TLC
Rec == ndJsonDeserialize(IOEnv.TRACE)
VARIABLES l, base
ev == Rec[l]
IsEvent(e) == l <= Len(Rec) /\ Rec[l].ev = e /\ l' = l + 1
Check(P) == IF P THEN TRUE ELSE FALSE
NoBase == [sc |-> "", outcome |-> ""]
TraceReset == IsEvent("Reset") /\ base' = NoBase
\* the failure-free run: nothing may fail
TraceFBase == /\ IsEvent("FRun") /\ ev.k = -1
              /\ Check(~ev.panic /\ ev.finished)
              /\ base' = [sc |-> ev.sc, outcome |-> ev.outcome, anyerr |-> ev.anyerr]
TraceFRun  == /\ IsEvent("FRun") /\ ev.k >= 0 /\ base.sc = ev.sc
              /\ Check(Law(ev.panic, ev.anyerr \/ base.anyerr, ev.finished /\ ev.outcome = base.outcome))
              \* ClosedStayIntact: whatever a failing call leaves behind, an archive that a later finish() reports as written still
              \* holds every entry that was closed before that call, unchanged (name, metadata, stored bytes, content) - a failure may
              \* cost the entry being written, never its finished neighbours (C14, C13 say so for the failure-free case)
              /\ Check(ev.side = "writer" => ev.closed_intact)
              /\ UNCHANGED base
TraceInit == l = 1 /\ base = NoBase /\ call = 1 /\ op = 0 /\ k = 0 /\ anyerr = FALSE /\ panic = FALSE /\ damaged = FALSE /\ done = FALSE
TraceNext == (TraceReset \/ TraceFBase \/ TraceFRun) /\ UNCHANGED vars
TraceSpec == TraceInit /\ [][TraceNext]_<<vars, l, base>>
TraceAccepted ==
   LET d == TLCGet("stats").diameter IN
   IF d - 1 = Len(Rec) THEN TRUE ELSE Print(<<"REJECTED", d, ToJson(Rec[d])>>, FALSE)
=============================================================================
