------------------------------- MODULE Zip64 -------------------------------
(***************************************************************************)
(* C08: the ZIP64 rules of ZipFormat.tla / ZipWriter.tla restated over     *)
(* two-limb numbers (Big.tla) so that they can be evaluated at the REAL    *)
(* thresholds 0xFFFF / 0xFFFFFFFF on archives with multi-GiB entries and   *)
(* offsets.  MC_Zip64 checks, at scaled thresholds and a small base, that  *)
(* these operators agree with the integer formulations they restate.       *)
(* Records c (central), l (local), e (end record), z (ZIP64 end record +   *)
(* locator) are the independent lexer's, every quantity a Big.             *)
(***************************************************************************)
EXTENDS Big, Sequences
CONSTANTS T32hi, T32lo,   \* the two limbs of the largest value a 32-bit field can hold without ZIP64
          TN,         \* integer: largest entry count the 16-bit end record can hold
          BUG         \* "none" or a known-bad variant (spec mutants)

T32 == <<T32hi, T32lo>>
Need(v) == IF BUG = "need_ge" THEN BLe(T32, v) ELSE BLt(T32, v)
Clamp(v) == BMin(v, T32)
ClampN(n) == IF n < TN THEN n ELSE TN
\* the fields the central ZIP64 record must carry, in the fixed order
\* (a value EQUAL to the sentinel is carried as well: its 32-bit field is indistinguishable from the marker - D17)
NeedC(v) == IF BUG = "central_gt" THEN BLt(T32, v) ELSE BLe(T32, v)
CentralFields(us, cs, off) ==
   (IF NeedC(us) THEN <<us>> ELSE <<>>) \o (IF NeedC(cs) THEN <<cs>> ELSE <<>>) \o (IF NeedC(off) THEN <<off>> ELSE <<>>)
NeedEnd(n, cdsize, cdoff) == (IF BUG = "count_ge" THEN n >= TN ELSE n > TN) \/ Need(cdsize) \/ Need(cdoff)

\* ---- the write-side rule (ZipWriter!WriteDataF, PoisonOnOversize): writing k more bytes into an entry
\* that holds `len` succeeds iff the entry was declared large or the total still fits 32 bits
WriteOk(len, k, large) == large \/ ~Need(BAdd(len, k))

\* ---- what this crate's writer must have produced for one entry (W2, W4, W4Writer of ZipFormat)
Z64Rec(x) == LET S == {i \in 1..Len(x) : x[i].id = 1} IN IF S = {} THEN <<>> ELSE x[CHOOSE i \in S : \A j \in S : i <= j].z
F32(v32, v, z) == (BEq(v32, v) /\ (BLt(v, T32) \/ ~z)) \/ (BEq(v32, T32) /\ z)
\* dup: the record may be repeated.  AppendRepeatsZip64Record (named quirk of the implementation): an entry re-emitted by
\* an append round gets a fresh ZIP64 record in front of the one kept from the old directory; every copy carries the
\* same values and readers take the first, so no property is violated - but the copies accumulate round by round.
CentralOk(c, dup) ==
   /\ c.z64_exact /\ (dup \/ ToInt(c.zcount) <= 1)
   /\ F32(c.usize32, c.usize, ToInt(c.zcount) >= 1) /\ F32(c.csize32, c.csize, ToInt(c.zcount) >= 1)
   /\ F32(c.off32, c.off, ToInt(c.zcount) >= 1)
CentralWriter(c, dup) ==
   LET fs == CentralFields(c.usize, c.csize, c.off) IN
   /\ (IF fs = <<>> THEN ToInt(c.zcount) = 0 ELSE (ToInt(c.zcount) = 1 \/ (dup /\ ToInt(c.zcount) >= 1)))
   /\ BEq(c.usize32, Clamp(c.usize)) /\ BEq(c.csize32, Clamp(c.csize)) /\ BEq(c.off32, Clamp(c.off))
   /\ Z64Rec(c.extra) = fs                                   \* exactly the overflowing values, in order
LocalAgrees(c, l) ==
   /\ l.ok /\ l.name.id = c.name.id /\ l.flags = c.flags /\ l.method = c.method /\ l.time = c.time /\ l.date = c.date
   /\ l.crc = c.crc /\ BEq(l.usize, c.usize) /\ BEq(l.csize, c.csize) /\ l.z64_ok /\ l.data_in_range
\* a local header carries a ZIP64 record exactly when the entry was declared large (then with both sizes
\* behind sentinels), or - raw copies aside - never
LocalWriter(l, large) ==
   IF large THEN ToInt(l.zcount) = 1 /\ BEq(l.usize32, T32) /\ BEq(l.csize32, T32) /\ Z64Rec(l.extra) = <<l.usize, l.csize>>
   ELSE ToInt(l.zcount) = 0 /\ BEq(l.usize32, l.usize) /\ BEq(l.csize32, l.csize)

\* ---- end records (W5, W5Writer); A = the archive event
HasZ64(A) == Len(A.z64) = 1
EndOk(A) ==
   LET e == A.eocd
       cdsize == BSub(A.cd_end, A.cd_start)
       cdoff == BSub(A.cd_start, A.prefix) IN
   /\ (NeedEnd(A.n, cdsize, cdoff) => HasZ64(A))
   \* the 16/32-bit end record holds each value, or - when ZIP64 end records exist - the sentinel
   /\ (e.n_disk = ClampN(A.n) \/ (HasZ64(A) /\ e.n_disk = TN)) /\ (e.n_total = ClampN(A.n) \/ (HasZ64(A) /\ e.n_total = TN))
   /\ (BEq(e.cd_size, Clamp(cdsize)) \/ (HasZ64(A) /\ BEq(e.cd_size, T32)))
   /\ (BEq(e.cd_offset, Clamp(cdoff)) \/ (HasZ64(A) /\ BEq(e.cd_offset, T32))) /\ e.disk = 0 /\ e.cddisk = 0
   /\ BEq(e.trailing, BZero)
   /\ (HasZ64(A) => LET z == A.z64[1] IN
         /\ ToInt(z.n_disk) = A.n /\ ToInt(z.n_total) = A.n /\ BEq(z.cd_size, cdsize) /\ BEq(z.cd_offset, cdoff)
         /\ BEq(z.disk, BZero) /\ BEq(z.cddisk, BZero) /\ ToInt(z.rec_size) = 44
         /\ BEq(z.loc_off, BSub(z.rec_pos, A.prefix)) /\ BEq(z.loc_disk, BZero) /\ ToInt(z.loc_ndisks) = 1
         /\ BEq(z.rec_pos, A.cd_end) /\ BEq(z.loc_pos, BAddInt(z.rec_pos, 56)) /\ BEq(e.pos, BAddInt(z.loc_pos, 20)))
   /\ (~HasZ64(A) => BEq(e.pos, A.cd_end))
\* this crate's writer emits ZIP64 end records exactly when needed and never forces a sentinel
EndWriter(A) ==
   LET cdsize == BSub(A.cd_end, A.cd_start)  cdoff == BSub(A.cd_start, A.prefix) IN
   /\ HasZ64(A) = NeedEnd(A.n, cdsize, cdoff)
   /\ A.eocd.n_disk = ClampN(A.n) /\ A.eocd.n_total = ClampN(A.n)
   /\ BEq(A.eocd.cd_size, Clamp(cdsize)) /\ BEq(A.eocd.cd_offset, Clamp(cdoff))

\* ---- what the reader must report for an entry (ZipOpen!EntryView, restated)
ReaderAgrees(A, c, l, rd) ==
   /\ rd.r = "ok" /\ rd.name.id = c.dname.id /\ rd.crc = c.crc /\ rd.method = ToInt(c.method)
   /\ BEq(rd.usize, c.usize) /\ BEq(rd.csize, c.csize)
   /\ BEq(rd.hdr, BAdd(A.prefix, c.off)) /\ BEq(rd.dstart, l.dstart) /\ BEq(rd.chs, c.pos)
=============================================================================
