CONSTANTS
  Thr16 = 40
  ThrN = 1
  Thr32 = 6
  MaxFiles = 3
  MaxChunks = 2
  MaxX = 2
  EmitEdges = FALSE
  Depth = 14
SPECIFICATION SimSpec
INVARIANT Emit
INVARIANT ModeConsistent
INVARIANT LayoutWellFormed
CHECK_DEADLOCK FALSE
