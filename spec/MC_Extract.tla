---------------------------- MODULE MC_Extract ----------------------------
(* Exhaustive check of Extract.tla: every list of up to MaxEntries entries whose names are built from
   up to MaxComps components over {a, C, ., ..} with optional leading and trailing '/', or one of the
   Extra names (NUL, backslash, doubled separators), modes from Modes, two content tokens; both extractors.
   C is also the name of the canary directory next to the target, so "../C/x" and "/C/x" aim at it. *)
EXTENDS Extract
CONSTANTS MaxEntries, MaxComps, NameSet, Diverge
Modes == {-1, 33152, 16877}          \* none, 0o100600, 0o40755
VARIABLES es, via
vars == <<es, via>>
A == <<97>>
C == <<67>>
Comps == {A, C, <<DOT>>, <<DOT, DOT>>}
RECURSIVE Join(_)
Join(cs) == IF Len(cs) = 0 THEN <<>> ELSE IF Len(cs) = 1 THEN cs[1] ELSE cs[1] \o <<SLASH>> \o Join(Tail(cs))
Bodies == UNION {[1..k -> Comps] : k \in 1..MaxComps}
Generated == {lead \o Join(b) \o trail : lead \in {<<>>, <<SLASH>>}, b \in Bodies, trail \in {<<>>, <<SLASH>>}}
Extra == {<<97, 0, 98>>, <<97, BSLASH, 98>>, <<BSLASH, 97>>, <<97, SLASH, SLASH, 67>>, <<DOT, DOT, BSLASH, 67>>, <<>>, <<SLASH>>,
          <<97, SLASH, DOT, DOT, SLASH, DOT, DOT, SLASH, 67, SLASH, 120>>}
Small == {<<97>>, <<97, SLASH>>, <<97, SLASH, 67>>, <<97, SLASH, DOT, DOT, SLASH, 67>>, <<67, SLASH>>, <<DOT, DOT, SLASH, 67, SLASH, 120>>,
          <<SLASH, 67, SLASH, 120>>, <<97, SLASH, DOT, SLASH>>, <<67>>, <<97, SLASH, 67, SLASH>>, <<DOT, SLASH, 97>>}
Names == IF NameSet = "full" THEN Generated \cup Extra ELSE Small
\* with Diverge the central name may differ from the local one (aimed at the canary, or merely different)
DivNames == {<<DOT, DOT, SLASH, 67, SLASH, 120>>, <<SLASH, 67, SLASH, 120>>, <<67>>, <<DOT, DOT, SLASH, 67>>}
Entries == IF Diverge
           THEN UNION {{[name |-> n, cname |-> c, mode |-> m, data |-> <<1, "d1">>] : c \in DivNames \cup {n}, m \in Modes} : n \in Names}
           ELSE {[name |-> n, cname |-> n, mode |-> m, data |-> d] : n \in Names, m \in Modes, d \in {<<1, "d1">>, <<1, "d2">>}}
Fs0 == (TRoot :> DirNode(DefDir)) @@ (<<C>> :> DirNode(DefDir)) @@ (<<C, <<120>>>> :> FileNode(DefFile, <<6, "canary">>))
\* (entries are appended one per step so that TLC's workers share the enumeration; every prefix is itself an archive)
Init == es = <<>> /\ via \in {"seek", "stream"}
Next == Len(es) < MaxEntries /\ (\E e \in Entries : es' = Append(es, e)) /\ UNCHANGED via
Spec == Init /\ [][Next]_vars
R == Run(Fs0, es, via)
\* nothing outside the target directory is created, modified or removed, whatever the names are
OutsideUntouched == Outside(R.fs) = Outside(Fs0)
\* an unsafe name makes extraction fail
\* (the seekable extractor never looks at local names)
UnsafeFails == (IF via = "seek" THEN \E i \in 1..Len(es) : Enclosed(es[i].cname) = <<>> ELSE ~AllSafe(es)) => R.res = "err"
\* safe, mutually consistent names: success, and exactly the denoted tree with contents and permission bits
TreeExact == (AllSafe(es) /\ Consistent(es) /\ ~Diverged(es)) => (R.res = "ok" /\ R.clean /\ Below(R.fs) = Expected(es))
\* whenever the files phase got through without a conflict, what is on disk below T never depends on the extractor
\* (the streaming extractor only postpones the modes)
ExtractorsAgree == LET a == Run(Fs0, es, "seek")  b == Run(Fs0, es, "stream") IN
                   (a.res = "ok" /\ b.res = "ok" /\ ~Diverged(es)) => a.fs = b.fs
=============================================================================
