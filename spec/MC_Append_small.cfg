CONSTANTS
  Thr16 = 40
  ThrN = 0
  Thr32 = 6
  MaxFiles = 1
  MaxChunks = 2
  MaxX = 2
  EmitEdges = FALSE
  MaxRounds = 2
SPECIFICATION ASpec
VIEW AView
INVARIANT ModeConsistent
INVARIANT LayoutWellFormed
INVARIANT NoTruncation
INVARIANT NoWrappedSizes
INVARIANT NoStaleTail
INVARIANT AppendRoundTrip
PROPERTY AppendKeeps
CHECK_DEADLOCK FALSE
