CONSTANTS
  PLens = {0}
  Bufs = {0}
  BUG = "none"
SPECIFICATION TraceSpecDiag
INVARIANT TraceInv
POSTCONDITION TraceAccepted
CHECK_DEADLOCK FALSE
