CONSTANTS
  BUG = "none"
  Emit = FALSE
SPECIFICATION Spec
INVARIANT WordsRoundTrip
INVARIANT FieldsRoundTrip
INVARIANT CtorFits
INVARIANT CtorCoversCalendar
INVARIANT Calendar
POSTCONDITION Post
CHECK_DEADLOCK FALSE
