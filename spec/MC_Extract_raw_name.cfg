CONSTANTS
  BUG = "raw_name"
  DefFile = 420
  DefDir = 493
  MaxEntries = 1
  MaxComps = 2
  Diverge = FALSE
  NameSet = "full"
SPECIFICATION Spec
INVARIANT OutsideUntouched
CHECK_DEADLOCK FALSE
