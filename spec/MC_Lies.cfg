CONSTANTS
  NEnt = 2
  Pairs = FALSE
SPECIFICATION Spec
INVARIANT Sane
INVARIANT Emit
CHECK_DEADLOCK FALSE
INVARIANT EmitInjections
