CONSTANTS
  OBUG = "none"
  RBUG = "central_xlen"
  Thr16 = 5
  ThrN = 1
  Thr32 = 60
  N = 1
  Full = "few"
  Emit = FALSE
SPECIFICATION Spec
INVARIANT ReaderFaithful
INVARIANT ProducerSane
CHECK_DEADLOCK FALSE
