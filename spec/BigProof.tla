------------------------------ MODULE BigProof ------------------------------
(* The two-limb arithmetic of Big.tla for UNBOUNDED naturals, for Apalache (SMT): with the real base 2^24 the
   operations agree with integer arithmetic for every pair of values, not only the grid MC_Zip64 enumerates.
   apalache-mc check --init=AnyInit --inv=Laws --length=0 BigProof.tla *)
EXTENDS Integers
B == 16777216
VARIABLES
  \* @type: Int;
  x,
  \* @type: Int;
  y
\* (same definitions as Big.tla, on explicit limbs so that Apalache needs no tuple typing)
Hi(n) == n \div B
Lo(n) == n % B
AddHi(ah, al, bh, bl) == ah + bh + ((al + bl) \div B)
AddLo(al, bl) == (al + bl) % B
SubHi(ah, al, bh, bl) == IF al >= bl THEN ah - bh ELSE ah - bh - 1
SubLo(al, bl) == IF al >= bl THEN al - bl ELSE al + B - bl
Lt(ah, al, bh, bl) == ah < bh \/ (ah = bh /\ al < bl)
Le(ah, al, bh, bl) == ah < bh \/ (ah = bh /\ al <= bl)
Val(h, l) == h * B + l
AnyInit == x \in Nat /\ y \in Nat
Next == UNCHANGED <<x, y>>
Laws ==
   /\ Val(Hi(x), Lo(x)) = x /\ Lo(x) >= 0 /\ Lo(x) < B /\ Hi(x) >= 0
   /\ Val(AddHi(Hi(x), Lo(x), Hi(y), Lo(y)), AddLo(Lo(x), Lo(y))) = x + y
   /\ AddLo(Lo(x), Lo(y)) >= 0 /\ AddLo(Lo(x), Lo(y)) < B
   /\ (x >= y => /\ Val(SubHi(Hi(x), Lo(x), Hi(y), Lo(y)), SubLo(Lo(x), Lo(y))) = x - y
                 /\ SubLo(Lo(x), Lo(y)) >= 0 /\ SubLo(Lo(x), Lo(y)) < B)
   /\ (Lt(Hi(x), Lo(x), Hi(y), Lo(y)) <=> x < y)
   /\ (Le(Hi(x), Lo(x), Hi(y), Lo(y)) <=> x <= y)
=============================================================================
