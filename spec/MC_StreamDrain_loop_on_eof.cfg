CONSTANTS
  MaxRest = 7
  B = 3
  BUG = "loop_on_eof"
SPECIFICATION Spec
INVARIANT LandsOnBoundary
INVARIANT NeverOverruns
INVARIANT ErrOnlyIfCut
PROPERTY Terminates
CHECK_DEADLOCK FALSE
