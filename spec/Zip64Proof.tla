----------------------------- MODULE Zip64Proof -----------------------------
(* The central ZIP64 record for UNBOUNDED values, for Apalache (SMT): for ALL naturals usize, csize, offset and every
   subset of fields a producer forces into the record, decoding the emitted 32-bit fields and record by the
   sentinel-keyed rule (ZipFormat!ParseZ64 / Producer!TakeZ64, restated on scalars) returns exactly the three values -
   not only on the grids MC_Producer and MC_Writer enumerate at scaled limits.  With the rule the crate's writer used
   before the repair of D17 ("a value goes into the record iff it is ABOVE the sentinel", StrictlyAbove = TRUE) the
   theorem is false, and Apalache produces the counterexample (usize = 0xFFFFFFFF, offset above it).
     apalache-mc check --init=AnyInit --inv=DecodeInvertsEmit --length=0 Zip64Proof.tla
     apalache-mc check --init=OldInit --inv=DecodeInvertsEmit --length=0 Zip64Proof.tla     (must FAIL) *)
EXTENDS Integers
T == 4294967295
VARIABLES
  \* @type: Int;
  us,
  \* @type: Int;
  cs,
  \* @type: Int;
  off,
  \* @type: Bool;
  fu,
  \* @type: Bool;
  fc,
  \* @type: Bool;
  fo,
  \* @type: Bool;
  old
\* emission: which values travel in the record; what the 32-bit fields hold
Sent(v, forced) == IF old THEN (v > T \/ forced) ELSE (v >= T \/ forced)
F32(v, forced) == IF Sent(v, forced) THEN T ELSE (IF v > T THEN T ELSE v)
\* the record as three optional slots in the fixed order; n1..n3 = how many values precede each slot
N1 == IF Sent(us, fu) THEN 1 ELSE 0
N2 == N1 + (IF Sent(cs, fc) THEN 1 ELSE 0)
N3 == N2 + (IF Sent(off, fo) THEN 1 ELSE 0)
\* k-th value of the record (1-based), or T when the record is shorter
Val(k) == IF k = 1 /\ N3 >= 1 THEN (IF Sent(us, fu) THEN us ELSE IF Sent(cs, fc) THEN cs ELSE off)
          ELSE IF k = 2 /\ N3 >= 2 THEN (IF Sent(us, fu) /\ Sent(cs, fc) THEN cs ELSE off)
          ELSE IF k = 3 /\ N3 >= 3 THEN off ELSE T
\* decoding: a field that holds the sentinel takes the next value (when a record is present at all)
Has == N3 >= 1
A == IF Has /\ F32(us, fu) = T THEN 1 ELSE 0
Bq == IF Has /\ F32(cs, fc) = T THEN 1 ELSE 0
C == IF Has /\ F32(off, fo) = T THEN 1 ELSE 0
DUs == IF A = 1 THEN Val(1) ELSE F32(us, fu)
DCs == IF Bq = 1 THEN Val(A + 1) ELSE F32(cs, fc)
DOff == IF C = 1 THEN Val(A + Bq + 1) ELSE F32(off, fo)
AnyInit == us \in Nat /\ cs \in Nat /\ off \in Nat /\ fu \in BOOLEAN /\ fc \in BOOLEAN /\ fo \in BOOLEAN /\ old = FALSE
OldInit == us \in Nat /\ cs \in Nat /\ off \in Nat /\ fu \in BOOLEAN /\ fc \in BOOLEAN /\ fo \in BOOLEAN /\ old = TRUE
Next == UNCHANGED <<us, cs, off, fu, fc, fo, old>>
DecodeInvertsEmit == DUs = us /\ DCs = cs /\ DOff = off /\ A + Bq + C = N3
=============================================================================
