CONSTANTS
  Handles = {1, 2, 3, 4, 5, 6, 7, 8, 9, 10, 11, 12, 13, 14, 15, 16}
  NEnt = 1
  Len0 = 1
  BUG = "none"
SPECIFICATION TraceSpecDiag
INVARIANT TraceInv
POSTCONDITION TraceAccepted
CHECK_DEADLOCK FALSE
