------------------------------ MODULE Encoding ------------------------------
(***************************************************************************)
(* How names and comments are decoded (C19): by the language-encoding flag *)
(* (general-purpose bit 11): UTF-8 when set -- invalid sequences replaced  *)
(* by U+FFFD, never an error -- and IBM code page 437 otherwise, for every *)
(* byte value.  Strings are sequences of Unicode code points; byte strings *)
(* sequences of 0..255.                                                    *)
(***************************************************************************)
EXTENDS Naturals, Integers, Sequences, Cp437Table

DecodeCp437(bs) == [i \in 1..Len(bs) |-> Cp437[bs[i] + 1]]

\* strict UTF-8 decoder (RFC 3629: shortest form, no surrogates, <= U+10FFFF);
\* returns <<-1>> when the bytes are not valid UTF-8
Cont(b) == b \in 128..191
RECURSIVE Utf8(_)
Utf8(bs) ==
   IF bs = <<>> THEN <<>>
   ELSE LET b == bs[1] n == Len(bs) IN
        IF b < 128 THEN LET r == Utf8(Tail(bs)) IN IF r = <<-1>> THEN r ELSE <<b>> \o r
        ELSE IF b \in 194..223 /\ n >= 2 /\ Cont(bs[2])
             THEN LET r == Utf8(SubSeq(bs, 3, n)) IN
                  IF r = <<-1>> THEN r ELSE <<(b - 192) * 64 + (bs[2] - 128)>> \o r
        ELSE IF b \in 224..239 /\ n >= 3 /\ Cont(bs[2]) /\ Cont(bs[3])
                /\ (b = 224 => bs[2] >= 160) /\ (b = 237 => bs[2] <= 159)
             THEN LET r == Utf8(SubSeq(bs, 4, n)) IN
                  IF r = <<-1>> THEN r ELSE <<(b - 224) * 4096 + (bs[2] - 128) * 64 + (bs[3] - 128)>> \o r
        ELSE IF b \in 240..244 /\ n >= 4 /\ Cont(bs[2]) /\ Cont(bs[3]) /\ Cont(bs[4])
                /\ (b = 240 => bs[2] >= 144) /\ (b = 244 => bs[2] <= 143)
             THEN LET r == Utf8(SubSeq(bs, 5, n)) IN
                  IF r = <<-1>> THEN r
                  ELSE <<(b - 240) * 262144 + (bs[2] - 128) * 4096 + (bs[3] - 128) * 64 + (bs[4] - 128)>> \o r
        ELSE <<-1>>
ValidUtf8(bs) == Utf8(bs) # <<-1>>

\* Decoded(flag, bytes, lossy): the string a reader must present.  `lossy` is the replacement
\* decoding of the standard library (the documented behaviour) -- only consulted for invalid UTF-8.
Decoded(flag, bs, lossy) ==
   IF ~flag THEN DecodeCp437(bs)
   ELSE IF ValidUtf8(bs) THEN Utf8(bs) ELSE lossy
\* replacement decoding never fails and never invents anything but U+FFFD for the bad parts
LossyPlausible(bs, lossy) == ValidUtf8(bs) \/ (\E i \in 1..Len(lossy) : lossy[i] = 65533)
=============================================================================
