CONSTANTS
  NCalls = 4
  OpsPerCall = 3
  BUG = "panic_later"
SPECIFICATION Spec
INVARIANT FaultLaw
INVARIANT NoPanicEver
CHECK_DEADLOCK FALSE
