CONSTANTS
  MaxEntries = 3
  Sizes = {0, 1, 4}
  BUG = "none"
SPECIFICATION Spec
INVARIANT OnRecordBoundary
INVARIANT InsideEntry
INVARIANT EndAtDirectory
INVARIANT VisitOrder
CHECK_DEADLOCK FALSE
