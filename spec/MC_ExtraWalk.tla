---------------------------- MODULE MC_ExtraWalk ----------------------------
(* Exhaustive check of ExtraWalk.tla over every field of up to MaxRecs records:
   header fields usize/csize/offset each small or the marker; at most one ZIP64 record holding one value per marker (well formed) or
   one value too few / too many / a body cut short (malformed); an optional AE-x record of 7 bytes (or of 6: refused); unknown and
   reserved records with bodies of 0, 1, 7 and 8 bytes (an empty body and the sizes of the known records); every ORDER of the records;
   0, 1 or 3 bytes of an incomplete header at the end; the last record possibly cut short.
   Well-formed fields are printed as CASE lines (Emit) and materialised for the real reader and writer. *)
EXTENDS ExtraWalk, Json
CONSTANTS MaxRecs, Emit

Z64Rec(n, nvals, cut) == [id |-> "z64", dlen |-> 8 * nvals, body |-> 8 * nvals - cut, vals |-> [j \in 1..nvals |-> 100 + j]]
AesRec(len) == [id |-> "aes", dlen |-> len, body |-> len, vals |-> <<>>]
Oth(id, len, cut) == [id |-> id, dlen |-> len, body |-> len - cut, vals |-> <<>>]
Fields3 == { [us |-> a, cs |-> b, off |-> c] : a \in {3, Mark}, b \in {2, Mark}, c \in {0, Mark} }
\* the multiset of records of a field, before ordering
Others == { <<>> } \cup { <<Oth(i, l, 0)>> : i \in {"oth", "rsv"}, l \in {0, 1, 7, 8} }
            \cup { <<Oth("oth", l1, 0), Oth("oth", l2, 0)>> : l1 \in {0, 8}, l2 \in {0, 1} }
ZChoices(f) == LET n == Sentinels(f) IN
   IF n = 0 THEN { <<>>, <<Z64Rec(n, 1, 0)>> }                                        \* (a ZIP64 record nobody asked for: malformed)
   ELSE { <<Z64Rec(n, n, 0)>>, <<Z64Rec(n, n - 1, 0)>>, <<Z64Rec(n, n + 1, 0)>>, <<>> }
AChoices == { <<>>, <<AesRec(7)>>, <<AesRec(6)>> }
Perms(s) == { p \in [1..Len(s) -> 1..Len(s)] : \A i, j \in 1..Len(s) : i # j => p[i] # p[j] }
Ordered(s) == { [i \in 1..Len(s) |-> s[p[i]]] : p \in Perms(s) }
\* the last record may be cut short (then there is no incomplete header behind it: the bytes would be the same as a longer body)
CutLast(s) == IF s = <<>> \/ s[Len(s)].dlen = 0 THEN {s}
              ELSE {s, [s EXCEPT ![Len(s)].body = s[Len(s)].dlen - 1]}
Init == \E f \in Fields3 : \E z \in ZChoices(f) : \E a \in AChoices : \E oth \in Others :
          /\ Len(z) + Len(a) + Len(oth) <= MaxRecs
          /\ \E o \in Ordered(z \o a \o oth) : \E rs \in CutLast(o) : \E t \in {0, 1, 3} :
                /\ (rs # <<>> /\ rs[Len(rs)].body < rs[Len(rs)].dlen => t = 0)
                /\ fx = [recs |-> rs, tail |-> t, f |-> f]
                /\ pos = 0 /\ st = St0([recs |-> rs, tail |-> t, f |-> f]) /\ done = FALSE
Next == WalkStep \/ WalkDone
Spec == Init /\ [][Next]_wvars
\* non-vacuity: well-formed fields with a ZIP64 record behind an AE-fx record exist and end with the truth
EmitCase == (Emit /\ pos = 0 /\ ~done) =>
              PrintT(<<"CASE", ToJson([recs |-> [k \in 1..Len(fx.recs) |-> [id |-> fx.recs[k].id, dlen |-> fx.recs[k].dlen, body |-> fx.recs[k].body,
                                                                         nvals |-> Len(fx.recs[k].vals)]],
                                       tail |-> fx.tail, us |-> fx.f.us = Mark, cs |-> fx.f.cs = Mark, off |-> fx.f.off = Mark,
                                       wf |-> WellFormedField(fx), accepts |-> Accepts(fx)])>>)
=============================================================================
