---------------------------- MODULE MC_DosTime ----------------------------
(* Exhaustive laws of DosTime.tla: every date word, every time word, every constructor
   argument tuple of the documented ranges and their boundary neighbours (date and time
   parts are structurally independent, so they are enumerated separately), and every
   calendar day 1979-01-01 .. 2108-12-31 incl. day 0/32 and month 0/13.
   With Emit = TRUE the tables the conformance harness sweeps against are written out. *)
EXTENDS DosTime, TLC, FiniteSets, Json, IOUtils
CONSTANT Emit
VARIABLE c
DateCases == [k : {"dw"}, w : Word]
TimeCases == [k : {"tw"}, w : Word]
CtorDates == [k : {"cd"}, y : 1979..2108, mo : 0..13, d : 0..32]
CtorTimes == [k : {"ct"}, h : 0..24, mi : 0..60, s : 0..61]
Init == c \in DateCases \cup TimeCases \cup CtorDates \cup CtorTimes
Next == UNCHANGED c
Spec == Init /\ [][Next]_c

\* pack o unpack = identity on all words (hence unpack is injective: nothing read from an archive is lost)
WordsRoundTrip ==
   /\ c.k = "dw" => PackDate(DateFields(c.w)) = c.w
   /\ c.k = "tw" => PackTime(TimeFields(c.w)) = c.w
\* unpack o pack = identity on everything from_msdos can return
FieldsRoundTrip ==
   /\ c.k = "dw" => LET f == DateFields(c.w) IN DateFields(PackDate(f)) = f /\ f.year \in 1980..2107
   /\ c.k = "tw" => LET f == TimeFields(c.w) IN TimeFields(PackTime([f EXCEPT !.second = f.second])) = f
\* accepted constructor arguments fit their words and survive up to the 2-second resolution
CtorFits ==
   /\ c.k = "cd" /\ CtorAccepts(c.y, c.mo, c.d, 0, 0, 0) =>
         LET r == Rec6(c.y, c.mo, c.d, 0, 0, 0) IN
         /\ PackDate(r) \in Word
         /\ DateFields(PackDate(r)) = [year |-> c.y, month |-> c.mo, day |-> c.d]
   /\ c.k = "ct" /\ CtorAccepts(1980, 1, 1, c.h, c.mi, c.s) =>
         LET r == Rec6(1980, 1, 1, c.h, c.mi, c.s) IN
         /\ PackTime(r) \in Word
         /\ TimeFields(PackTime(r)) = [hour |-> c.h, minute |-> c.mi, second |-> 2 * (c.s \div 2)]
\* the constructor's range is exactly the documented one: every real calendar moment 1980..2107 is accepted
\* and a leap second is tolerated
CtorCoversCalendar ==
   /\ c.k = "cd" /\ c.y \in 1980..2107 /\ ValidDate(c.y, c.mo, c.d) => CtorAccepts(c.y, c.mo, c.d, 0, 0, 0)
   /\ c.k = "ct" /\ ValidTime(c.h, c.mi, c.s) => CtorAccepts(1980, 1, 1, c.h, c.mi, c.s)
   /\ c.k = "ct" /\ c.h = 23 /\ c.mi = 59 /\ c.s = 60 => CtorAccepts(1980, 1, 1, c.h, c.mi, c.s)
\* the two day-count formulations agree, are strictly monotone day by day, and Civil inverts them
Calendar ==
   c.k = "cd" /\ ValidDate(c.y, c.mo, c.d) =>
      /\ Days(c.y, c.mo, c.d) = DaysEra(c.y, c.mo, c.d)
      /\ Civil(Days(c.y, c.mo, c.d)) = [year |-> c.y, month |-> c.mo, day |-> c.d]
      /\ (c.d < DaysIn(c.y, c.mo) => Days(c.y, c.mo, c.d + 1) = Days(c.y, c.mo, c.d) + 1)
      /\ (c.d = DaysIn(c.y, c.mo) /\ c.mo < 12 => Days(c.y, c.mo + 1, 1) = Days(c.y, c.mo, c.d) + 1)
      /\ (c.d = 31 /\ c.mo = 12 => Days(c.y + 1, 1, 1) = Days(c.y, c.mo, c.d) + 1)
Anchors == Days(1970, 1, 1) = 0 /\ Days(1980, 1, 1) = 3652 /\ Days(2000, 3, 1) = 11017 /\ Days(2107, 12, 31) = 50402
\* exactly the real days of 1980..2107 are date words that convert to calendar time
ValidWordCount == Cardinality({w \in Word : ValidDate(DateFields(w).year, DateFields(w).month, DateFields(w).day)})
                     = Days(2108, 1, 1) - Days(1980, 1, 1)

\* ---- tables for the exhaustive 2^32 sweep of the implementation (spec -> impl)
DateTable == [i \in 1..65536 |-> LET f == DateFields(i - 1) IN
                <<f.year, f.month, f.day, IF ValidDate(f.year, f.month, f.day) THEN Days(f.year, f.month, f.day) ELSE -1>>]
TimeTable == [i \in 1..65536 |-> LET f == TimeFields(i - 1) IN
                <<f.hour, f.minute, f.second, IF ValidTime(f.hour, f.minute, f.second) THEN SecOfDay(f) ELSE -1>>]
EmitTables == IF Emit THEN JsonSerialize(IOEnv.OUT, [date |-> DateTable, time |-> TimeTable]) ELSE TRUE
Post == TLCGet("stats").diameter >= 1 /\ Anchors /\ ValidWordCount /\ EmitTables
=============================================================================
