CONSTANTS
  PLens = {0, 1, 5}
  Bufs = {0, 1, 2, 5}
  BUG = "none"
SPECIFICATION Spec
INVARIANT CipherSync
INVARIANT MacAtEnd
INVARIANT EofIntegrity
INVARIANT TamperDetected
INVARIANT Accounting
INVARIANT ZeroAndSticky
CHECK_DEADLOCK FALSE
