------------------------------ MODULE ExtraWalk ------------------------------
(***************************************************************************)
(* The extra field of a header is a byte string of records                  *)
(*      id (2 bytes)  length (2 bytes)  body (length bytes)                 *)
(* and two pieces of the crate walk it byte by byte:                        *)
(*                                                                          *)
(*   the READER (read.rs, parse_extra_field) - for the central record, the  *)
(*   local header of a streamed entry and every entry of an archive opened  *)
(*   for append - picks the ZIP64 values (8 bytes for each of usize, csize, *)
(*   offset whose 32-bit field holds the marker, in that order) and the     *)
(*   AE-x record (7 bytes) and skips what it does not know by the declared  *)
(*   length;                                                                *)
(*                                                                          *)
(*   the WRITER (write.rs, validate_extra_data) accepts caller-supplied     *)
(*   extra data iff it is a sequence of COMPLETE records with permitted     *)
(*   ids.                                                                   *)
(*                                                                          *)
(* Both are modelled here at BYTE granularity - a cursor `pos` into the     *)
(* field, the number of bytes a record declares vs. the bytes really        *)
(* there, up to three bytes of an incomplete header at the end - because    *)
(* their defects are cursor defects (D18: the AE-x record's bytes were      *)
(* consumed without being accounted for, so the walk continued seven bytes  *)
(* INSIDE the next record).  Record-level models (Producer.tla) cannot      *)
(* express "lands inside a record".                                         *)
(*                                                                          *)
(* Theorems (TLC, MC_ExtraWalk):                                            *)
(*   OnBoundary     while the field is well formed the cursor stands on a   *)
(*                  record start (or on the incomplete tail) at every loop  *)
(*                  head;                                                   *)
(*   WalkFaithful   at the end every ZIP64 value and the AE-x record have   *)
(*                  been understood: result = truth;                        *)
(*   ValidateExact  the writer accepts exactly the well-formed, permitted   *)
(*                  sequences.                                              *)
(* WBUG selects known-bad variants (each must be refuted):                  *)
(*   aes_no_account  D18                                                    *)
(*   guard_lt        loop guard `pos + 4 < total`: a final record with an   *)
(*                   empty body is never visited (harmless to the reader's  *)
(*                   result, but the writer then accepts a bare reserved id)*)
(*   skip_declared   after a ZIP64 record skip the full declared length     *)
(*                   although its values were already consumed              *)
(*   stale_left      (writer) the remaining length is not refreshed per     *)
(*                   record, so a body that overruns by little is accepted  *)
(*   tail_ok         (writer) an incomplete header at the end is accepted   *)
(***************************************************************************)
EXTENDS Naturals, Integers, Sequences, FiniteSets, TLC

CONSTANTS WBUG, Mark          \* Mark: the 32-bit marker (scaled)

\* ---- a field -------------------------------------------------------------
\* rec = [id |-> "z64" | "aes" | "oth" | "rsv", dlen |-> declared length, body |-> bytes present (= dlen unless the field ends
\*        inside the body), vals |-> the 8-byte values a z64 record holds]
\* fld = [recs |-> Seq(rec), tail |-> 0..3 (bytes of an incomplete header), f |-> [us, cs, off] the 32-bit header fields]
RecLen(r) == 4 + r.body
RECURSIVE StartOf(_, _)
StartOf(x, k) == IF k = 1 THEN 0 ELSE StartOf(x, k - 1) + RecLen(x.recs[k - 1])
NRec(x) == Len(x.recs)
Total(x) == StartOf(x, NRec(x) + 1) + x.tail
Boundaries(x) == { StartOf(x, k) : k \in 1..(NRec(x) + 1) }
RecAt(x, p) == IF \E k \in 1..NRec(x) : StartOf(x, k) = p THEN CHOOSE k \in 1..NRec(x) : StartOf(x, k) = p ELSE 0

Sentinels(f) == (IF f.us = Mark THEN 1 ELSE 0) + (IF f.cs = Mark THEN 1 ELSE 0) + (IF f.off = Mark THEN 1 ELSE 0)
\* well formed: every body complete; the ZIP64 record (at most one) holds exactly one value per marker-valued field; the AE-x record
\* (at most one) is 7 bytes long
WellFormedField(x) ==
   /\ \A k \in 1..NRec(x) : x.recs[k].body = x.recs[k].dlen
   /\ Cardinality({k \in 1..NRec(x) : x.recs[k].id = "z64"}) = (IF Sentinels(x.f) > 0 THEN 1 ELSE 0)
   /\ \A k \in 1..NRec(x) : x.recs[k].id = "z64" => Len(x.recs[k].vals) = Sentinels(x.f) /\ x.recs[k].dlen = 8 * Sentinels(x.f)
   /\ Cardinality({k \in 1..NRec(x) : x.recs[k].id = "aes"}) <= 1
   /\ \A k \in 1..NRec(x) : x.recs[k].id = "aes" => x.recs[k].dlen = 7

\* ---- the reader's walk, one loop iteration per step ------------------------------
\* st = [us, cs, off (current values), aes (AE-x seen), err (the archive is refused), lost (the cursor left the record structure)]
St0(x) == [us |-> x.f.us, cs |-> x.f.cs, off |-> x.f.off, aes |-> FALSE, err |-> FALSE, lost |-> FALSE]
Guard(x, pos) == IF WBUG = "guard_lt" THEN pos + 4 < Total(x) ELSE pos < Total(x)
\* one iteration at cursor p (p is on a record start); result [pos, st, stop]
Iter(x, p, st) ==
   LET k == RecAt(x, p) avail == Total(x) - p IN
   IF k = 0 \/ avail < 4 THEN [pos |-> p, st |-> st, stop |-> TRUE]               \* incomplete header: the read fails, the caller ignores it
   ELSE LET r == x.recs[k] p1 == p + 4 room == Total(x) - p1 IN
        IF r.id = "z64"
        THEN LET a == IF st.us = Mark THEN 1 ELSE 0
                 b == IF st.cs = Mark THEN 1 ELSE 0
                 c == IF st.off = Mark THEN 1 ELSE 0
                 want == a + b + c
                 got == IF 8 * want <= room THEN want ELSE room \div 8                \* a read past the end fails (and stops the walk)
                 at(j) == IF j <= Len(r.vals) THEN r.vals[j] ELSE -1                  \* (-1: bytes of whatever follows the record)
                 st1 == [st EXCEPT !.us = IF a = 1 /\ got >= 1 THEN at(1) ELSE st.us,
                                   !.cs = IF b = 1 /\ got >= a + 1 THEN at(a + 1) ELSE st.cs,
                                   !.off = IF c = 1 /\ got >= a + b + 1 THEN at(a + b + 1) ELSE st.off]
                 left == IF WBUG = "skip_declared" THEN r.dlen ELSE r.dlen - 8 * got
             IN [pos |-> p1 + 8 * got + (IF left > 0 THEN left ELSE 0), st |-> st1, stop |-> got < want]
        ELSE IF r.id = "aes"
        THEN IF r.dlen # 7 THEN [pos |-> p1, st |-> [st EXCEPT !.err = TRUE], stop |-> TRUE]
             ELSE IF room < 7 THEN [pos |-> p1, st |-> st, stop |-> TRUE]
             ELSE [pos |-> p1 + 7 + (IF WBUG = "aes_no_account" THEN 7 ELSE 0), st |-> [st EXCEPT !.aes = TRUE], stop |-> FALSE]
        ELSE [pos |-> p1 + r.dlen, st |-> st, stop |-> FALSE]                          \* unknown records are skipped by their declared length

VARIABLES fx, pos, st, done
wvars == <<fx, pos, st, done>>
WalkStep ==
   /\ ~done
   /\ IF ~Guard(fx, pos) THEN done' = TRUE /\ UNCHANGED <<fx, pos, st>>
      ELSE IF pos \notin Boundaries(fx) \/ pos > StartOf(fx, NRec(fx) + 1)
      THEN done' = TRUE /\ st' = [st EXCEPT !.lost = TRUE] /\ UNCHANGED <<fx, pos>>    \* inside a record: what follows is noise
      ELSE LET r == Iter(fx, pos, st) IN pos' = r.pos /\ st' = r.st /\ done' = r.stop /\ UNCHANGED fx
WalkDone == done /\ UNCHANGED wvars

\* ---- what must hold ------------------------------------------------------------------
OnBoundary == (WellFormedField(fx) /\ ~done /\ Guard(fx, pos)) => (pos \in Boundaries(fx) /\ pos <= StartOf(fx, NRec(fx) + 1))
\* the truth about a well-formed field
TruthOf(y) ==
   LET zk == IF \E k \in 1..NRec(y) : y.recs[k].id = "z64" THEN CHOOSE k \in 1..NRec(y) : y.recs[k].id = "z64" ELSE 0
       v == IF zk = 0 THEN <<>> ELSE y.recs[zk].vals
       a == IF y.f.us = Mark THEN 1 ELSE 0
       b == IF y.f.cs = Mark THEN 1 ELSE 0
   IN [us |-> IF y.f.us = Mark THEN v[1] ELSE y.f.us, cs |-> IF y.f.cs = Mark THEN v[a + 1] ELSE y.f.cs,
       off |-> IF y.f.off = Mark THEN v[a + b + 1] ELSE y.f.off,
       aes |-> \E k \in 1..NRec(y) : y.recs[k].id = "aes", err |-> FALSE, lost |-> FALSE]
WalkFaithful == (done /\ WellFormedField(fx)) => st = TruthOf(fx)
\* whatever the bytes are, the walk ends (each iteration moves the cursor forward or stops)
Progress == [][~done /\ ~done' => pos' > pos]_wvars

\* ---- the writer's validation of caller-supplied extra data ---------------------------------
\* same field shape; ids: "oth" permitted; "z64" (0x0001), "aes" (0x9901) and "rsv" (reserved by PKWARE / registered) refused
RECURSIVE Validate(_, _)
Validate(y, k) ==
   \* (stale_left: the remaining length is the field's length at the first record and is never refreshed)
   LET remaining == Total(y) - StartOf(y, k) IN
   IF WBUG = "guard_lt" /\ remaining <= 4 THEN TRUE                                   \* (a final bare header is never looked at)
   ELSE IF k > NRec(y) THEN (y.tail = 0 \/ WBUG = "tail_ok")                          \* bytes left but no complete header: refused
   ELSE LET r == y.recs[k]
            left == (IF WBUG = "stale_left" THEN Total(y) ELSE remaining) - 4
        IN IF r.id \in {"z64", "rsv", "aes"} THEN FALSE                                \* (0x9901 is a registered id as well)
           ELSE IF r.dlen > left THEN FALSE
           ELSE IF r.body < r.dlen THEN TRUE                                          \* (only reachable under stale_left: the overrun is swallowed)
           ELSE Validate(y, k + 1)
Accepts(y) == Validate(y, 1)
Permitted(y) == /\ \A k \in 1..NRec(y) : y.recs[k].id = "oth" /\ y.recs[k].body = y.recs[k].dlen
                /\ y.tail = 0
ValidateExact == Accepts(fx) = Permitted(fx)
=============================================================================
