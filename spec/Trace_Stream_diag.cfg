CONSTANTS
  OBUG = "none"
  Thr16 = 65535
  ThrN = 65535
  Thr32 = 2147483647
  MaxEntries = 1
  Sizes = {0}
  BUG = "none"
SPECIFICATION TraceSpecDiag
INVARIANT TraceInv
POSTCONDITION TraceAccepted
CHECK_DEADLOCK FALSE
