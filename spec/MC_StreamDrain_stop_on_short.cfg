CONSTANTS
  MaxRest = 7
  B = 3
  BUG = "stop_on_short"
SPECIFICATION Spec
INVARIANT LandsOnBoundary
INVARIANT NeverOverruns
INVARIANT ErrOnlyIfCut
PROPERTY Terminates
CHECK_DEADLOCK FALSE
