CONSTANTS
  NCalls = 4
  OpsPerCall = 3
  BUG = "swallow"
SPECIFICATION Spec
INVARIANT FaultLaw
INVARIANT NoPanicEver
CHECK_DEADLOCK FALSE
