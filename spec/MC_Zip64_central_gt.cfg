CONSTANTS
  Thr16 = 40
  ThrN = 5
  Thr32 = 11
  B = 4
  MaxV = 30
  ZBUG = "central_gt"
SPECIFICATION Spec
INVARIANT Arithmetic
INVARIANT Rules
INVARIANT WriteRule
CHECK_DEADLOCK FALSE
